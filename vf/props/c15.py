"""C15 - analytical decompositions rebuild their input within documented bounds.

Monitor: every routine of the C15 table is called on generated inputs and its
postcondition (vf.monitors.contracts_c15) is evaluated outside Cirq: returned
factors are multiplied with numpy; returned operations are lowered one at a
time with cirq.unitary(op) and contracted with vf.refmodel.linalg; canonical
forms and gate counts are judged with the numpy-only Weyl-chamber theory of
vf.refmodel.weyl."""
from __future__ import annotations

import math

import numpy as np

from vf.monitors import contracts_c15 as P
from vf.refmodel import gates as G
from vf.refmodel import linalg as L
from vf.refmodel import weyl as W
from vf.workloads import unitaries as UW

PACKAGES = ["cirq_google"]
LEVEL = "exploration"
RULE = ("inputs per routine: Haar-random unitaries plus the measure-zero set (identity, +-SWAP, CNOT/CZ/iSWAP/sqrt-iSWAP "
        "classes and local conjugates, Weyl-chamber vertices/edges/faces as k1.exp(i(xXX+yYY+zZZ)).k2, non-canonical "
        "coordinates, degenerate / nearly degenerate spectra with gaps 1e-3..1e-12, inputs within {0.1,0.5,1,2,10} x atol of a "
        "lower-count class, SO(4) / diagonal / permutation inputs) crossed with every option flag; a case is non-trivial when "
        "its input differs from a phase times the identity by > 1e-6; distinct by (section, rounded input matrix, options)")
ASSUMPTIONS = [
    "cirq.unitary(op) of each returned operation is correct (policed by C03/C04); products are formed with numpy only",
    "reconstruction tolerance of the atol-parameterised synthesis routines: max(100 x atol, 1e-5); they threshold 20-30 angles at "
    "atol each and near the iSWAP vertex lose a square root (observed up to 170 x atol on the unchanged tree at atol=1e-8); "
    "the 10 x and 100 x atol bands of DESIGN 4.1 are counted as events 'recon>10atol' / 'recon>100atol' instead",
    "gate-count minimality is asserted only outside a grey band of [0.5, 2] x the routine's own Weyl tolerance around a class boundary",
    "KakDecomposition factor order is kron(ops[0], ops[1]) (first qubit = most significant), as used by its _unitary_/_decompose_",
    "rtol/atol-parameterised linalg helpers are held to 10 x (atol + rtol x scale)",
]
MIN_EVAL = {
    "kak_decomposition:rebuild": 300, "kak_vector:local-invariant": 300, "kak_canonicalize_vector:rebuild": 200,
    "unitary_eig:V-unitary": 150, "two_qubit_matrix_to_cz_operations:rebuild": 400,
    "two_qubit_matrix_to_cz_operations:count-minimal": 150, "two_qubit_matrix_to_sqrt_iswap_operations:rebuild": 300,
    "two_qubit_matrix_to_sqrt_iswap_operations:count-minimal": 60, "three_qubit_matrix_to_operations:rebuild": 10,
    "quantum_shannon_decomposition:rebuild-exact": 10, "decompose_multi_controlled_rotation:rebuild-exact": 20,
    "phxz:rebuild": 100,
}
_AD = "cirq/transformers/analytical_decompositions/"
MUST_REACH = [
    "cirq/linalg/decompositions.py:kak_decomposition", "cirq/linalg/decompositions.py:kak_vector",
    "cirq/linalg/decompositions.py:kak_canonicalize_vector", "cirq/linalg/decompositions.py:so4_to_magic_su2s",
    "cirq/linalg/decompositions.py:kron_factor_4x4_to_2x2s", "cirq/linalg/decompositions.py:unitary_eig",
    "cirq/linalg/decompositions.py:map_eigenvalues", "cirq/linalg/decompositions.py:axis_angle",
    "cirq/linalg/decompositions.py:deconstruct_single_qubit_matrix_into_angles",
    "cirq/linalg/decompositions.py:num_cnots_required", "cirq/linalg/decompositions.py:extract_right_diag",
    "cirq/linalg/diagonalize.py:bidiagonalize_real_matrix_pair_with_symmetric_products",
    "cirq/linalg/diagonalize.py:bidiagonalize_unitary_with_special_orthogonals",
    "cirq/linalg/diagonalize.py:diagonalize_real_symmetric_and_sorted_diagonal_matrices",
    _AD + "single_qubit_decompositions.py:single_qubit_matrix_to_pauli_rotations",
    _AD + "single_qubit_decompositions.py:single_qubit_matrix_to_phased_x_z",
    _AD + "single_qubit_decompositions.py:single_qubit_matrix_to_phxz",
    "cirq/ops/phased_x_z_gate.py:PhasedXZGate.from_matrix",
    _AD + "two_qubit_to_cz.py:two_qubit_matrix_to_cz_operations",
    _AD + "two_qubit_to_cz.py:two_qubit_matrix_to_diagonal_and_cz_operations",
    _AD + "two_qubit_to_cz.py:_xx_yy_zz_interaction_via_full_czs", _AD + "two_qubit_to_cz.py:_xx_yy_interaction_via_full_czs",
    _AD + "two_qubit_to_cz.py:_xx_interaction_via_full_czs", _AD + "two_qubit_to_cz.py:_parity_interaction",
    _AD + "single_to_two_qubit_isometry.py:two_qubit_matrix_to_cz_isometry",
    _AD + "two_qubit_to_sqrt_iswap.py:two_qubit_matrix_to_sqrt_iswap_operations",
    _AD + "two_qubit_to_sqrt_iswap.py:_decomp_0_matrices", _AD + "two_qubit_to_sqrt_iswap.py:_decomp_1sqrt_iswap_matrices",
    _AD + "two_qubit_to_sqrt_iswap.py:_decomp_2sqrt_iswap_matrices", _AD + "two_qubit_to_sqrt_iswap.py:_decomp_3sqrt_iswap_matrices",
    _AD + "two_qubit_to_fsim.py:decompose_two_qubit_interaction_into_four_fsim_gates",
    _AD + "cphase_to_fsim.py:decompose_cphase_into_two_fsim", _AD + "two_qubit_to_ms.py:two_qubit_matrix_to_ion_operations",
    "cirq_google/transformers/analytical_decompositions/two_qubit_to_sycamore.py:two_qubit_matrix_to_sycamore_operations",
    "cirq_google/transformers/analytical_decompositions/two_qubit_to_sycamore.py:known_2q_op_to_sycamore_operations",
    _AD + "three_qubit_decomposition.py:three_qubit_matrix_to_operations",
    _AD + "quantum_shannon_decomposition.py:quantum_shannon_decomposition",
    _AD + "controlled_gate_decomposition.py:decompose_multi_controlled_x",
    _AD + "controlled_gate_decomposition.py:decompose_multi_controlled_rotation",
    _AD + "controlled_gate_decomposition.py:_decompose_su", _AD + "controlled_gate_decomposition.py:_decompose_recursive",
    _AD + "two_qubit_state_preparation.py:prepare_two_qubit_state_using_cz",
    _AD + "two_qubit_state_preparation.py:prepare_two_qubit_state_using_iswap",
    _AD + "two_qubit_state_preparation.py:prepare_two_qubit_state_using_sqrt_iswap",
    _AD + "clifford_decomposition.py:decompose_clifford_tableau_to_operations",
    _AD + "pauli_string_decomposition.py:unitary_to_pauli_string",
]

TOL = P.TOL


# --------------------------------------------------------------------------- helpers
# Mechanisms of genuine defects found on the unchanged tree (see the final report / known_findings.json).  They fire on a large
# share of the cases that use unsorted qubits, so after a few witnesses per shard further hits are counted as events and do not
# crowd other mechanisms out of the worker's bounded violation list.
KNOWN_MECHANISMS = {
    "C15:prepare_two_qubit_state:wrong-state-when-q0-sorts-after-q1",
    "C15:prepare_two_qubit_state:near-product-state-prepared-as-product",
    "C15:quantum_shannon_decomposition:global-phase-lost-when-low-qubits-unsorted",
    "C15:quantum_shannon_decomposition:IndexError-when-2q-block-synthesis-touches-one-qubit",
    "C15:two_qubit_matrix_to_cz_isometry:3-cz-because-num_cnots_required-underestimates-near-class-boundary",
}
_HITS = {}


KAK_MECH = "C15:bidiagonalize_real_matrix_pair:rank-cut-splits-degenerate-singular-cluster"  # repaired in /repo (98c56d0):
# still recognised by its explained-by test so that a return is reported under this name, but no longer a known finding
SQISW_MECH = "C15:two_qubit_matrix_to_sqrt_iswap_operations:wrong-on-the-x=pi/4-face-when-atol<1e-9(canonicalisation-windows-differ)"
KNOWN_MECHANISMS.add(SQISW_MECH)
BIDIAG_VE_MECH = "C15:bidiagonalize_unitary:spurious-precondition-ValueError(internal-recheck-of-svd-rotated-block)"
KNOWN_MECHANISMS.add(BIDIAG_VE_MECH)
FSIM_MECH = "C15:decompose_two_qubit_interaction_into_four_fsim_gates:wrong-on-the-x=pi/4-face(z-sign-of-canonical-frames-differs)"
KNOWN_MECHANISMS.add(FSIM_MECH)


KAKVEC_EIG_MECH = "C15:kak_vector:LinAlgError(eig-does-not-converge)-when-UB.UB^T-is-a-multiple-of-identity-up-to-rounding-noise"
KNOWN_MECHANISMS.add(KAKVEC_EIG_MECH)


def _kak_vector_eig_explains(u, exc):
    """Explained-by test for the known kak_vector failure: the vectorised routine hands m = UB.UB^T (UB = Mag^H U Mag) to
    np.linalg.eig; for a gate at the identity or SWAP vertex m is a multiple of the identity plus rounding noise at mixed scales
    (1e-18 next to 1e-34) and LAPACK's zgeev reports non-convergence.  True only if (a) the exception is numpy's LinAlgError
    raised under kak_vector itself, (b) m formed with the harness's own magic basis is a multiple of the identity to 1e-12, and
    (c) the same call succeeds and agrees with the reference once the matrix entries are rounded to 15 decimals."""
    import traceback as _tb

    import cirq

    if type(exc) is not np.linalg.LinAlgError or "converge" not in str(exc):
        return False
    names = [fr.name for fr in _tb.extract_tb(exc.__traceback__)]
    if "kak_vector" not in names or "kak_decomposition" in names:
        return False
    u = np.asarray(u, dtype=complex)
    ok_any = False
    for one in u.reshape(-1, 4, 4):
        ub = W.MAGIC_H @ one @ W.MAGIC
        m = ub @ ub.T
        if np.max(np.abs(m - m[0, 0] * np.eye(4))) > 1e-12:
            continue
        try:
            vec = cirq.kak_vector(np.round(one, 15), check_preconditions=False)
        except Exception:  # noqa
            continue
        if P.same_kak_vector(vec, W.weyl_coordinates(one)):
            ok_any = True
    return ok_any


def _kak_vector(ctx, u, wit, **kw):
    """cirq.kak_vector(u, **kw), or None after reporting the failure (under the known mechanism when it is explained)."""
    import cirq

    try:
        return cirq.kak_vector(u, **kw)
    except np.linalg.LinAlgError as e:
        if not _kak_vector_eig_explains(u, e):
            raise
        _emit(ctx, [("no-undocumented-exception", KAKVEC_EIG_MECH, False, "kak_vector raised LinAlgError: %s" % e)], **wit)
        ctx.event("explained-by:" + KAKVEC_EIG_MECH)
        return None


def _straddles(real_mat, atol):
    """Two numerically equal singular values of mat1 on either side of the rank cut `<= atol`."""
    s = np.linalg.svd(np.asarray(real_mat, dtype=float), compute_uv=False)
    # Cirq forms Mag^H U Mag with its own constants, so its singular values differ from these in the last bits: accept a
    # numerically degenerate pair that touches the cut to 1e-6 relative; the re-evaluations below do the actual deciding
    slack = 1e-6 * atol + 1e-16
    return any(s[i] - s[i + 1] < 1e-9 and s[i] > atol - slack and s[i + 1] <= atol + slack for i in range(len(s) - 1))


def _kak_explains(u, atol=1e-8, rtol=1e-5):
    """Explained-by test for the known KAK failure: bidiagonalize_real_matrix_pair_with_symmetric_products cuts the rank of
    Re(Mag^H U Mag) at `atol`; when that cut falls inside a cluster of numerically equal singular values the two halves are
    diagonalised independently and the result is wrong.  True only if (a) such a straddling cluster exists, (b) kak_decomposition
    itself fails to rebuild U at this tolerance and (c) it succeeds once the cut is moved away from the cluster."""
    import cirq

    u = np.asarray(u, dtype=complex)
    if u.shape != (4, 4) or not _straddles(np.real(W.MAGIC_H @ u @ W.MAGIC), atol):
        return False

    def bad(a):
        k = cirq.kak_decomposition(u, atol=a, rtol=rtol, check_preconditions=False)
        return not all(ok for _, _, ok, _ in P.post_kak_decomposition(u, k))

    return bad(atol) and not bad(atol * 100)


def _emit(ctx, verdicts, _kak=None, **wit):
    """_kak = (u, atol[, rtol]) names the KAK call the routine makes internally, for the explained-by classification."""
    ok = True
    explained = None
    for mon, mech, good, msg in verdicts:
        if not good and mech not in KNOWN_MECHANISMS and _kak is not None:
            if explained is None:
                explained = _kak_explains(*_kak)
            if explained:
                msg = "[%s] %s" % (mech, msg)
                mech = KAK_MECH
        if not good and mech in KNOWN_MECHANISMS:
            _HITS[mech] = _HITS.get(mech, 0) + 1
            if _HITS[mech] > 3 and not ctx.replaying:
                ctx.ok(mon)
                ctx.event("repeat-of:" + mech)
                ok = False
                continue
        ok = ctx.check(good, mon, mech, msg, **wit) and ok
    return ok


def _fp(m, nd=6):
    a = np.round(np.asarray(m, dtype=complex), nd) + 0.0
    return a.tobytes()


def _nontrivial(u):
    u = np.asarray(u)
    return L.phase_diff(np.eye(u.shape[0], dtype=complex), u) > 1e-6


def _qubits(rng, n):
    import cirq

    style = int(rng.integers(5))
    if style == 0:
        return list(cirq.LineQubit.range(n))
    if style == 1:
        return list(reversed(cirq.LineQubit.range(n)))
    if style == 2:
        return [cirq.GridQubit(int(r), int(c)) for r, c in zip(rng.permutation(n), rng.integers(0, 3, n))]
    if style == 3:
        names = ["b", "a", "d", "c", "z", "y", "x", "w", "v", "u", "t", "s"]
        return [cirq.NamedQubit(names[i]) for i in range(n)]
    idx = rng.permutation(n + 3)[:n]
    return [cirq.LineQubit(int(i)) for i in idx]


def _pick_atol(rng, case):
    r = (case // 7) % 10
    if r < 7:
        return 1e-8
    return [1e-6, 1e-4, 1e-10][r - 7]


def _note_recon(ctx, d, atol):
    if d > 10 * atol and d > 1e-9:
        ctx.event("recon>10atol")
    if d > 100 * atol and d > 1e-9:
        ctx.event("recon>100atol")


# --------------------------------------------------------------------------- section: KAK and friends
def sec_kak(ctx, rng, case):
    import cirq

    u, info = UW.gen_two_qubit(rng, case)
    wit = dict(u=u, label=info["label"], delta=info["delta"])
    flag = bool(rng.integers(2))
    k = cirq.kak_decomposition(u, check_preconditions=flag)
    kk_ = (u, 1e-8)
    _emit(ctx, P.post_kak_decomposition(u, k), _kak=kk_, check_preconditions=flag, **wit)
    ku = cirq.unitary(k)
    _emit(ctx, [("KakDecomposition:unitary", "C15:KakDecomposition:unitary-differs", L.allclose(ku, u, TOL),
                 "cirq.unitary(KakDecomposition) differs from the decomposed matrix by %.3g" % L.maxdiff(ku, u))], _kak=kk_, **wit)
    vec = _kak_vector(ctx, u, wit, check_preconditions=bool(rng.integers(2)))
    if vec is None:
        return
    pv = P.post_kak_vector(u, vec)
    _emit(ctx, pv, **wit)
    if pv.inexact:
        ctx.event("kak_vector:z-sign-forced-outside-atol-band(>1e-6)")
    _emit(ctx, [("kak_vector==kak_decomposition", "C15:kak_vector:differs-from-decomposition", P.same_kak_vector(vec, k.interaction_coefficients),
                 "kak_vector %r vs decomposition coefficients %r" % (list(map(float, vec)), list(map(float, k.interaction_coefficients))))],
          _kak=kk_, **wit)
    mine = W.weyl_coordinates(u)
    _emit(ctx, [("kak_decomposition:coefficients==reference", "C15:kak_decomposition:coefficients-differ-from-reference",
                 P.same_kak_vector(mine, k.interaction_coefficients),
                 "reference Weyl coordinates %r vs %r" % (mine, tuple(map(float, k.interaction_coefficients))))], _kak=kk_, **wit)
    if case % 4 == 0:  # batched input, shape (2, 3, 4, 4)
        batch = np.array([[UW.gen_two_qubit(rng, int(rng.integers(10 ** 6)))[0] for _ in range(3)] for _ in range(2)])
        batch[1, 2] = u
        bv = _kak_vector(ctx, batch, wit)
        if bv is None:
            return
        ok = bv.shape == (2, 3, 3)
        ctx.check(ok, "kak_vector:batch-shape", "C15:kak_vector:batch-shape", "shape %r" % (bv.shape,), **wit)
        if ok:
            for i in range(2):
                for j in range(3):
                    _emit(ctx, P.post_kak_vector(batch[i, j], bv[i, j]), batched=True, u=batch[i, j])
            ctx.check(P.same_kak_vector(bv[1, 2], vec), "kak_vector:batch==single", "C15:kak_vector:batch-differs-from-single",
                      "%r vs %r" % (bv[1, 2], vec), **wit)
    if case % 10 == 1 and (case // 10) % 3 == 0:  # objects with a unitary instead of a matrix
        name, gate = [("CZ", cirq.CZ), ("CNOT", cirq.CNOT), ("SWAP", cirq.SWAP), ("ISWAP", cirq.ISWAP),
                      ("SQRT_ISWAP", cirq.SQRT_ISWAP)][(case // 30) % 5]
        kk = cirq.kak_decomposition(gate)
        _emit(ctx, P.post_kak_decomposition(W.named_gate(name), kk), gate=name)
    # kak_canonicalize_vector on raw coordinates
    raw = rng.uniform(-4, 4, 3)
    r = rng.random()
    if r < 0.35:
        raw = W.PI4 * rng.integers(-6, 7, size=3).astype(float)
    elif r < 0.6:
        raw = W.PI4 * rng.integers(-6, 7, size=3).astype(float) + rng.choice([0, 1, -1], size=3) * UW.GAPS[int(rng.integers(len(UW.GAPS)))]
    elif r < 0.75:
        t = float(rng.uniform(-1, 1)) * W.PI4
        raw = np.array([t, t, t]) * rng.choice([1, -1], size=3)
    catol = [1e-9, 1e-9, 1e-6, 1e-12][int(rng.integers(4))]
    kc = cirq.kak_canonicalize_vector(float(raw[0]), float(raw[1]), float(raw[2]), catol) if catol != 1e-9 or rng.random() < 0.5 \
        else cirq.kak_canonicalize_vector(float(raw[0]), float(raw[1]), float(raw[2]))
    _emit(ctx, P.post_kak_canonicalize_vector(raw[0], raw[1], raw[2], catol, kc), raw=raw, atol=catol)
    ctx.check(P.same_kak_vector(W.canonicalize(*raw), kc.interaction_coefficients, tol=max(1e-7, 2.1 * catol)), "kak_canonicalize_vector:==reference",
              "C15:kak_canonicalize_vector:differs-from-reference",
              "reference %r vs %r" % (W.canonicalize(*raw), kc.interaction_coefficients), raw=raw)
    # so4_to_magic_su2s / kron_factor_4x4_to_2x2s
    a, b = W.local_unitary(rng), W.local_unitary(rng)
    a, b = a / np.sqrt(np.linalg.det(a)), b / np.sqrt(np.linalg.det(b))
    so4 = np.real(W.MAGIC_H @ np.kron(a, b) @ W.MAGIC)
    ra, rb = cirq.so4_to_magic_su2s(so4, check_preconditions=bool(rng.integers(2)))
    _emit(ctx, P.post_so4_to_magic_su2s(so4, ra, rb), mat=so4)
    if case % 5 == 0:
        bad = so4.copy()
        bad[0, :] *= -1  # orthogonal with determinant -1: documented ValueError
        try:
            cirq.so4_to_magic_su2s(bad)
            ctx.check(False, "so4_to_magic_su2s:rejects-det-1", "C15:so4_to_magic_su2s:accepts-improper-rotation",
                      "an orthogonal matrix with determinant -1 was accepted", mat=bad)
        except ValueError as e:
            ctx.check("special orthogonal" in str(e), "so4_to_magic_su2s:rejects-det-1", "C15:so4_to_magic_su2s:wrong-error", str(e))
            ctx.reject("so4:not-special-orthogonal")
    ph = UW.pick_phase(rng) * float(rng.uniform(0.5, 2.0) if rng.random() < 0.3 else 1.0)
    la, lb = W.local_unitary(rng), W.local_unitary(rng)
    prod = ph * np.kron(la, lb)
    g, f1, f2 = cirq.kron_factor_4x4_to_2x2s(prod)
    _emit(ctx, P.post_kron_factor(prod, g, f1, f2), matrix=prod)
    if _nontrivial(u) and W.cz_class(mine, 1e-3) >= 1:
        try:
            cirq.kron_factor_4x4_to_2x2s(u)
            ctx.check(False, "kron_factor:rejects-entangling", "C15:kron_factor_4x4_to_2x2s:accepts-non-product",
                      "an entangling unitary was factored", **wit)
        except ValueError as e:
            ctx.check("kronecker" in str(e).lower(), "kron_factor:rejects-entangling", "C15:kron_factor_4x4_to_2x2s:wrong-error", str(e))
            ctx.reject("kron_factor:not-a-product")
    ctx.distinct(("kak", _fp(u)), nontrivial=_nontrivial(u))
    ctx.sample({"label": info["label"], "delta": info["delta"], "kak_vector": [float(t) for t in vec]})


# --------------------------------------------------------------------------- section: diagonalisation helpers
def sec_linalg(ctx, rng, case):
    import cirq

    # bidiagonalize_real_matrix_pair_with_symmetric_products
    m1, m2, style, d = UW.gen_real_pair(rng, case)
    scale = max(1.0, float(np.abs(m1).max(initial=0)), float(np.abs(m2).max(initial=0)))
    left, right = cirq.bidiagonalize_real_matrix_pair_with_symmetric_products(m1, m2, check_preconditions=bool(rng.integers(2)))
    vp = P.post_bidiagonalize_pair(m1, m2, left, right, P.lin_tol(scale))
    if any(not ok for _, _, ok, _ in vp) and _straddles(m1, 1e-8):
        l2, r2 = cirq.bidiagonalize_real_matrix_pair_with_symmetric_products(m1, m2, atol=1e-6, check_preconditions=False)
        if all(ok for _, _, ok, _ in P.post_bidiagonalize_pair(m1, m2, l2, r2, P.lin_tol(scale))):
            vp = [(mon, mech if ok else KAK_MECH, ok, msg) for mon, mech, ok, msg in vp]
    _emit(ctx, vp, mat1=m1, mat2=m2, style=style)
    # bidiagonalize_unitary_with_special_orthogonals on 4x4 (the KAK use) and other sizes
    if case % 2 == 0:
        u, info = UW.gen_two_qubit(rng, case // 2)
        mat = W.MAGIC_H @ u @ W.MAGIC
        label = info["label"]
    else:
        dm = [2, 4, 3, 8, 4, 2][(case // 2) % 6]
        lam = UW.degenerate_values(rng, dm, unit=True)
        fr = UW.frame(rng, dm)
        mat = (fr * lam) @ fr.conj().T
        if rng.random() < 0.5:  # symmetric unitaries O diag O^T: bidiagonalised by a single orthogonal
            o = UW.random_orthogonal(rng, dm)
            mat = (o * lam) @ o.T
        label = "normal-unitary"
    cp = bool(rng.integers(2))
    try:
        bl, bd, br = cirq.bidiagonalize_unitary_with_special_orthogonals(mat, check_preconditions=cp)
    except ValueError as e:
        # the input is unitary to 1e-14 by construction, so this documented rejection is spurious.  explained-by: the routine
        # re-checks its own intermediate blocks (symmetry / commutation of an SVD-rotated block) with atol 1e-8; without the
        # re-check the very same input is bidiagonalised correctly.
        mech = "C15:bidiagonalize_unitary:ValueError-on-valid-unitary"
        if cp and ("symmetric" in str(e) or "commute" in str(e)):
            l2, d2, r2 = cirq.bidiagonalize_unitary_with_special_orthogonals(mat, check_preconditions=False)
            if all(ok for _, _, ok, _ in P.post_bidiagonalize_unitary(mat, l2, d2, r2, P.lin_tol(1.0))):
                mech = BIDIAG_VE_MECH
            elif _straddles(np.real(mat), 1e-8):
                # the other recorded mechanism seen through the precondition re-check: the rank cut `<= atol` falls inside a
                # cluster of equal singular values of Re(mat); the halves are then diagonalised separately, the intermediate
                # block is not symmetric (this error) and without the re-check the result is wrong; moving the cut repairs it
                l3, d3, r3 = cirq.bidiagonalize_unitary_with_special_orthogonals(mat, atol=1e-6, check_preconditions=False)
                if all(ok for _, _, ok, _ in P.post_bidiagonalize_unitary(mat, l3, d3, r3, P.lin_tol(1.0))):
                    mech = KAK_MECH
        _emit(ctx, [("bidiagonalize_unitary:diagonal", mech, False, "ValueError(%s) for a matrix that is unitary to %.1g" %
                     (e, L.maxdiff(mat @ mat.conj().T, np.eye(len(mat)))))], mat=mat, label=label)
        bl = None
    vu = P.post_bidiagonalize_unitary(mat, bl, bd, br, P.lin_tol(1.0)) if bl is not None else []
    if any(not ok for _, _, ok, _ in vu) and _straddles(np.real(mat), 1e-8):
        l2, d2, r2 = cirq.bidiagonalize_unitary_with_special_orthogonals(mat, atol=1e-6, check_preconditions=False)
        if all(ok for _, _, ok, _ in P.post_bidiagonalize_unitary(mat, l2, d2, r2, P.lin_tol(1.0))):
            vu = [(mon, mech if ok else KAK_MECH, ok, "[%s] %s" % (mech, msg)) for mon, mech, ok, msg in vu]
    _emit(ctx, vu, mat=mat, label=label)
    # diagonalize_real_symmetric_matrix
    dd = int(rng.integers(1, 6))
    o = UW.random_orthogonal(rng, dd)
    ev = UW.degenerate_values(rng, dd, real=True)
    sym = o @ np.diag(ev) @ o.T
    sym = (sym + sym.T) / 2
    p = cirq.diagonalize_real_symmetric_matrix(sym, check_preconditions=bool(rng.integers(2)))
    _emit(ctx, P.post_diagonalize_symmetric(sym, p, P.lin_tol(np.abs(sym).max())), matrix=sym)
    # diagonalize_real_symmetric_and_sorted_diagonal_matrices
    s2, dg, _ = UW.gen_sym_and_sorted_diag(rng, case)
    p2 = cirq.diagonalize_real_symmetric_and_sorted_diagonal_matrices(s2, dg, check_preconditions=True)
    _emit(ctx, P.post_diagonalize_symmetric_sorted(s2, dg, p2, P.lin_tol(max(np.abs(s2).max(), np.abs(dg).max()))),
          symmetric=s2, diagonal=np.diag(dg))
    # unitary_eig / map_eigenvalues
    nm, flavour, nd = UW.gen_normal(rng, case)
    vals, vecs = cirq.unitary_eig(nm, check_preconditions=bool(rng.integers(2)))
    _emit(ctx, P.post_unitary_eig(nm, vals, vecs, TOL * max(1.0, float(np.abs(nm).max()))), matrix=nm, flavour=flavour)
    fname, f, ref = [
        ("square", lambda z: z * z, lambda m: m @ m),
        ("conj", lambda z: np.conj(z), lambda m: m.conj().T),
        ("abs2-shifted", lambda z: abs(z - 1) ** 2, lambda m: (m - np.eye(len(m))).conj().T @ (m - np.eye(len(m)))),
        ("cubic", lambda z: z ** 3 - 2 * z + 0.5, lambda m: m @ m @ m - 2 * m + 0.5 * np.eye(len(m))),
        ("constant", lambda z: 2.0 + 0j, lambda m: 2.0 * np.eye(len(m), dtype=complex)),
    ][case % 5]
    out = cirq.map_eigenvalues(nm, f)
    _emit(ctx, P.post_map_eigenvalues(ref(nm), out, fname, TOL * max(1.0, float(np.abs(nm).max()) ** 3)), matrix=nm, flavour=flavour)
    ctx.distinct(("linalg", _fp(nm), _fp(m1)), nontrivial=True)
    ctx.sample({"pair_style": style, "dim": d, "normal": flavour, "normal_dim": nd, "f": fname})


# --------------------------------------------------------------------------- section: single-qubit forms
def sec_oneq(ctx, rng, case):
    import cirq

    u, label = UW.gen_one_qubit(rng, case)
    wit = dict(u=u, label=label)
    aa = cirq.axis_angle(u)
    _emit(ctx, P.post_axis_angle(u, aa), **wit)
    # AxisAngleDecomposition.canonicalize on a non-canonical description
    ang = float(rng.uniform(-10, 10))
    if rng.random() < 0.5:
        ang = float(rng.choice([math.pi, -math.pi, 2 * math.pi, -2 * math.pi, 3 * math.pi, 0.0, 4 * math.pi]) +
                    rng.choice([0.0, 1e-9, -1e-9, 1e-7, -1e-7]))
    ax = rng.standard_normal(3)
    if rng.random() < 0.3:
        ax = np.eye(3)[int(rng.integers(3))] * rng.choice([1.0, -1.0])
    ax = ax / np.linalg.norm(ax)
    gp = UW.pick_phase(rng)
    catol = [1e-8, 0.0, 1e-3][int(rng.integers(3))]
    raw = cirq.AxisAngleDecomposition(angle=ang, axis=tuple(float(t) for t in ax), global_phase=gp)
    can = raw.canonicalize(catol) if catol != 1e-8 or rng.random() < 0.5 else raw.canonicalize()
    _emit(ctx, P.post_axis_angle(P.axis_angle_matrix(ang, ax, gp), can, tol=1e-7, canonical_atol=catol, who="AxisAngle.canonicalize"),
          angle=ang, axis=ax, atol=catol)
    angles = cirq.deconstruct_single_qubit_matrix_into_angles(u)
    _emit(ctx, P.post_deconstruct_angles(u, angles), **wit)
    atol = [0.0, 0.0, 1e-8, 1e-6][int(rng.integers(4))]
    rots = cirq.single_qubit_matrix_to_pauli_rotations(u, atol) if atol else cirq.single_qubit_matrix_to_pauli_rotations(u)
    _emit(ctx, P.post_pauli_rotations(u, rots, atol), atol=atol, **wit)
    gates = cirq.single_qubit_matrix_to_gates(u, atol)
    _emit(ctx, P.post_1q_gates(u, gates, atol, "single_qubit_matrix_to_gates"), atol=atol, **wit)
    pxz = cirq.single_qubit_matrix_to_phased_x_z(u, atol)
    _emit(ctx, P.post_1q_gates(u, pxz, atol, "single_qubit_matrix_to_phased_x_z", (cirq.PhasedXPowGate, cirq.ZPowGate), 2), atol=atol, **wit)
    g = cirq.single_qubit_matrix_to_phxz(u, atol)
    _emit(ctx, P.post_phxz(u, g, atol), atol=atol, **wit)
    fm = cirq.PhasedXZGate.from_matrix(u)
    _emit(ctx, P.post_1q_gates(u, [fm], 0.0, "PhasedXZGate.from_matrix", (cirq.PhasedXZGate,), 1), **wit)
    ref = G.phased_xz(float(fm.x_exponent), float(fm.z_exponent), float(fm.axis_phase_exponent))
    ctx.check(L.phase_equal(ref, u, 1e-7), "PhasedXZGate.from_matrix:catalogue", "C15:PhasedXZGate.from_matrix:rebuild-catalogue",
              lambda: "catalogue PhasedXZ differs by %.3g" % L.phase_diff(ref, u), **wit)
    fu, fr, fg = cirq.single_qubit_op_to_framed_phase_form(u)
    rebuilt = fu.conj().T @ np.diag([1, fr]) @ fu * fg
    ctx.check(L.is_unitary(fu, TOL) and L.allclose(rebuilt, u, TOL), "framed_phase_form:rebuild", "C15:single_qubit_op_to_framed_phase_form:rebuild",
              lambda: "U^-1 diag(1,r) U g differs from M by %.3g" % L.maxdiff(rebuilt, u), **wit)
    ctx.distinct(("oneq", _fp(u), atol), nontrivial=_nontrivial(u))
    ctx.sample({"label": label, "atol": atol, "angles": [float(a) for a in angles]})


# --------------------------------------------------------------------------- section: CZ synthesis
def sec_cz(ctx, rng, case):
    import cirq

    atol = _pick_atol(rng, case)
    u, info = UW.gen_two_qubit(rng, case, atol)
    coords = W.weyl_coordinates(u)
    q0, q1 = _qubits(rng, 2)
    wit = dict(u=u, label=info["label"], delta=info["delta"], atol=atol, qubits=[repr(q0), repr(q1)])
    counts = {}
    for partial in (False, True):
        for clean in (False, True):
            kw = {}
            if atol != 1e-8 or rng.random() < 0.5:
                kw["atol"] = atol
            if not clean or rng.random() < 0.5:
                kw["clean_operations"] = clean
            try:
                ops = cirq.two_qubit_matrix_to_cz_operations(q0, q1, u, partial, **kw)
            except ValueError as e:
                if "is not allowed" in str(e):
                    ctx.check(False, "two_qubit_matrix_to_cz_operations:synthesises", "C15:two_qubit_matrix_to_cz_operations:refuses-full-cz-synthesis",
                              "ValueError %s although three full CZs are universal" % e, allow_partial_czs=partial, clean_operations=clean, **wit)
                    continue
                raise
            v, d, n = P.post_cz_operations(q0, q1, u, ops, partial, atol, clean, coords)
            _emit(ctx, v, _kak=(u, atol), allow_partial_czs=partial, clean_operations=clean, coords=coords, **wit)
            _note_recon(ctx, d, atol)
            counts[(partial, clean)] = n
    if (False, False) in counts and (False, True) in counts:
        ctx.check(counts[(False, False)] == counts[(False, True)], "two_qubit_matrix_to_cz_operations:clean-keeps-count",
                  "C15:two_qubit_matrix_to_cz_operations:clean-changes-cz-count", "counts %r" % counts, **wit)
    # the same matrix handed over in a real dtype (float64 / int) is the same operation
    if case % 7 == 0:
        cn = np.array([[1, 0, 0, 0], [0, 1, 0, 0], [0, 0, 0, 1], [0, 0, 1, 0]])
        reals = [("CNOT", cn), ("CNOT-reversed", cn[[0, 3, 2, 1]][:, [0, 3, 2, 1]]), ("SWAP", np.eye(4)[[0, 2, 1, 3]]), ("CZ", np.diag([1, 1, 1, -1])),
                 ("XX", np.eye(4)[::-1]), ("orthogonal", UW.random_orthogonal(rng, 4)), ("X(x)I", np.kron(W.X.real, np.eye(2))), ("-I", -np.eye(4))]
        rname, rm = reals[(case // 7) % len(reals)]
        rm = rm.astype(float) if rng.random() < 0.6 or rname == "orthogonal" else rm.astype(int)
        n_real, n_cplx = cirq.num_cnots_required(rm), cirq.num_cnots_required(rm.astype(complex))
        ctx.check(n_real == n_cplx, "real-dtype==complex-dtype", "C15:num_cnots_required:real-dtype-differs",
                  "num_cnots_required(%s as %s) = %d, as complex128 = %d" % (rname, rm.dtype, n_real, n_cplx), matrix=rm)
        ops_r = cirq.two_qubit_matrix_to_cz_operations(q0, q1, rm, False, 1e-8, True)
        vr, dr, nr = P.post_cz_operations(q0, q1, rm.astype(complex), ops_r, False, 1e-8, True, W.weyl_coordinates(rm.astype(complex)))
        _emit(ctx, vr, matrix=rm, real_dtype=str(rm.dtype))
    # num_cnots_required against the reference class, outside the grey band
    nc = cirq.num_cnots_required(u)
    # its atol is applied to traces of gamma(U), which are second order in the distance from a class boundary (e.g. Im tr ~ 4 y z
    # near CZ), so anything closer than 1e-3 to a lower class is treated as undecided here
    hi, lo = W.cz_class(coords, 1e-10), W.cz_class(coords, 1e-3)
    if hi == lo:
        ctx.check(nc == hi, "num_cnots_required==reference", "C15:num_cnots_required:wrong-class",
                  "num_cnots_required = %d, Weyl coordinates %r need %d" % (nc, coords, hi), **wit)
        if atol == 1e-8 and (False, True) in counts:
            ctx.check(counts[(False, True)] == nc, "two_qubit_matrix_to_cz_operations:count==num_cnots_required",
                      "C15:two_qubit_matrix_to_cz_operations:count-differs-from-num_cnots_required",
                      "%d CZ used, num_cnots_required = %d" % (counts[(False, True)], nc), **wit)
    else:
        ctx.event("cz-class-grey-band")
    # diagonal variant and isometry, one option set each per case (all four over four cases)
    partial, clean = bool((case // 2) % 2), bool(case % 2)
    dg, dops = cirq.two_qubit_matrix_to_diagonal_and_cz_operations(q0, q1, u, partial, atol, clean)
    v, d, n = P.post_diagonal_and_cz(q0, q1, u, dg, dops, partial, atol, clean)
    # the routine synthesises mat @ right_diag (= u @ D^dagger for the returned D) when it splits a diagonal off
    _emit(ctx, v, _kak=(u @ np.asarray(dg).conj().T if np.shape(dg) == (4, 4) else u, atol), allow_partial_czs=partial, clean_operations=clean, **wit)
    ctx.event("diag+cz:%d-cz" % n)
    iops = cirq.two_qubit_matrix_to_cz_isometry(q0, q1, u, partial, atol, clean)
    v, d, n = P.post_cz_isometry(q0, q1, u, iops, partial, atol, clean)
    near_2cz = abs(coords[2]) < 1e-5  # within 1e-5 of the 2-CZ class (z = 0)
    if n == 3 and ((nc < 3 and abs(coords[2]) > 0.5 * atol) or (nc == 3 and near_2cz and atol < 1e-8)):
        # explained-by: the diagonal is only split off when num_cnots_required(mat) == 3 (default atol 1e-8, applied to a trace
        # that is second order in the distance from the 2-CZ class), but the CZ synthesis sees |z| >= atol and spends 3 CZs;
        # and when it is split off this close to the class boundary, extract_right_diag leaves a remainder with |z| of a few
        # 1e-9, which a caller's atol below 1e-8 still counts as a third CZ
        v = [(mon, mech.replace("more-than-2-cz", "3-cz-because-num_cnots_required-underestimates-near-class-boundary"), ok, msg)
             for mon, mech, ok, msg in v]
    _emit(ctx, v, _kak=(u @ np.asarray(dg).conj().T if np.shape(dg) == (4, 4) else u, atol), allow_partial_czs=partial,
          clean_operations=clean, coords=coords, num_cnots_required=nc, **wit)
    ctx.distinct(("cz", _fp(u), atol), nontrivial=_nontrivial(u))
    ctx.sample({"label": info["label"], "delta": info["delta"], "atol": atol, "coords": list(coords),
                "cz_counts": {"%s/%s" % k: n_ for k, n_ in counts.items()}})


# --------------------------------------------------------------------------- section: sqrt-iSWAP synthesis
def sec_sqrt_iswap(ctx, rng, case):
    import cirq

    atol = _pick_atol(rng, case)
    if case % 3 == 0:  # aim at the sqrt-iSWAP specific boundaries: the 1-gate point and the x = y + |z| face
        kind = (case // 3) % 4
        k1, k2 = W.local_pair(rng), W.local_pair(rng)
        y = float(rng.uniform(0.05, 0.45)) * W.PI4
        z = float(rng.uniform(-1, 1)) * y
        base = [np.array([W.PI4 / 2, W.PI4 / 2, 0.0]), np.array([y + abs(z), y, z]), np.array([0.0, 0.0, 0.0]),
                np.array([y + abs(z), y, z])][kind]
        delta = [0.0, 0.1, 0.5, 2.0, 10.0, 1000.0][(case // 12) % 6] * (atol / 10.0)
        direction = np.array([1.0, 0, 0]) * (1 if rng.random() < 0.5 else -1) if kind in (1, 3) else rng.choice([-1.0, 0.0, 1.0], size=3)
        v = base + delta * direction
        if rng.random() < 0.3:
            v = UW.noncanonical(rng, v)
        u = k1 @ W.interaction(*v) @ k2 * UW.pick_phase(rng)
        info = {"label": "sqrt-iswap-boundary:%d" % kind, "delta": float(delta)}
    else:
        u, info = UW.gen_two_qubit(rng, case, atol / 10.0)
    coords = W.weyl_coordinates(u)
    q0, q1 = _qubits(rng, 2)
    wit = dict(u=u, label=info["label"], delta=info["delta"], atol=atol, coords=coords, qubits=[repr(q0), repr(q1)])
    used = {}
    for required in (None, 0, 1, 2, 3):
        inv, clean = bool(rng.integers(2)), bool(rng.integers(2))
        kw = dict(required_sqrt_iswap_count=required, use_sqrt_iswap_inv=inv, clean_operations=clean)
        if atol != 1e-8 or rng.random() < 0.5:
            kw["atol"] = atol
        if rng.random() < 0.3:
            kw["check_preconditions"] = False
        expect = "yes" if required is None else P.sqrt_iswap_feasibility(coords, required, atol)
        try:
            ops = cirq.two_qubit_matrix_to_sqrt_iswap_operations(q0, q1, u, **kw)
        except ValueError as e:
            if "cannot be decomposed into exactly" not in str(e):
                raise
            # (the routine decides from its own kak_decomposition(u, atol/10): when that call is the recorded KAK failure,
            # its interaction coefficients are garbage and so is the feasibility answer)
            _emit(ctx, [("sqrt_iswap:ValueError-iff-infeasible", "C15:two_qubit_matrix_to_sqrt_iswap_operations:rejects-feasible-count", expect != "yes",
                         "ValueError for required_sqrt_iswap_count=%r although Weyl coordinates %r allow it" % (required, coords))],
                  _kak=(u, atol / 10, 0.0), **wit)
            ctx.reject("sqrt_iswap:required-count-infeasible")
            continue
        _emit(ctx, [("sqrt_iswap:ValueError-iff-infeasible", "C15:two_qubit_matrix_to_sqrt_iswap_operations:accepts-infeasible-count", expect != "no",
                     "no ValueError for required_sqrt_iswap_count=%r although Weyl coordinates %r forbid it" % (required, coords))],
              _kak=(u, atol / 10, 0.0), **wit)
        if expect == "either":
            ctx.event("sqrt-iswap-grey-band")
        v, d, n = P.post_sqrt_iswap(q0, q1, u, ops, required, inv, atol, clean, coords)
        on_face = W.PI4 - coords[0] < 1.2e-9
        # the 3-gate branch splits off (-pi/8, pi/8, 0) when y <= pi/8: its 2-gate sub-problem then has x2 = x + pi/8, which
        # lies on the same x = pi/4 face when x is within 1e-9 of pi/8
        sub_on_face = abs(coords[0] - W.PI4 / 2) < 1.2e-9 and coords[1] <= W.PI4 / 2 + 1e-12
        if d > P.recon_tol(atol) and atol < 1e-9 and (on_face or sub_on_face):
            # explained-by: kak_decomposition canonicalises with a fixed 1e-9 window at x = pi/4 while the 3-gate branch
            # canonicalises its sub-problems with the caller's atol; for atol < 1e-9 the two disagree about the sign of z on
            # that face and the single-qubit corrections belong to different frames.  The same call with atol=1e-8 is correct.
            kw2 = dict(kw, atol=1e-8)
            try:
                ops2 = cirq.two_qubit_matrix_to_sqrt_iswap_operations(q0, q1, u, **kw2)
                if L.phase_diff(P.lower(ops2, [q0, q1]), u) <= TOL:
                    v = [(mon, mech if ok else SQISW_MECH, ok, msg) for mon, mech, ok, msg in v]
            except ValueError:
                pass
        _emit(ctx, v, _kak=(u, atol / 10, 0.0), required=required, use_sqrt_iswap_inv=inv, clean_operations=clean, **wit)
        _note_recon(ctx, d, atol)
        used[required] = n
    if case % 11 == 0:
        for bad in (4, -1):
            try:
                cirq.two_qubit_matrix_to_sqrt_iswap_operations(q0, q1, u, required_sqrt_iswap_count=bad)
                ctx.check(False, "sqrt_iswap:rejects-count>3", "C15:two_qubit_matrix_to_sqrt_iswap_operations:accepts-count-out-of-range", "count %d" % bad)
            except ValueError:
                ctx.ok("sqrt_iswap:rejects-count>3")
                ctx.reject("sqrt_iswap:count-out-of-range")
    ctx.distinct(("sqrt_iswap", _fp(u), atol), nontrivial=_nontrivial(u))
    ctx.sample({"label": info["label"], "delta": info["delta"], "atol": atol, "coords": list(coords),
                "counts": {str(k): v_ for k, v_ in used.items()}})


# --------------------------------------------------------------------------- section: FSim / MS / Sycamore targets
def sec_other2q(ctx, rng, case):
    import cirq
    import cirq_google

    u, info = UW.gen_two_qubit(rng, case)
    wit = dict(u=u, label=info["label"])
    sub = case % 4
    if sub == 0:  # four FSim gates
        m = 1e-3
        r = rng.random()
        if r < 0.6:
            th = float(rng.uniform(3 * math.pi / 8 + m, 5 * math.pi / 8 - m)) * (1 if rng.random() < 0.7 else -1)
            phi = float(rng.uniform(-math.pi / 4 + m, math.pi / 4 - m))
            if rng.random() < 0.3:
                th, phi = [(math.pi / 2, 0.0), (math.pi / 2, math.pi / 6), (math.pi / 2, -math.pi / 6), (math.pi / 2, math.pi / 4 - m),
                           (3 * math.pi / 8 + m, 0.0), (5 * math.pi / 8 - m, math.pi / 4 - m), (-math.pi / 2, 0.1)][int(rng.integers(7))]
            fs = cirq.FSimGate(th, phi)
            valid = True
        elif r < 0.8:
            e = float(rng.uniform(0.75 + m, 1.25 - m)) * (1 if rng.random() < 0.5 else -1)
            fs = cirq.ISWAP ** e if rng.random() < 0.7 else [cirq.ISWAP, cirq.ISWAP_INV][int(rng.integers(2))]
            valid = True
        else:
            th, phi = [(math.pi / 4, 0.0), (math.pi / 2, math.pi / 2), (0.0, 0.0), (math.pi, 0.1), (math.pi / 2, -1.0)][int(rng.integers(5))]
            fs = cirq.FSimGate(th, phi)
            valid = False
        qs = _qubits(rng, 2) if rng.random() < 0.7 else None
        target, want = u, u
        if rng.random() < 0.2:
            nm, gate = [("CZ", cirq.CZ), ("SWAP", cirq.SWAP), ("ISWAP", cirq.ISWAP), ("CNOT", cirq.CNOT)][int(rng.integers(4))]
            want = W.named_gate(nm)
            target = gate if rng.random() < 0.5 or qs is None else gate.on(*qs)
        try:
            circ = cirq.decompose_two_qubit_interaction_into_four_fsim_gates(target, fsim_gate=fs, qubits=qs)
        except ValueError as e:
            if not valid and "Must have" in str(e):
                ctx.reject("four_fsim:gate-out-of-range")
                ctx.ok("four_fsim:rejects-out-of-range")
                return
            raise
        ctx.check(valid, "four_fsim:rejects-out-of-range", "C15:decompose_two_qubit_interaction_into_four_fsim_gates:accepts-out-of-range",
                  "no ValueError for %r" % (fs,), **wit)
        if not valid:
            return
        use = qs if qs is not None else list(cirq.LineQubit.range(2))
        v, d = P.post_four_fsim(want, list(circ.all_operations()), use, fs)
        if d > TOL:
            # explained-by: _fix_single_qubit_gates_around_kak_interaction assumes the KAK frames of the desired operation and of
            # the constructed B-gate circuit belong to the same canonical vector; at x = pi/4 the canonical sign of z flips between
            # the two (they sit on opposite sides of the chamber face), so the single-qubit corrections do not match.  The same
            # local frames with x moved 1e-4 inside the chamber are synthesised correctly.
            c = W.weyl_coordinates(want)
            if c[0] > W.PI4 - 1e-6 and abs(c[2]) > 1e-7:
                kd = cirq.kak_decomposition(want)
                x, y, z = kd.interaction_coefficients
                if all(ok for _, _, ok, _ in P.post_kak_decomposition(want, kd)):
                    inside = W.kak_product(kd.global_phase, kd.single_qubit_operations_after[0], kd.single_qubit_operations_after[1],
                                           (x - 1e-4, y, z), kd.single_qubit_operations_before[0], kd.single_qubit_operations_before[1])
                    c2 = cirq.decompose_two_qubit_interaction_into_four_fsim_gates(inside, fsim_gate=fs, qubits=use)
                    if all(ok for _, _, ok, _ in P.post_four_fsim(inside, list(c2.all_operations()), use, fs)[0]):
                        v = [(mon, mech if ok else FSIM_MECH, ok, msg) for mon, mech, ok, msg in v]
        _emit(ctx, v, _kak=(want, 1e-8), fsim=repr(fs), coords=W.weyl_coordinates(want), **wit)
        ctx.distinct(("four_fsim", _fp(want), repr(fs)), nontrivial=_nontrivial(want))
        ctx.sample({"routine": "four_fsim", "label": info["label"], "fsim": repr(fs)})
    elif sub == 1:  # CZ**t into two FSim
        from vf.workloads import gatepool as GP

        t = GP.pick_exp(rng)
        th = float(rng.uniform(-math.pi, math.pi))
        phi = float(rng.uniform(-2 * math.pi, 2 * math.pi))
        if rng.random() < 0.3:
            th, phi = [(math.pi / 2, math.pi / 6), (math.pi / 2, 0.0), (math.pi / 4, 0.0), (0.0, math.pi), (math.pi / 2, math.pi),
                       (math.pi / 6, math.pi / 3)][int(rng.integers(6))]
        fs = cirq.FSimGate(th, phi)
        atol = 1e-8
        expect = P.cphase_fsim_feasibility(th, phi, t, atol)
        qs = _qubits(rng, 2) if rng.random() < 0.7 else None
        try:
            ops = cirq.decompose_cphase_into_two_fsim(cirq.CZPowGate(exponent=t), fsim_gate=fs, qubits=qs)
        except ValueError as e:
            msg = str(e)
            if "cannot be decomposed" in msg or "cannot be used to decompose" in msg:
                ctx.check(expect != "yes", "cphase_two_fsim:ValueError-iff-infeasible", "C15:decompose_cphase_into_two_fsim:rejects-feasible",
                          "ValueError (%s) although the documented condition holds" % msg[:120], theta=th, phi=phi, exponent=t)
                ctx.reject("cphase_two_fsim:infeasible")
                return
            raise
        if expect == "no":
            ctx.event("cphase_two_fsim:accepted-outside-documented-condition")
        use = qs if qs is not None else list(cirq.LineQubit.range(2))
        v, d = P.post_cphase_two_fsim(t, fs, ops, use)
        _emit(ctx, v, theta=th, phi=phi, exponent=t)
        ctx.distinct(("cphase_fsim", round(t, 9), round(th, 9), round(phi, 9)), nontrivial=abs(math.sin(math.pi * t / 2)) > 1e-6)
        ctx.sample({"routine": "cphase_two_fsim", "exponent": t, "theta": th, "phi": phi})
    elif sub == 2:  # MS gates
        atol = _pick_atol(rng, case)
        q0, q1 = _qubits(rng, 2)
        for clean in (False, True):
            ops = cirq.two_qubit_matrix_to_ion_operations(q0, q1, u, atol, clean) if rng.random() < 0.5 else \
                cirq.two_qubit_matrix_to_ion_operations(q0, q1, u, atol=atol, clean_operations=clean)
            v, d = P.post_ion(q0, q1, u, ops, atol, clean)
            _emit(ctx, v, _kak=(u, atol), atol=atol, clean_operations=clean, **wit)
            _note_recon(ctx, d, atol)
        ctx.distinct(("ion", _fp(u), atol), nontrivial=_nontrivial(u))
        ctx.sample({"routine": "ion", "label": info["label"], "atol": atol})
    else:  # Sycamore
        q0, q1 = _qubits(rng, 2)
        if (case // 4) % 2 == 0:
            atol = _pick_atol(rng, case)
            clean = bool(rng.integers(2))
            ops = P.flat_ops(cirq_google.two_qubit_matrix_to_sycamore_operations(q0, q1, u, atol=atol, clean_operations=clean))
            v, d, n = P.post_sycamore([q0, q1], u, ops, "two_qubit_matrix_to_sycamore_operations", P.recon_tol(atol))
            _emit(ctx, v, _kak=(u, atol), atol=atol, clean_operations=clean, **wit)
            _note_recon(ctx, d, atol)
            ctx.distinct(("syc", _fp(u), atol, clean), nontrivial=_nontrivial(u))
            ctx.sample({"routine": "sycamore", "label": info["label"], "syc_count": n})
        else:
            from vf.workloads import gatepool as GP

            t = GP.pick_exp(rng)
            p = float(rng.uniform(-1, 1)) if rng.random() < 0.6 else float(rng.choice([0.0, 0.25, 0.5, -0.25, 1.0]))
            table = [
                ("CZPow", cirq.CZPowGate(exponent=t).on(q0, q1), G.czpow_doc(t)),
                ("CNotPow", cirq.CNotPowGate(exponent=t).on(q0, q1), G.cxpow_doc(t)),
                ("ZZPow", cirq.ZZPowGate(exponent=t).on(q0, q1), G.eigen_gate("ZZPow", t)),
                ("SWAP", cirq.SWAP(q0, q1), G.SWAP), ("ISWAP", cirq.ISWAP(q0, q1), G.iswappow_doc(1)),
                ("CZ", cirq.CZ(q0, q1), G.czpow_doc(1)),
                ("PhasedISwap(e=1)", cirq.PhasedISwapPowGate(phase_exponent=p, exponent=1.0).on(q0, q1), G.phased_iswap(p, 1.0)),
                ("PhasedISwap(p=.25)", cirq.PhasedISwapPowGate(phase_exponent=0.25, exponent=t).on(q0, q1), G.phased_iswap(0.25, t)),
                ("SWAP.ZZ", cirq.CircuitOperation(cirq.FrozenCircuit(cirq.SWAP(q0, q1), cirq.ZZPowGate(exponent=t).on(q0, q1))),
                 G.eigen_gate("ZZPow", t) @ G.SWAP),
                ("ZZ.SWAP", cirq.CircuitOperation(cirq.FrozenCircuit(cirq.ZZPowGate(exponent=t).on(q0, q1), cirq.SWAP(q0, q1))),
                 G.SWAP @ G.eigen_gate("ZZPow", t)),
                ("FSim", cirq.FSimGate(0.3, 0.2).on(q0, q1), None), ("SQRT_SWAP", (cirq.SWAP ** 0.5).on(q0, q1), None),
                ("PhasedISwap(other)", cirq.PhasedISwapPowGate(phase_exponent=0.1, exponent=0.5).on(q0, q1), None),
            ]
            # whole-number powers and sign flips of the table's gates: whether the table knows them is its own business
            # ("maybe"), but whatever it returns has to rebuild the operation
            t2 = float(rng.choice([-1.0, 1.0, 3.0, -3.0, 2.0, 0.0, -2.0, t]))
            table += [
                ("maybe:SwapPow", cirq.SwapPowGate(exponent=t2).on(q0, q1), G.swappow_doc(t2)),
                ("maybe:ISwapPow", cirq.ISwapPowGate(exponent=t2).on(q0, q1), G.iswappow_doc(t2)),
                ("maybe:CZPow", cirq.CZPowGate(exponent=t2).on(q0, q1), G.czpow_doc(t2)),
                ("maybe:PhasedISwap", cirq.PhasedISwapPowGate(phase_exponent=p, exponent=t2).on(q0, q1), G.phased_iswap(p, t2)),
                ("maybe:ISwapPow", cirq.ISwapPowGate(exponent=t2).on(q1, q0), G.iswappow_doc(t2)),
            ]
            name, op, want = table[(case // 8) % len(table)]
            res = cirq_google.known_2q_op_to_sycamore_operations(op)
            if name.startswith("maybe:") and res is None:
                ctx.event("known_2q_op_to_sycamore:not-in-table:" + name)
                return
            if name.startswith("maybe:"):
                t = t2
            if want is None:
                ctx.check(res is None, "known_2q_op_to_sycamore:none-for-unknown", "C15:known_2q_op_to_sycamore_operations:unknown-op-not-none",
                          "returned %r for %s" % (res, name))
                return
            if res is None:
                ctx.check(False, "known_2q_op_to_sycamore:known-op", "C15:known_2q_op_to_sycamore_operations:none-for-known-op",
                          "None for the documented known gate %s (exponent %r)" % (name, t))
                return
            ctx.ok("known_2q_op_to_sycamore:known-op")
            ops = P.flat_ops(res)
            v, d, n = P.post_sycamore([q0, q1], want, ops, "known_2q_op_to_sycamore_operations", TOL)
            _emit(ctx, v, gate=name, exponent=t, phase_exponent=p)
            ctx.distinct(("known_syc", name, round(t, 9), round(p, 9)), nontrivial=_nontrivial(want))
            ctx.sample({"routine": "known_2q_op_to_sycamore", "gate": name, "exponent": t, "syc_count": n})


# --------------------------------------------------------------------------- section: n-qubit synthesis
def sec_multiq(ctx, rng, case):
    import cirq

    sub = case % 4
    if sub == 0:
        u, label = UW.gen_n_qubit(rng, case // 4, 3)
        qs = _qubits(rng, 3)
        atol = 1e-8
        ops = cirq.three_qubit_matrix_to_operations(qs[0], qs[1], qs[2], u) if rng.random() < 0.5 else \
            cirq.three_qubit_matrix_to_operations(qs[0], qs[1], qs[2], u, atol=atol)
        v, d, n = P.post_three_qubit(qs, u, ops, atol)
        _emit(ctx, v, u=u, label=label)
        _note_recon(ctx, d, atol)
        ctx.event("three_qubit:2q-count=%d" % n)
        ctx.distinct(("3q", _fp(u)), nontrivial=_nontrivial(u))
        ctx.sample({"routine": "three_qubit", "label": label, "two_qubit_gates": n})
    elif sub == 1:
        nmax = 4 if ctx.tier == "thorough" else 3
        n = [1, 2, 3, 3, 2, 3, nmax, nmax][(case // 4) % 8]
        if n == 2:
            u, info = UW.gen_two_qubit(rng, case // 4)
            label = info["label"]
        elif n == 1:
            u, label = UW.gen_one_qubit(rng, case // 4)
        else:
            u, label = UW.gen_n_qubit(rng, case // 4, n)
        qs = _qubits(rng, n)
        try:
            ops = list(cirq.quantum_shannon_decomposition(qs, u))
        except IndexError as e:
            import traceback as _tb

            inner = _tb.extract_tb(e.__traceback__)[-1].name
            mech = "C15:quantum_shannon_decomposition:exception:IndexError@" + inner
            if inner == "_global_phase_difference":
                # known mechanism: the CZ synthesis of a two-qubit block touches fewer than two qubits, so the circuit unitary
                # that _global_phase_difference indexes with a position of the 4x4 block is 2x2 (or 1x1).  For n == 2 this is
                # re-checked from outside; for n > 2 the blocks are internal and the raising frame is the evidence.
                explained = True
                if n == 2:
                    touched = set()
                    for op in cirq.two_qubit_matrix_to_cz_operations(qs[0], qs[1], u, allow_partial_czs=True):
                        touched.update(op.qubits)
                    explained = len(touched) < 2
                if explained:
                    mech = "C15:quantum_shannon_decomposition:IndexError-when-2q-block-synthesis-touches-one-qubit"
            _emit(ctx, [("quantum_shannon_decomposition:rebuild-exact", mech, False,
                         "IndexError: %s on a valid %d-qubit unitary (%s)" % (e, n, label))], u=u, label=label, n=n, qubits=[repr(q) for q in qs])
            return
        stol = TOL * (4 ** max(0, n - 3))
        v, d, n2 = P.post_shannon(qs, u, ops, 1e-8, stol)
        if d > stol and n >= 2 and sorted(qs[-2:]) != list(qs[-2:]):
            # explained-by: _global_phase_difference reads Circuit.unitary() in *sorted* qubit order; when the two least
            # significant qubits are given in sorted order the same matrix is rebuilt exactly, and here only the phase is off
            fresh = list(cirq.LineQubit.range(n))
            v2, d2, _ = P.post_shannon(fresh, u, list(cirq.quantum_shannon_decomposition(fresh, u)), 1e-8, stol)
            if d2 <= stol and L.phase_diff(P.lower(ops, qs), u) <= stol:
                v = [(mon, mech if ok else "C15:quantum_shannon_decomposition:global-phase-lost-when-low-qubits-unsorted", ok, msg)
                     for mon, mech, ok, msg in v]
        _emit(ctx, v, u=u, label=label, n=n, qubits=[repr(q) for q in qs])
        ctx.event("shannon:n=%d" % n)
        ctx.distinct(("shannon", n, _fp(u)), nontrivial=_nontrivial(u))
        ctx.sample({"routine": "shannon", "n": n, "label": label, "two_qubit_gates": n2})
    elif sub == 2:
        mmax = 6 if ctx.tier == "thorough" else 5
        m = (case // 4) % (mmax + 1)
        fchoices = [0, 1, 2, max(0, m - 2), max(0, m - 1)]
        f = fchoices[(case // (4 * (mmax + 1))) % len(fchoices)]
        if m + 1 + f > (11 if ctx.tier == "thorough" else 9):
            f = max(0, (9 if ctx.tier != "thorough" else 11) - m - 1)
        qs = _qubits(rng, m + 1 + f)
        controls, target, free = qs[:m], qs[m], qs[m + 1:]
        ops = cirq.decompose_multi_controlled_x(controls, target, free)
        v, d = P.post_multi_controlled(qs, m, ops, W.X, "decompose_multi_controlled_x")
        _emit(ctx, v, controls=m, free=f)
        ctx.distinct(("mcx", m, f, tuple(repr(q) for q in qs)), nontrivial=True)
        ctx.sample({"routine": "mcx", "controls": m, "free": f, "ops": len(ops)})
    else:
        mmax = 6 if ctx.tier == "thorough" else 5
        m = (case // 4) % (mmax + 1)
        u, label = UW.gen_one_qubit(rng, case // 4)
        style = int(rng.integers(3))
        if style == 0:
            u = u / np.sqrt(complex(np.linalg.det(u)))  # special unitary: the O(n) branch
            label += ":su2"
        elif style == 1 and rng.random() < 0.5:
            u = np.real_if_close(u)
        qs = _qubits(rng, m + 1)
        ops = cirq.decompose_multi_controlled_rotation(u, qs[:m], qs[m])
        # _decompose_single_ctrl drops gates that np.allclose (rtol 1e-5, atol 1e-8) calls the identity: up to ~1e-5 per dropped gate
        v, d = P.post_multi_controlled(qs, m, ops, u, "decompose_multi_controlled_rotation", tol=1e-4)
        if d > TOL:
            ctx.event("mc_rotation:error>1e-6(no-op-gates-dropped)")
        _emit(ctx, v, controls=m, matrix=u, label=label)
        ctx.distinct(("mcr", m, _fp(u)), nontrivial=_nontrivial(u))
        ctx.sample({"routine": "mc_rotation", "controls": m, "label": label, "ops": len(ops)})


# --------------------------------------------------------------------------- section: state preparation, Clifford, Pauli strings
_CLIFF = None


def _clifford_pool():
    import cirq

    global _CLIFF
    if _CLIFF is None:
        sdg = W.S.conj().T
        _CLIFF = [
            (cirq.H, W.H, 1), (cirq.S, W.S, 1), (cirq.S ** -1, sdg, 1), (cirq.X, W.X, 1), (cirq.Y, W.Y, 1), (cirq.Z, W.Z, 1),
            (cirq.X ** 0.5, G.xpow_doc(0.5), 1), (cirq.Y ** -0.5, G.ypow_doc(-0.5), 1),
            (cirq.CNOT, W.named_gate("CNOT"), 2), (cirq.CZ, W.named_gate("CZ"), 2), (cirq.SWAP, W.named_gate("SWAP"), 2),
            (cirq.ISWAP, W.named_gate("ISWAP"), 2),
        ]
    return _CLIFF


def sec_misc(ctx, rng, case):
    import cirq

    sub = case % 3
    if sub == 0:  # two-qubit state preparation
        psi, s1 = UW.gen_state(rng, case // 3)
        q0, q1 = _qubits(rng, 2)
        tol = 1e-5  # the routines go through a complex64 intermediate state (DESIGN 4.1: 2e-5 sqrt(dim) for c64)
        which = (case // 3) % 5
        default_flag = rng.random() < 0.5
        if which == 0:
            who, want = "prepare_two_qubit_state_using_cz", cirq.CZ
            run = lambda a, b: cirq.prepare_two_qubit_state_using_cz(a, b, psi)  # noqa: E731
        elif which in (1, 2):
            inv = which == 2
            who, want = "prepare_two_qubit_state_using_iswap", (cirq.ISWAP_INV if inv else cirq.ISWAP)
            if inv or default_flag:
                run = lambda a, b: cirq.prepare_two_qubit_state_using_iswap(a, b, psi, use_iswap_inv=inv)  # noqa: E731
            else:
                run = lambda a, b: cirq.prepare_two_qubit_state_using_iswap(a, b, psi)  # noqa: E731
        else:
            inv = which == 3  # NB the documented default of use_sqrt_iswap_inv is True
            who, want = "prepare_two_qubit_state_using_sqrt_iswap", (cirq.SQRT_ISWAP_INV if inv else cirq.SQRT_ISWAP)
            if not inv or default_flag:
                run = lambda a, b: cirq.prepare_two_qubit_state_using_sqrt_iswap(a, b, psi, use_sqrt_iswap_inv=inv)  # noqa: E731
            else:
                run = lambda a, b: cirq.prepare_two_qubit_state_using_sqrt_iswap(a, b, psi)  # noqa: E731
        ops = run(q0, q1)
        v, d, n = P.post_state_prep(q0, q1, psi, ops, lambda g: g == want, who, tol, s1)
        if d > tol and n == 0 and 0 < s1 and (1 - math.sqrt(max(0.0, 1 - s1 * s1))) <= 1.2e-5 and d <= 2.5 * s1:
            # explained-by: np.isclose(s[0], 1) (rtol 1e-5) declares states with a Schmidt coefficient up to 4.5e-3 product states;
            # the error is then the dropped Schmidt term
            v = [(mon, mech if ok else "C15:prepare_two_qubit_state:near-product-state-prepared-as-product", ok, msg)
                 for mon, mech, ok, msg in v]
        elif any(not ok for _, _, ok, _ in v) and sorted([q0, q1]) != [q0, q1]:
            # explained-by: the routines simulate their own partial circuit with Circuit.final_state_vector() in *sorted*
            # qubit order; with q0 < q1 the same state is prepared correctly.  Only then use the known mechanism key.
            a, b = cirq.LineQubit(0), cirq.LineQubit(1)
            v2, _, _ = P.post_state_prep(a, b, psi, run(a, b), lambda g: g == want, who, tol, s1)
            if all(ok for _, _, ok, _ in v2):
                v = [(mon, mech if ok else "C15:prepare_two_qubit_state:wrong-state-when-q0-sorts-after-q1", ok, msg)
                     for mon, mech, ok, msg in v]
        _emit(ctx, v, state=psi, schmidt_small=s1, which=which, qubits=[repr(q0), repr(q1)])
        ctx.distinct(("prep", which, _fp(psi)), nontrivial=s1 > 1e-6)
        ctx.sample({"routine": "state_prep", "which": which, "schmidt_small": s1, "entanglers": n})
    elif sub == 1:  # Clifford tableau synthesis
        n = 1 + (case // 3) % 4
        qs = _qubits(rng, n)
        pool = [g for g in _clifford_pool() if g[2] <= n]
        depth = int(rng.integers(0, 4 * n + 2))
        ops, ref = [], np.eye(2 ** n, dtype=complex)
        for _ in range(depth):
            gate, mat, k = pool[int(rng.integers(len(pool)))]
            wires = [int(w) for w in rng.choice(n, size=k, replace=False)]
            ops.append(gate.on(*[qs[w] for w in wires]))
            ref = L.embed(mat, wires, [2] * n) @ ref
        tab = cirq.CliffordGate.from_op_list(ops, qs).clifford_tableau
        out = cirq.decompose_clifford_tableau_to_operations(qs, tab)
        m = P.lower(out, qs)
        d = L.phase_diff(m, ref)
        ctx.check(d <= 1e-7, "clifford_tableau:rebuild", "C15:decompose_clifford_tableau_to_operations:rebuild",
                  "operations rebuilt from the tableau differ from the generating Clifford by %.3g up to phase" % d,
                  circuit=[repr(o) for o in ops], out=[repr(o) for o in out])
        ctx.check(P.arities_ok(out, (1, 2)), "clifford_tableau:arity", "C15:decompose_clifford_tableau_to_operations:arity", "")
        ctx.distinct(("clifford", n, _fp(ref, 3)), nontrivial=_nontrivial(ref))
        ctx.sample({"routine": "clifford", "n": n, "depth": depth, "ops_out": len(out)})
    else:  # unitary_to_pauli_string
        from cirq.transformers import unitary_to_pauli_string

        n = 1 + (case // 3) % 4
        letters = "".join("IXYZ"[int(i)] for i in rng.integers(4, size=n))
        coef = [1, -1, 1j, -1j][int(rng.integers(4))] if rng.random() < 0.6 else complex(np.exp(1j * rng.uniform(-math.pi, math.pi)))
        exact = not isinstance(coef, complex) or coef in (1j, -1j)
        U = G.pauli_string_matrix(letters, coef)
        kind = (case // 12) % 4
        eps = 1e-15
        if kind == 1:
            eps = 1e-8
        elif kind == 2:  # not a Pauli string
            U = L.haar_unitary(rng, 2 ** n) if rng.random() < 0.5 else L.kron(*([W.H] + [W.I2] * (n - 1))) * coef
        elif kind == 3:  # a Pauli string plus a perturbation of 1e-6
            h = L.haar_unitary(rng, 2 ** n)
            U = U @ L.expm_herm(h @ np.diag(np.arange(2 ** n)) @ h.conj().T, 1e-6j)
            eps = [1e-15, 1e-8, 1e-3][int(rng.integers(3))]
        res = unitary_to_pauli_string(U, eps) if eps != 1e-15 or rng.random() < 0.5 else unitary_to_pauli_string(U)
        if res is not None:
            mask = [int(t) for t in res.pauli_mask]
            rebuilt = G.pauli_string_matrix("".join("IXYZ"[t] for t in mask), complex(res.coefficient))
            d = L.maxdiff(rebuilt, U)
            ctx.check(d <= max(10 * eps, 1e-12), "unitary_to_pauli_string:sound", "C15:unitary_to_pauli_string:wrong-string",
                      "returned %r but it differs from U by %.3g (eps %.1g)" % (res, d, eps), letters=letters, coef=coef, kind=kind)
        else:
            ctx.ok("unitary_to_pauli_string:none")
        if kind == 1 or (kind == 0 and exact):
            ctx.check(res is not None, "unitary_to_pauli_string:finds-exact-string", "C15:unitary_to_pauli_string:misses-pauli-string",
                      "None for %r * %s with eps %.1g" % (coef, letters, eps), letters=letters, coef=coef)
        if kind == 2 and n >= 1:
            ctx.check(res is None or L.maxdiff(G.pauli_string_matrix("".join("IXYZ"[int(t)] for t in res.pauli_mask), complex(res.coefficient)), U) < 1e-9,
                      "unitary_to_pauli_string:none-for-non-pauli", "C15:unitary_to_pauli_string:string-for-non-pauli", repr(res))
        ctx.distinct(("pauli", letters, complex(coef), kind), nontrivial=set(letters) != {"I"})
        ctx.sample({"routine": "pauli_string", "letters": letters, "kind": kind, "found": res is not None})


K_PARAM_SQISW = "C15:parameterized_2q_op_to_sqrt_iswap_operations:complex-angle-at-odd-integer-exponent"


def sec_param_sqrt_iswap(ctx, rng, case):
    """parameterized_2q_op_to_sqrt_iswap_operations: the symbolic decomposition, resolved at any value, rebuilds the gate"""
    import cirq
    import sympy

    fam = ["CZPow", "SwapPow", "ISwapPow", "FSim"][case % 4]
    t, s_ = sympy.Symbol("t"), sympy.Symbol("s")
    q0, q1 = _qubits(rng, 2)
    inv = bool(rng.integers(2))
    special = [0.0, 1.0, -1.0, 2.0, 3.0, 0.5, -0.5, 0.25, 1.5, 4.0]
    val = float(special[int(rng.integers(len(special)))]) if rng.random() < 0.6 else float(rng.uniform(-3, 3))
    val2 = float(rng.uniform(-math.pi, math.pi)) if rng.random() < 0.6 else float([0.0, math.pi / 2, math.pi, -math.pi / 2][int(rng.integers(4))])
    if fam == "FSim":
        sym_gate = cirq.FSimGate(theta=t, phi=s_)
        want = G.fsim(val, val2)
    else:
        cls = {"CZPow": cirq.CZPowGate, "SwapPow": cirq.SwapPowGate, "ISwapPow": cirq.ISwapPowGate}[fam]
        sym_gate = cls(exponent=t)
        want = {"CZPow": G.czpow_doc, "SwapPow": G.swappow_doc, "ISwapPow": G.iswappow_doc}[fam](val)
    wit = dict(family=fam, t=val, s=val2 if fam == "FSim" else None, use_sqrt_iswap_inv=inv, qubits=[repr(q0), repr(q1)])
    ops = cirq.parameterized_2q_op_to_sqrt_iswap_operations(sym_gate.on(q0, q1), use_sqrt_iswap_inv=inv)
    ops = list(cirq.flatten_to_ops(ops))
    two = [o for o in ops if len(o.qubits) == 2]
    target = cirq.SQRT_ISWAP_INV if inv else cirq.SQRT_ISWAP
    ctx.check(all(o.gate == target for o in two), "param_sqrt_iswap:target-gates-only", "C15:parameterized_2q_op_to_sqrt_iswap_operations:foreign-two-qubit-gate",
              "two-qubit gates %r" % sorted({str(o.gate) for o in two}), **wit)
    try:
        resolved = [cirq.resolve_parameters(o, {"t": val, "s": val2}) for o in ops]
        u = P.lower(resolved, [q0, q1])
    except ValueError as e:
        if "Complex exponent" not in str(e):
            raise
        # every family reaches _cphase_symbols_to_sqrt_iswap (SWAP**t through CZ**-t, FSim through CZ**(-phi/pi)); the angle that
        # makes sqrt(2)*sin(theta'/4) round above 1 is theta = pi, i.e. an odd number of CZ half turns
        turns = val if fam in ("CZPow", "SwapPow") else (-val2 / math.pi if fam == "FSim" else None)
        odd = turns is not None and abs(turns - round(turns)) < 1e-9 and int(round(turns)) % 2 == 1
        ctx.check(False, "param_sqrt_iswap:rebuild", K_PARAM_SQISW if odd else "C15:parameterized_2q_op_to_sqrt_iswap_operations:complex-angle",
                  "resolving the decomposition at t=%r raises %s" % (val, str(e)[:120]), **wit)
        return
    d = L.phase_diff(u, want)
    ctx.check(d <= 1e-6, "param_sqrt_iswap:rebuild", "C15:parameterized_2q_op_to_sqrt_iswap_operations:wrong-unitary",
              lambda: "resolved decomposition differs from the gate by %.3g up to phase" % d, **wit)
    ctx.distinct(("param_sqrt_iswap", fam, round(val, 9), round(val2, 9) if fam == "FSim" else None, inv), nontrivial=not L.phase_equal(want, np.eye(4), 1e-6))


SECTIONS = [
    ("kak", sec_kak, 7000, 85000, 12.0),
    ("linalg", sec_linalg, 14000, 170000, 3.0),
    ("oneq", sec_oneq, 14000, 170000, 2.0),
    ("cz", sec_cz, 6000, 68000, 9.0),
    ("sqrt_iswap", sec_sqrt_iswap, 5000, 60000, 6.0),
    ("other2q", sec_other2q, 6000, 68000, 8.0),
    ("multiq", sec_multiq, 2400, 17000, 14.0),
    ("misc", sec_misc, 10000, 120000, 3.0),
    ("param_sqrt_iswap", sec_param_sqrt_iswap, 800, 10000, 1.5),
]
