"""C04 - all descriptions of one operation agree (protocol coherence).

For one generated value (gate/operation, optionally wrapped) every way of
obtaining its linear map is observed - unitary, apply_unitary on caller-built
tensors, decompose, kraus/mixture/superoperator, apply_channel, act_on for the
state-vector and density-matrix states - and each is compared with the single
expected matrix derived from the catalogue by the reference model."""
from __future__ import annotations

import numpy as np

from vf.refmodel import gates as G
from vf.refmodel import interp as I
from vf.refmodel import linalg as L
from vf.workloads import gatepool as GP
from vf.workloads import programs as P

LEVEL = "exploration"
RULE = ("values = catalogue gate x parameters x 0-2 wrappers (tags, qubit permutation, controls incl. qudit/sum-of-products, "
        "inverse, ParallelGate, CircuitOperation) ; each value is observed through up to 12 descriptions on random tensor "
        "layouts (non-adjacent/permuted axes, C/F order, c64/c128, NaN-filled buffers); non-trivial = expected matrix not "
        "identity; distinct by (family, params, wrappers)")
ASSUMPTIONS = ["catalogue matrices are ground truth", "decompositions of MatrixGate-like values are compared up to global phase, all others exactly",
               "tolerance 1e-6 (complex128) / 2e-4 (complex64 tensors)"]
MIN_EVAL = {"unitary": 500, "apply_unitary": 1500, "decompose": 300, "apply_channel": 300, "act_on": 500, "moment-values": 200}
MUST_REACH = [
    "cirq/protocols/apply_unitary_protocol.py:_strat_apply_unitary_from_apply_unitary",
    "cirq/protocols/apply_unitary_protocol.py:_strat_apply_unitary_from_unitary",
    "cirq/protocols/apply_unitary_protocol.py:_strat_apply_unitary_from_decompose",
    "cirq/protocols/apply_unitary_protocol.py:_apply_unitary_from_matrix",
    "cirq/protocols/apply_unitary_protocol.py:_incorporate_result_into_target",
    "cirq/ops/controlled_operation.py:ControlledOperation._apply_unitary_",
    "cirq/ops/controlled_gate.py:ControlledGate._decompose_with_context_",
    "cirq/protocols/apply_channel_protocol.py:apply_channel",
]

KNOWN_HAS_KRAUS = "C04:has-kraus-via-decomposition-only"
_S = {}


def setup(ctx):
    _S["u"] = GP.build_specs()
    _S["c"] = GP.build_channel_specs()


def _wrap(rng, cirq, op, E, qids, shape, desc):
    """apply one wrapper; returns (op, expected matrix over op.qubits order, qids, shape, phase_insensitive_decompose)"""
    kind = int(rng.integers(7))
    n = len(qids)
    if kind == 0:
        desc.append("tags")
        return op.with_tags("t%d" % int(rng.integers(3))), E, qids, shape
    if kind == 1 and n >= 2:
        perm = [int(x) for x in rng.permutation(n)]
        if any(shape[perm[i]] != shape[i] for i in range(n)):
            return op, E, qids, shape
        new_q = [qids[p] for p in perm]  # position i of the gate now acts on qids[perm[i]]
        desc.append("with_qubits%s" % perm)
        return op.with_qubits(*new_q), E, new_q, shape
    if kind == 2:
        desc.append("inverse")
        inv = cirq.inverse(op, None)
        if inv is None:
            desc.pop()
            return op, E, qids, shape
        return inv, E.conj().T, qids, shape
    if kind == 3 and L.dim_of(shape) <= 16:
        k = int(rng.integers(1, 3))
        cdims = [int(rng.choice([2, 2, 3])) for _ in range(k)]
        if rng.random() < 0.25:
            # one larger qudit control: value sets with three or more, unevenly spaced members only exist from d = 4
            cdims = [int(rng.choice([4, 5, 6]))] + cdims[1:] if L.dim_of(shape) <= 4 else [int(rng.choice([4, 5]))]
        base = 100 + 10 * len(desc)
        cq = [cirq.LineQid(base + i, dimension=d) for i, d in enumerate(cdims)]
        mode = int(rng.integers(3))
        if mode == 0:  # plain product of single values
            cv = [int(rng.integers(d)) for d in cdims]
            allowed = [tuple(cv)]
            cvarg = cv
        elif mode == 1:  # product of sums
            cvarg = []
            for d in cdims:
                s = sorted({int(x) for x in rng.integers(0, d, size=int(rng.integers(1, d + 1)))})
                cvarg.append(tuple(s))
            import itertools
            allowed = list(itertools.product(*cvarg))
        else:  # sum of products
            import itertools
            allp = list(itertools.product(*[range(d) for d in cdims]))
            sel = [allp[int(i)] for i in rng.choice(len(allp), size=int(rng.integers(1, min(3, len(allp)) + 1)), replace=False)]
            allowed = sel
            cvarg = cirq.SumOfProducts(sorted(set(sel)))
        desc.append("controlled_by(dims=%s, values=%s)" % (cdims, allowed))
        new = op.controlled_by(*cq, control_values=cvarg)
        return new, L.controlled(E, cdims, allowed), cq + list(qids), tuple(cdims) + tuple(shape)
    if kind == 4:
        # a CircuitOperation reports its qubits in sorted order: predict the matrix on that order
        order = sorted(range(n), key=lambda i: qids[i])
        reps = 1
        if rng.random() < 0.5:
            # repeated / inverted sub-circuit: the body's matrix to that integer power
            reps = int([2, 3, 0, -1, -2, -3][int(rng.integers(6))])
            if reps < 0 and cirq.inverse(op, None) is None:
                reps = -reps
        desc.append("CircuitOperation" if reps == 1 else "CircuitOperation(repetitions=%d)" % reps)
        Er = np.linalg.matrix_power(np.asarray(E, dtype=complex).conj().T if reps < 0 else np.asarray(E, dtype=complex), abs(reps))
        kw = {} if reps == 1 else {"repetitions": reps}
        return (cirq.CircuitOperation(cirq.FrozenCircuit(op), **kw), L.permute_wires(Er, order, shape),
                [qids[i] for i in order], tuple(shape[i] for i in order))
    if kind == 5 and n >= 1:
        # transform_qubits to fresh qids of the same dimension
        m = {q: cirq.LineQid(500 + 7 * i + len(desc), dimension=q.dimension) for i, q in enumerate(qids)}
        desc.append("transform_qubits")
        return op.transform_qubits(m), E, [m[q] for q in qids], shape
    return op, E, qids, shape


def _layout(rng, shape, dtype, extra_max=2):
    """random larger tensor: returns (tensor, axes of the op, full dims)"""
    n = len(shape)
    ne = int(rng.integers(0, extra_max + 1))
    total = n + ne
    pos = [int(x) for x in rng.choice(total, size=n, replace=False)]  # axis of op-qubit i
    dims = [0] * total
    for i, a in enumerate(pos):
        dims[a] = shape[i]
    for a in range(total):
        if dims[a] == 0:
            dims[a] = int(rng.choice([2, 2, 3]))
    size = L.dim_of(dims)
    data = (rng.standard_normal(size) + 1j * rng.standard_normal(size)).astype(dtype)
    form = int(rng.integers(3))
    if form == 0:
        t = data.reshape(dims)
    elif form == 1:
        t = np.asfortranarray(data.reshape(dims))
    else:  # non-contiguous view: build transposed storage
        if total == 0:
            return data.reshape(dims), pos, dims
        perm = [int(x) for x in rng.permutation(total)]
        inv = [int(x) for x in np.argsort(perm)]
        base = np.ascontiguousarray(np.transpose(data.reshape(dims), perm))
        t = np.transpose(base, inv)
    return t, pos, dims


def _tol(dtype):
    return 2e-4 if dtype == np.complex64 else 1e-6


def sec_unitary_values(ctx, rng, case):
    import cirq

    specs = _S["u"]
    spec = specs[case % len(specs)]
    p = spec.sample(rng)
    gate = spec.make(p)
    shape = spec.shape
    qids = [cirq.LineQid(i, dimension=d) for i, d in enumerate(shape)]
    E = np.asarray(spec.ref(p), dtype=complex)
    desc = []
    phase_ok = "matrix" in spec.tags
    if spec.shape == (2,) and rng.random() < 0.15:
        k = int(rng.integers(1, 4))
        gate = cirq.ParallelGate(gate, k)
        shape = (2,) * k
        qids = [cirq.LineQid(i, dimension=2) for i in range(k)]
        E = L.kron(*[E] * k)
        desc.append("ParallelGate(%d)" % k)
    op = gate.on(*qids)
    for _ in range(int(rng.choice([0, 0, 1, 1, 2]))):
        op, E, qids, shape = _wrap(rng, cirq, op, E, qids, shape, desc)
    wit = dict(family=spec.name, params=p, wrappers=desc, op=repr(op)[:300])
    D = L.dim_of(shape)
    name = spec.name
    # the op's own qubit order must be what the wrappers predicted
    ctx.check(list(op.qubits) == list(qids), "wrapper-qubits", "C04:wrapper-qubits:" + name, "op.qubits %r != %r" % (op.qubits, qids), **wit)
    if list(op.qubits) != list(qids):
        return

    # 1. unitary
    u = cirq.unitary(op, None)
    ctx.check(u is not None and L.allclose(u, E, 1e-7), "unitary", "C04:unitary:" + name,
              lambda: "cirq.unitary deviates by %s" % (L.maxdiff(u, E) if u is not None else "None"), **wit)
    ctx.check(cirq.has_unitary(op) is True, "has_X-consistent", "C04:has-unitary:" + name, "has_unitary False for a unitary value", **wit)
    ctx.check(tuple(cirq.qid_shape(op)) == tuple(shape), "qid_shape", "C04:qid-shape:" + name, "", **wit)

    # 2. apply_unitary on caller-built tensors
    for _ in range(3):
        dtype = [np.complex64, np.complex128][int(rng.integers(2))]
        t, axes, dims = _layout(rng, shape, dtype)
        orig = np.array(t, dtype=complex)
        buf = np.full(t.shape, np.nan, dtype=dtype, order=("C" if rng.random() < 0.7 else "F"))
        args = cirq.ApplyUnitaryArgs(target_tensor=t, available_buffer=buf, axes=axes)
        out = cirq.apply_unitary(op, args, None)
        want = L.apply_on_axes(orig, E, axes, list(shape))
        ok = out is not None and L.allclose(out, want, _tol(dtype) * max(1.0, np.abs(orig).max()))
        ctx.check(ok, "apply_unitary", "C04:apply-unitary:" + name,
                  lambda: "apply_unitary on axes %s of a %s tensor deviates by %s" % (axes, dims, L.maxdiff(out, want) if out is not None else None),
                  axes=axes, dims=dims, dtype=dtype.__name__, **wit)
    # matrix-shaped target (how unitaries are computed): left axes of an identity tensor
    if D <= 32:
        eye = np.eye(D, dtype=np.complex128).reshape(tuple(shape) * 2)
        args = cirq.ApplyUnitaryArgs(target_tensor=eye, available_buffer=np.full_like(eye, np.nan), axes=list(range(len(shape))))
        out = cirq.apply_unitary(op, args, None)
        ok = out is not None and L.allclose(np.asarray(out).reshape(D, D), E, 1e-7)
        ctx.check(ok, "apply_unitary", "C04:apply-unitary-matrix-target:" + name, "", **wit)

    # 3. decomposition (once and full) product
    for full in (False, True):
        dec = cirq.decompose(op) if full else cirq.decompose_once(op, None)
        if dec is None:
            ctx.event("no-decomposition")
            continue
        if full and len(dec) == 1 and dec[0] == op:
            continue
        anc = [q for o in dec for q in o.qubits if q not in qids]
        if anc:
            ctx.event("decomposition-with-ancilla")
            continue
        pos = {q: i for i, q in enumerate(qids)}
        M = np.eye(D, dtype=complex)
        bad = None
        for o in dec:
            uo = cirq.unitary(o, None)
            if uo is None:
                bad = o
                break
            M = L.embed(uo, [pos[q] for q in o.qubits], shape) @ M
        if bad is not None:
            ctx.check(False, "decompose", "C04:decompose-nonunitary-part:" + name, "decomposition of a unitary value contains %r" % (bad,), **wit)
            continue
        insensitive = phase_ok or "CircuitOperation" in desc and False
        # values given as bare matrices are decomposed by numerical synthesis (KAK / three-qubit cosine-sine), whose
        # reconstruction error at the default atol is the one C15 allows those routines (1e-5), not rounding size
        dtol = 1e-5 if ("matrix" in spec.tags or "custom" in spec.tags) and len(spec.shape) >= 2 else 1e-6
        if any(w_.startswith("controlled_by") for w_ in desc):
            # controlled values decompose through the multi-controlled-rotation synthesis, which leaves out factors that
            # np.allclose takes for the identity (up to ~1e-5 each; C15 allows that routine 1e-4)
            dtol = max(dtol, 1e-4)
        if insensitive:
            ok = L.phase_equal(M, E, dtol)
        else:
            ok = L.allclose(M, E, dtol)
        mech = "C04:decompose%s:%s" % ("-full" if full else "-once", name)
        if not ok and L.phase_equal(M, E, dtol):
            mech = "C04:decompose-global-phase:" + name
        ctx.check(ok, "decompose", mech, lambda: "product of the decomposition deviates by %.3g (%.3g up to phase)" % (L.maxdiff(M, E), L.phase_diff(M, E)),
                  parts=[repr(o)[:80] for o in dec][:10], **wit)

    # 4. kraus / mixture / superoperator
    ks = cirq.kraus(op, None)
    ctx.check(ks is not None and len(ks) == 1 and L.allclose(ks[0], E, 1e-7), "kraus", "C04:kraus-of-unitary:" + name, "", **wit)
    mx = cirq.mixture(op, None)
    ctx.check(mx is not None and len(mx) == 1 and abs(mx[0][0] - 1) < 1e-9 and L.allclose(mx[0][1], E, 1e-7), "mixture", "C04:mixture-of-unitary:" + name, "", **wit)
    ctx.check(cirq.has_kraus(op) and cirq.has_mixture(op) and not cirq.is_measurement(op), "has_X-consistent", "C04:has-x:" + name, "", **wit)
    if D <= 8:
        so = cirq.operation_to_superoperator(op)
        ctx.check(L.allclose(so, L.superop([E]), 1e-7), "superoperator", "C04:superoperator:" + name, "", **wit)

    # 5. apply_channel on a random density tensor with separate left/right axes
    if D <= 16:
        dtype = [np.complex64, np.complex128][int(rng.integers(2))]
        n = len(shape)
        rho = L.random_rho(rng, D)
        t = rho.astype(dtype).reshape(tuple(shape) * 2)
        orig = t.copy()
        args = cirq.ApplyChannelArgs(target_tensor=t, out_buffer=np.full_like(t, np.nan), auxiliary_buffer0=np.full_like(t, np.nan),
                                     auxiliary_buffer1=np.full_like(t, np.nan), left_axes=list(range(n)), right_axes=list(range(n, 2 * n)))
        out = cirq.apply_channel(op, args, None)
        want = E @ rho @ E.conj().T
        ok = out is not None and L.allclose(np.asarray(out).reshape(D, D), want, _tol(dtype))
        ctx.check(ok, "apply_channel", "C04:apply-channel-unitary:" + name, "", **wit)

    # 6. act_on simulation states
    if 1 < D <= 32:
        psi = L.random_state(rng, D)
        st = cirq.StateVectorSimulationState(qubits=qids, initial_state=psi.astype(np.complex128), dtype=np.complex128)
        cirq.act_on(op, st)
        got = st.target_tensor.reshape(-1)
        ctx.check(L.allclose(got, E @ psi, 1e-6), "act_on", "C04:act-on-state-vector:" + name,
                  lambda: "act_on(StateVectorSimulationState) deviates by %.3g" % L.maxdiff(got, E @ psi), **wit)
    if 1 < D <= 8:
        rho = L.random_rho(rng, D)
        st = cirq.DensityMatrixSimulationState(qubits=qids, initial_state=rho.astype(np.complex128), dtype=np.complex128)
        cirq.act_on(op, st)
        got = st.target_tensor.reshape(D, D)
        ctx.check(L.allclose(got, E @ rho @ E.conj().T, 1e-6), "act_on", "C04:act-on-density-matrix:" + name, "", **wit)
    ctx.distinct((spec.name, repr(p)[:200], tuple(desc)), nontrivial=not L.allclose(E, np.eye(D), 1e-6))
    ctx.sample({"family": spec.name, "wrappers": desc, "op": repr(op)[:160]})


def sec_channels(ctx, rng, case):
    """non-unitary values: kraus / mixture / superoperator / apply_channel / act_on(density) agree with the catalogue Kraus set"""
    import cirq

    specs = _S["c"]
    spec = specs[case % len(specs)]
    p = spec.sample(rng)
    try:
        gate = spec.make(p)
    except ValueError:
        ctx.reject("channel-constructor")
        return
    shape = spec.shape
    ks_ref = spec.ref(p)
    n = len(shape)
    D = L.dim_of(shape)
    qids = [cirq.LineQid(i, dimension=d) for i, d in enumerate(shape)]
    op = gate.on(*qids)
    desc = []
    if rng.random() < 0.3:
        op = op.with_tags("x")
        desc.append("tags")
    mixture_like = all(L.allclose(k.conj().T @ k, (np.trace(k.conj().T @ k).real / D) * np.eye(D), 1e-9) for k in ks_ref)
    if rng.random() < 0.25 and D <= 4 and mixture_like:
        # Controlling a probabilistic mixture of unitaries controls each unitary (ControlledOperation._mixture_).
        cq = cirq.LineQid(50, dimension=2)
        try:
            op = op.controlled_by(cq)
        except ValueError as e:
            if "Cannot control channel with non-unitary operators" in str(e):
                ctx.reject("control-of-non-mixture-channel")
                return
            raise
        qids = [cq] + qids
        shape = (2,) + tuple(shape)
        P0 = np.diag([1, 0]).astype(complex)
        P1 = np.diag([0, 1]).astype(complex)
        ks_ref = [np.kron(P0, np.sqrt(np.trace(k.conj().T @ k).real / D) * np.eye(D)) + np.kron(P1, k) for k in ks_ref]
        D *= 2
        n += 1
        desc.append("controlled_by")
    wit = dict(family=spec.name, params=p, wrappers=desc)
    want_choi = L.choi(ks_ref)
    name = spec.name
    ks = cirq.kraus(op, None)
    ok = ks is not None and L.allclose(L.choi(ks), want_choi, 1e-7)
    ctx.check(ok, "kraus", "C04:kraus:" + name, "", **wit)
    ctx.check(cirq.has_kraus(op) == (ks is not None), "has_X-consistent", "C04:has-kraus:" + name, "", **wit)
    mx = cirq.mixture(op, None)
    ctx.check(cirq.has_mixture(op) == (mx is not None), "has_X-consistent", "C04:has-mixture:" + name, "", **wit)
    u = cirq.unitary(op, None)
    ctx.check(cirq.has_unitary(op) == (u is not None), "has_X-consistent", "C04:has-unitary-channel:" + name, "", **wit)
    if mx is not None:
        mk = [np.sqrt(max(float(q), 0)) * np.asarray(m) for q, m in mx]
        ctx.check(L.allclose(L.choi(mk), want_choi, 1e-7), "mixture", "C04:mixture:" + name, "", **wit)
    if D <= 8 and ks is not None:
        so = cirq.operation_to_superoperator(op)
        ctx.check(L.allclose(so, L.superop(ks_ref), 1e-7), "superoperator", "C04:superoperator-channel:" + name, "", **wit)
    # apply_channel with permuted left/right axes inside a larger density tensor
    dtype = [np.complex64, np.complex128][int(rng.integers(2))]
    extra = int(rng.integers(0, 2))
    tot = n + extra
    pos = [int(x) for x in rng.choice(tot, size=n, replace=False)]
    dims = [0] * tot
    for i, a in enumerate(pos):
        dims[a] = shape[i]
    for a in range(tot):
        if dims[a] == 0:
            dims[a] = 2
    Dt = L.dim_of(dims)
    rho = L.random_rho(rng, Dt)
    t = rho.astype(dtype).reshape(dims + dims)
    args = cirq.ApplyChannelArgs(target_tensor=t, out_buffer=np.full_like(t, np.nan), auxiliary_buffer0=np.full_like(t, np.nan),
                                 auxiliary_buffer1=np.full_like(t, np.nan), left_axes=pos, right_axes=[tot + a for a in pos])
    out = cirq.apply_channel(op, args, None)
    want = L.apply_to_rho(rho, ks_ref, pos, dims)
    ok = out is not None and L.allclose(np.asarray(out).reshape(Dt, Dt), want, _tol(dtype))
    ctx.check(ok, "apply_channel", "C04:apply-channel:" + name,
              lambda: "apply_channel on axes %s deviates by %s" % (pos, L.maxdiff(np.asarray(out).reshape(Dt, Dt), want) if out is not None else None), axes=pos, dims=dims, **wit)
    if D <= 8:
        rho2 = L.random_rho(rng, D)
        st = cirq.DensityMatrixSimulationState(qubits=qids, initial_state=rho2.astype(np.complex128), dtype=np.complex128)
        cirq.act_on(op, st)
        got = st.target_tensor.reshape(D, D)
        want2 = L.apply_to_rho(rho2, ks_ref, list(range(n)), shape)
        ctx.check(L.allclose(got, want2, 1e-6), "act_on", "C04:act-on-density-matrix-channel:" + name, "", **wit)
    ident = L.choi([np.eye(D)])
    ctx.distinct((spec.name, repr(p), tuple(desc)), nontrivial=not L.allclose(want_choi, ident, 1e-6))
    ctx.sample({"family": spec.name, "params": repr(p)[:80], "wrappers": desc})


def sec_measure(ctx, rng, case):
    """measurement-like values answer the has_* / is_measurement questions consistently with what the calls return"""
    import cirq

    d = [int(rng.choice([2, 2, 3])) for _ in range(int(rng.integers(1, 4)))]
    qids = [cirq.LineQid(i, dimension=x) for i, x in enumerate(d)]
    kind = int(rng.integers(4))
    if kind == 0:
        op = cirq.measure(*qids, key="m")
    elif kind == 1:
        op = cirq.measure(*qids, key="m").with_tags("t")
    elif kind == 2:
        op = cirq.CircuitOperation(cirq.FrozenCircuit(cirq.measure(*qids, key="m")))
    else:
        qs = cirq.LineQubit.range(2)
        op = cirq.X(qs[1]).with_classical_controls("m")
    is_m = kind in (0, 1, 2)
    wit = dict(op=repr(op)[:200])
    ctx.check(cirq.is_measurement(op) == is_m, "has_X-consistent", "C04:is-measurement", "is_measurement(%r) = %s" % (op, cirq.is_measurement(op)), **wit)
    u = cirq.unitary(op, None)
    ctx.check(u is None and not cirq.has_unitary(op), "has_X-consistent", "C04:measurement-has-unitary", "a measurement/controlled value claims a unitary", **wit)
    hk, kr = cirq.has_kraus(op), cirq.kraus(op, None)
    mech = "C04:has-kraus-measure"
    if hk and kr is None and isinstance(op.untagged, cirq.CircuitOperation) and getattr(type(op.untagged), "_kraus_", None) is None:
        # known: has_kraus answers through the decomposition, cirq.kraus has no decomposition strategy
        mech = KNOWN_HAS_KRAUS
    ctx.check(hk == (kr is not None), "has_X-consistent", mech, "has_kraus=%s but cirq.kraus(op, None) is %s" % (hk, "None" if kr is None else "a Kraus set"), kind=kind, **wit)
    ctx.distinct((kind, tuple(d)))



def sec_controlled_decompose(ctx, rng, case):
    """controlled gates: every combination of per-control value sets over 1-3 qubit controls (exhaustive over
    {0}, {1}, {0,1} patterns, indexed by the case number) - matrix, apply_unitary and both decompositions agree with
    the block matrix"""
    import itertools

    import cirq

    specs = [s_ for s_ in _S["u"] if s_.shape in ((2,), (2, 2)) and "matrix" not in s_.tags]
    sets = [(0,), (1,), (0, 1)]
    combos = [c for k in (1, 2, 3) for c in itertools.product(sets, repeat=k)]
    combo = combos[case % len(combos)]
    spec = specs[(case // len(combos)) % len(specs)]
    p = spec.sample(rng)
    if spec.eigen and rng.random() < 0.5:
        p = (float(rng.choice([0.5, 1.0, -0.25, 0.3])), float(rng.choice([0.0, 0.0, 0.5])))
    g = spec.make(p)
    U = np.asarray(spec.ref(p), dtype=complex)
    k = len(combo)
    allowed = list(itertools.product(*combo))
    want = L.controlled(U, [2] * k, allowed)
    cq = [cirq.LineQubit(10 + i) for i in range(k)]
    tq = [cirq.LineQubit(i) for i in range(len(spec.shape))]
    qids = cq + tq
    shape = (2,) * len(qids)
    D = 2 ** len(qids)
    name = spec.name
    wit = dict(family=name, params=p, control_values=[list(c) for c in combo])
    forms = [("gate.controlled", g.controlled(k, control_values=list(combo)).on(*qids)),
             ("op.controlled_by", g.on(*tq).controlled_by(*cq, control_values=list(combo)))]
    for label, op in forms:
        u = cirq.unitary(op, None)
        ctx.check(u is not None and L.allclose(u, want, 1e-7), "unitary", "C04:controlled-unitary:" + label, "", **wit)
        psi = L.random_state(rng, D)
        t = psi.astype(np.complex128).reshape(shape)
        out = cirq.apply_unitary(op, cirq.ApplyUnitaryArgs(t, np.full(t.shape, np.nan, dtype=np.complex128), list(range(len(qids)))), None)
        ctx.check(out is not None and L.allclose(np.asarray(out).reshape(-1), want @ psi, 1e-7), "apply_unitary", "C04:controlled-apply-unitary:" + label, "", **wit)
        pos = {q: i for i, q in enumerate(qids)}
        for full in (False, True):
            dec = cirq.decompose(op) if full else cirq.decompose_once(op, None)
            if dec is None or (full and len(dec) == 1 and dec[0] == op):
                ctx.event("no-decomposition")
                continue
            if any(q not in pos for o in dec for q in o.qubits):
                ctx.event("decomposition-with-ancilla")
                continue
            M = np.eye(D, dtype=complex)
            ok = True
            for o in dec:
                uo = cirq.unitary(o, None)
                if uo is None:
                    ok = False
                    break
                M = L.embed(uo, [pos[q] for q in o.qubits], shape) @ M
            ctx.check(ok and L.allclose(M, want, 1e-6), "decompose", "C04:controlled-decompose%s:%s" % ("-full" if full else "-once", label),
                      lambda: "decomposition of the controlled gate deviates from the block matrix by %.3g" % L.maxdiff(M, want),
                      parts=[repr(o)[:70] for o in dec][:12], **wit)
    ctx.distinct((name, repr(p)[:100], combo), nontrivial=not L.allclose(U, np.eye(U.shape[0]), 1e-6))
    ctx.sample({"family": name, "control_values": [list(c) for c in combo]})


def sec_moment_values(ctx, rng, case):
    """a Moment as a value: its unitary / Kraus set / superoperator act on the moment's qubits in sorted order, whatever
    the order and interleaving of its operations"""
    import cirq
    from vf.workloads import programs as PP

    n = int(rng.integers(3, 6))
    dims = (2,) * n
    qubits = [cirq.LineQubit(i) for i in range(n)] if rng.random() < 0.6 else [cirq.GridQubit(0, i) for i in range(n)]
    free = [int(x) for x in rng.permutation(n)]
    steps = []
    while free and len(steps) < 3:
        k = 2 if (len(free) >= 2 and rng.random() < 0.6) else 1
        w, free = tuple(free[:k]), free[k:]
        kind = "c" if (k == 1 and rng.random() < 0.4) else "u"
        cands = [sp for sp in PP.pools()[kind] if sp.shape == (2,) * k and "custom" not in sp.tags]
        sp = cands[int(rng.integers(len(cands)))]
        steps.append({"t": "K" if kind == "c" else "U", "spec": sp.name, "p": sp.sample(rng), "w": w})
    try:
        ops = [PP.step_to_op(st, qubits) for st in steps]
    except ValueError:
        ctx.reject("constructor")
        return
    rng.shuffle(ops)
    m = cirq.Moment(ops)
    used = sorted(set(w for st in steps for w in st["w"]))
    pos = {w: i for i, w in enumerate(used)}
    sub = (2,) * len(used)
    ref_steps = [(I.K(PP.spec_by_name(st["spec"]).ref(st["p"]), [pos[w] for w in st["w"]]) if st["t"] == "K"
                  else I.U(PP.spec_by_name(st["spec"]).ref(st["p"]), [pos[w] for w in st["w"]])) for st in steps]
    S_ref = I.superop_of(ref_steps, sub)
    wit = dict(n=n, program=PP.describe(steps), op_order=[repr(o)[:60] for o in ops])
    ks = cirq.kraus(m, None)
    ctx.check(ks is not None and L.allclose(L.superop(list(ks)), S_ref, 1e-7), "moment-values", "C04:moment-kraus",
              "kraus(Moment) is not the channel of its operations on the moment's sorted qubits", **wit)
    ctx.check(L.allclose(m._superoperator_(), S_ref, 1e-7), "moment-values", "C04:moment-superoperator", "", **wit)
    if all(st["t"] == "U" for st in steps):
        U_ref = I.unitary_of(ref_steps, sub)
        um = cirq.unitary(m, None)
        ctx.check(um is not None and L.allclose(um, U_ref, 1e-7), "moment-values", "C04:moment-unitary", "", **wit)
    interleaved = any(len(st["w"]) == 2 and any(min(st["w"]) < w < max(st["w"]) for w in used) for st in steps)
    ctx.distinct((tuple(PP.describe(steps)), tuple(repr(o) for o in ops)), nontrivial=interleaved)


SECTIONS = [
    ("unitary_values", sec_unitary_values, 3500, 90000, 6.0),
    ("channels", sec_channels, 1200, 30000, 1.5),
    ("measure", sec_measure, 200, 2000, 0.3),
    ("controlled_decompose", sec_controlled_decompose, 1170, 30000, 1.5),
    ("moment_values", sec_moment_values, 600, 12000, 1.0),
]
