"""C11 - JSON round-trips every value and keeps reading old documents.

Observed: cirq.to_json / read_json (+gzip) with the default resolvers of all
five packages, repr/eval, hash, ==, < / sorted on qids, copy, deepcopy, pickle
(same process and a child process started with another PYTHONHASHSEED).

Oracle: the generator's own description of the value (gate-pool catalogue
matrix, constructor arguments), a field-by-field structural comparison that
does not use the objects' `__eq__` (vf.refmodel.structdiff), the JSON text
itself (second-generation text identical, VAL before REF), and the paired
`.repr` file for every stored document.

Mechanism keys ('explained-by'): every failed observation is explained by the
set of stored fields that differ between the value and its copy.  The known
defects D5 / D8 / D9 get their fixed keys only when *all* differences are the
fields of that defect; a single other lost field gets
"C11:<Class>-<field>-not-serialized" (JSON) / "...-lost-by-repr" (repr);
everything else "C11:<check>:<innermost class at fault>".  Proposed
known_findings.json entries for what fires on the unchanged tree are in
vf/workloads/c11_known_findings_proposed.json.
"""
from __future__ import annotations

import copy
import enum
import glob
import hashlib
import importlib
import itertools
import json
import os
import pickle
import subprocess
import sys
import tempfile
import warnings

import numpy as np

from vf.refmodel import linalg as L
from vf.refmodel import structdiff as SD
from vf.workloads import jsonvalues as JV

PACKAGES = ["cirq_google", "cirq_ionq", "cirq_aqt", "cirq_pasqal"]
LEVEL = "exploration"
RULE = ("(1) every stored .json/.json_inward document of the five packages, one case per file; (2) values from ~140 typed "
        "generators (gate pool with non-default parameters, decorated operations, classical controls, circuits, "
        "CircuitOperations with every field, sweeps, results, Pauli objects, noise models, gatesets, devices, observables, "
        "Clifford objects, vendor classes), repr-literal mutants of the stored examples, and compositions nested to depth 3 "
        "with shared FrozenCircuits; a value is distinct by the blake2 digest of its JSON text and non-trivial when that text "
        "contains at least one cirq_type object (mutants: when the text differs from the stored example's); (3)-(5) pools of "
        "near-duplicates, mixed qid triples/lists and copy/pickle histories, distinct by repr")
ASSUMPTIONS = [
    "the stored .repr files are the specification of what the stored .json documents mean",
    "a generated value is inside the domain when its public constructor accepted it",
    "structural comparison opens instances of cirq* classes attribute by attribute; attributes named _method_cache_*, _hash "
    "and the listed lazily computed caches are not value state",
    "JSON floats round-trip exactly in Python, so float fields are compared exactly",
]
MIN_EVAL = {"corpus:read==repr": 60, "json-roundtrip-eq": 400, "json-roundtrip-structure": 400, "repr-eval-eq": 300,
            "json-roundtrip-behaviour": 300, "eq=>hash": 300, "qid-order:totality": 300, "copy-eq": 100,
            "pickle-eq": 100, "pickle-child:hash": 20}
MUST_REACH = [
    "cirq/protocols/json_serialization.py:CirqEncoder.default",
    "cirq/protocols/json_serialization.py:ObjectHook.__call__",
    "cirq/protocols/json_serialization.py:obj_to_dict_helper",
    "cirq/protocols/json_serialization.py:dataclass_json_dict",
    "cirq/protocols/json_serialization.py:read_json_gzip",
    "cirq/value/value_equality_attr.py:_value_equality_hash",
    "cirq/value/value_equality_attr.py:_value_equality_eq",
    "cirq/ops/raw_types.py:Qid._cmp_tuple",
    "cirq/ops/raw_types.py:Qid.__getstate__",
    "cirq/circuits/moment.py:Moment.__getstate__",
    "cirq/circuits/frozen_circuit.py:FrozenCircuit.__getstate__",
    "cirq/circuits/circuit_operation.py:CircuitOperation.__getstate__",
    "cirq/study/resolver.py:ParamResolver.__getstate__",
]

ATOL = 1e-8
_S = {}

# ---- known genuine-defect mechanisms (DESIGN.md section 7: D5, D8, D9), keyed by the field that is lost
KNOWN_FIELDS = {
    ("KeyCondition", "index"): "C11:keycondition-index-lost-in-json",
    ("CZTargetGateset", "_preserve_moment_structure"): "C11:cz-target-gateset-options-not-serialized",
    ("CZTargetGateset", "_reorder_operations"): "C11:cz-target-gateset-options-not-serialized",
    ("ConstantQubitNoiseModel", "_prepend"): "C11:constant-noise-model-prepend-not-serialized",
}
KNOWN_JSON_FIELDS = {("KeyCondition", "index"): "C11:keycondition-index-lost-in-json"}

# ---- lazily computed caches (not value state); (class name, attribute).  Each entry was checked in the source.
LAZY = {
    # circuits/circuit.py:Circuit.__init__ / _mutated(): reset to None, filled on demand
    ("Circuit", "_placement_cache"), ("Circuit", "_frozen"), ("Circuit", "_is_measurement"), ("Circuit", "_is_parameterized"),
    ("Circuit", "_parameter_names"), ("Circuit", "_all_qubits"),
    # circuits/moment.py:Moment.__init__: "| None = None", filled by the accessor
    ("Moment", "_sorted_operations"), ("Moment", "_measurement_key_objs"), ("Moment", "_control_keys"),
    # study/resolver.py:ParamResolver.__init__: hash and recursion caches
    ("ParamResolver", "_param_hash"), ("ParamResolver", "_deep_eval_map"),
    # ops/gateset.py / target gatesets: text kept only to print the constructor arguments as they were given
    ("Gateset", "_gates_repr_str"),
    # devices/thermal_noise_model.py: the rate arguments as they were given (None / scalar / per-qubit dict), kept only for
    # __repr__; the value is rate_matrix_GHz, which is compared
    ("ThermalNoiseModel", "_heat_rate_GHz"), ("ThermalNoiseModel", "_cool_rate_GHz"), ("ThermalNoiseModel", "_dephase_rate_GHz"),
}
LAZY_ANY_CLASS = {"_gates_repr_str", "_additional_gates_repr_str"}


def _norm_result(r):
    return ("result", r.params, {k: np.asarray(v) for k, v in r.records.items()}, getattr(r, "job_id", None),
            getattr(r, "job_finished_time", None))


# classes that keep one value in several internal representations: compared through their public accessors
def _norm_gate_family(g):
    # the default description lists the tags in set-iteration order; it is derived text unless the user supplied one
    d = g.description
    return ("gatefamily", type(g).__name__, g.gate, g.name, None if d == g._default_description() else d,
            g._ignore_global_phase, g._tags_to_accept, g._tags_to_ignore)


NORMALIZE = {
    "GateFamily": _norm_gate_family,
    "Duration": lambda d: ("picos", d.total_picos()),          # Duration(nanos=38) is stored as [0, 38, 0, 0], read back as picos
    "ResultDict": _norm_result, "EngineResult": _norm_result,  # records <-> measurements, each derived lazily from the other
}


# ====================================================================== corpus location (import time: sizes SECTIONS)
def _repo():
    return os.path.abspath(os.environ.get("VERIF_REPO", "/repo"))


CORPUS_DIRS = [("cirq", "cirq-core/cirq/protocols/json_test_data"), ("cirq_google", "cirq-google/cirq_google/json_test_data"),
               ("cirq_ionq", "cirq-ionq/cirq_ionq/json_test_data"), ("cirq_aqt", "cirq-aqt/cirq_aqt/json_test_data"),
               ("cirq_pasqal", "cirq-pasqal/cirq_pasqal/json_test_data")]


def _corpus_files():
    out = []
    for pkg, rel in CORPUS_DIRS:
        d = os.path.join(_repo(), rel)
        for f in sorted(glob.glob(os.path.join(d, "*.json")) + glob.glob(os.path.join(d, "*.json_inward"))):
            inward = f.endswith("_inward")
            base = f[:-len(".json_inward")] if inward else f[:-len(".json")]
            out.append({"pkg": pkg, "json": f, "repr": base + (".repr_inward" if inward else ".repr"), "inward": inward,
                        "name": os.path.basename(base)})
    return out


FILES = _corpus_files()


# ====================================================================== setup
def setup(ctx):
    warnings.simplefilter("ignore")
    os.environ.setdefault("ALLOW_DEPRECATION_IN_TEST", "True")  # cirq/_compat.py:_warn_or_error
    import cirq  # noqa

    _S["ns"] = JV.namespace()
    _S["gens"] = JV.build_generators()
    reg = {}
    for pkg in ("cirq", "cirq_google", "cirq_ionq", "cirq_aqt", "cirq_pasqal"):
        mod = importlib.import_module(pkg + ".json_resolver_cache")
        for k, v in mod._class_resolver_dictionary().items():
            if isinstance(v, type):
                reg[k] = v
    _S["registered"] = reg
    _S["covered"] = set()
    skip = {}
    for pkg, rel in CORPUS_DIRS:
        try:
            spec = importlib.import_module(("cirq.protocols" if pkg == "cirq" else pkg) + ".json_test_data.spec").TestSpec
        except Exception as e:  # noqa
            ctx.inconclusive("cannot-read-json-test-spec:%s:%s" % (pkg, type(e).__name__))
            continue
        names = set(spec.deprecated) | set(spec.should_not_be_serialized) | set(spec.not_yet_serializable)
        skip[pkg] = names
    _S["skip"] = skip
    _S["examples"] = None
    _S["corpus_seen"] = 0
    # The worker stores at most 40 violations per shard.  So that a frequent or already known mechanism cannot crowd out
    # a new one from a later section: one witness per mechanism and shard (repeats are counted as events); mechanisms
    # listed in known_findings.json and anything beyond 5 witnesses per section are held back and handed to the worker
    # at teardown, new mechanisms first.
    counts, per_section, orig_fail = {}, {}, ctx.fail
    try:
        known = {e["key"] for e in json.load(open(os.path.join(os.path.dirname(os.path.dirname(os.path.dirname(
            os.path.abspath(__file__)))), "known_findings.json"))).get("known", []) if e.get("property") == "C11"}
    except Exception:  # noqa
        known = set()
    _S["held_new"], _S["held_known"], _S["orig_fail"] = [], [], orig_fail

    def fail(mech, msg, **witness):
        counts[mech] = counts.get(mech, 0) + 1
        if counts[mech] > 1:
            ctx.event("violating-observation-repeat:" + mech)
            return
        entry = (mech, msg, witness, ctx.section, ctx.case)
        if mech in known:
            _S["held_known"].append(entry)
        elif per_section.get(ctx.section, 0) >= 5:
            _S["held_new"].append(entry)
        else:
            per_section[ctx.section] = per_section.get(ctx.section, 0) + 1
            orig_fail(mech, msg, **witness)
    ctx.fail = fail


def teardown(ctx):
    for mech, msg, witness, section, case in _S.get("held_new", []) + _S.get("held_known", []):
        ctx.section, ctx.case = section, case
        _S["orig_fail"](mech, msg, **witness)
    sec = ctx.sections.get("corpus")
    if sec is not None:
        ctx.extra["corpus_exhaustive"] = bool(sec["cases"] == sec["planned"] and not sec["truncated"])
        ctx.extra["corpus_documents_visited"] = int(_S.get("corpus_seen", 0))
    reg, cov = _S.get("registered", {}), _S.get("covered", set())
    covered = sorted(k for k in reg if k in cov)
    if ctx.shard == 0:
        ctx.extra["classes_registered"] = len(reg)
        ctx.extra["classes_covered"] = len(covered)
        ctx.extra["classes_uncovered_by_shard0"] = sorted(k for k in reg if k not in cov)
        gen = ctx.sections.get("generated")
        if reg and gen and not gen["truncated"] and len(covered) < 0.9 * len(reg):
            ctx.inconclusive("classes-covered-%d-of-%d<90%%" % (len(covered), len(reg)))


# ====================================================================== helpers
def _ev(text):
    return eval(text, dict(_S["ns"]), {})


def _lenient_ns():
    """The stored-.repr namespace plus unqualified public names (for reprs that print `Foo(...)` or `pasqal.Foo(...)`)."""
    if "lenient" not in _S:
        import cirq
        import cirq_google
        import cirq_pasqal
        ns = {}
        for mod in (cirq_google, cirq.sim, cirq.devices, cirq.experiments, cirq.work, cirq):
            for k in dir(mod):
                if not k.startswith("_"):
                    ns[k] = getattr(mod, k)
        ns.update(_S["ns"])
        ns["pasqal"] = cirq_pasqal
        _S["lenient"] = ns
    return _S["lenient"]


def _sdiff(a, b, via="json"):
    """Field-by-field differences.  via="json": exact (JSON numbers round-trip exactly, classes are kept);
    via="repr": 1e-12 relative slack on floats (reprs print arithmetic such as x*np.pi/2) and an equal value
    spelled through another class (`cirq.Y(q)` for `YPowGate(exponent=1.0).on(q)`) is not a difference."""
    if via == "repr":
        ds = SD.diff(a, b, ignore=LAZY, normalize=NORMALIZE, rtol=1e-12, type_mismatch="eq")
    else:
        ds = SD.diff(a, b, ignore=LAZY, normalize=NORMALIZE)
    return [d for d in ds if d.field not in LAZY_ANY_CLASS]


def _cover(txt):
    """Record the cirq_type names that occur in a JSON text that was checked."""
    cov = _S["covered"]
    i = 0
    key = '"cirq_type": "'
    while True:
        i = txt.find(key, i)
        if i < 0:
            break
        j = txt.find('"', i + len(key))
        cov.add(txt[i + len(key):j])
        i = j
    return cov


def _slug(msg):
    """A stable short form of an exception message (no addresses, numbers or quotes)."""
    import re
    m = re.sub(r"0x[0-9a-fA-F]+|[-+]?\d+(\.\d+)?([eE][-+]?\d+)?", "#", msg)
    m = re.sub(r"[^A-Za-z#]+", "-", m).strip("-")
    return m[:48]


def _where(e):
    import traceback
    for fr in reversed(traceback.extract_tb(e.__traceback__)):
        if fr.filename.startswith(_repo() + os.sep):
            return "%s:%s" % (os.path.relpath(fr.filename, _repo()), fr.name)
    return "?"


def _digest(txt):
    return hashlib.blake2b(txt.encode(), digest_size=10).hexdigest()


def _cls(o):
    return type(o).__name__


def _hashable(o):
    try:
        return True, hash(o)
    except TypeError:
        return False, None


def _json_tree_diffs(a, b, ctype="<top>", out=None, path=""):
    """Differences between two parsed JSON documents as (enclosing cirq_type, key)."""
    out = [] if out is None else out
    if len(out) > 12:
        return out
    if isinstance(a, dict) and isinstance(b, dict):
        t = a.get("cirq_type")
        if isinstance(t, str) and (t == "complex" or t.split(".")[0] in ("sympy", "pandas", "datetime")):
            if a != b:  # a number / expression / frame: a leaf of the enclosing Cirq object
                out.append((ctype, None))
            return out
        ct = a.get("cirq_type", ctype) if isinstance(a.get("cirq_type"), str) else ctype
        if a.get("cirq_type") != b.get("cirq_type"):
            out.append((ct, "cirq_type"))
            return out
        for k in set(a) | set(b):
            if k not in a or k not in b:
                out.append((ct, k))
            else:
                before = len(out)
                _json_tree_diffs(a[k], b[k], ct, out, path + "." + k)
                # attribute leaf differences to the field of the enclosing object
                for i in range(before, len(out)):
                    if out[i] == (ct, None):
                        out[i] = (ct, k)
        return out
    if isinstance(a, list) and isinstance(b, list):
        if len(a) != len(b):
            out.append((ctype, None))
            return out
        if a != b:
            # sets are written as lists in iteration order: the same elements in another order are not a difference
            ka = sorted(json.dumps(e, sort_keys=True) for e in a)
            kb = sorted(json.dumps(e, sort_keys=True) for e in b)
            if ka == kb:
                return out
        for x, y in zip(a, b):
            _json_tree_diffs(x, y, ctype, out, path)
        return out
    if a != b or type(a) is not type(b) and not (isinstance(a, (int, float)) and isinstance(b, (int, float))):
        out.append((ctype, None))
    return out


def _classify(sdiffs, jdiffs, default, eq_held, via="json"):
    """Mechanism key for a failed observation, 'explained-by' style.

    A known key (D5/D8/D9) is used only when *every* structural and JSON-level difference belongs to that one known
    mechanism.  Otherwise, when all differences concern one field of one class, the key names that field
    ("C11:<Class>-<field>-not-serialized" for the JSON path, "...-lost-by-repr" for the repr path); when they concern one
    class as a whole, the key names the class; anything else gets `default`."""
    keys = set()
    for d in sdiffs:
        k = KNOWN_FIELDS.get((d.owner, d.field))
        if k is None:
            if d.field == "<root>" or d.path.endswith("<type>"):
                return default
            if d.field == "<value>":
                k = ("C11:roundtrip-not-equal:" if via == "json" else "C11:repr-eval-not-equal:") + d.owner
            else:
                k = "C11:%s-%s-%s" % (d.owner, d.field.lstrip("_"), "not-serialized" if via == "json" else "lost-by-repr")
        keys.add(k)
    for ct, f in jdiffs:
        k = KNOWN_JSON_FIELDS.get((ct, f))
        if k is None:
            # the JSON-level view of a difference that the structural view already names
            if any(d.owner == ct.split(".")[-1] for d in sdiffs):
                continue
            k = "C11:json-field-changed:%s.%s" % (ct, f)
        keys.add(k)
    if len(keys) == 1:
        return keys.pop()
    return default


def _explain_classical_store(x, y):
    """Known mechanism: record tuples are written as JSON arrays and read back as lists, enum members as ints.  The
    failure is explained when y equals x with every tuple replaced by a list."""
    import cirq
    try:
        x2 = cirq.ClassicalDataDictionaryStore(
            _records={k: [list(t) for t in v] for k, v in x.records.items()},
            _measured_qubits={k: [list(t) for t in v] for k, v in x.measured_qubits.items()},
            _channel_records={k: list(v) for k, v in x.channel_records.items()},
            _measurement_types={k: int(v) for k, v in x.measurement_types.items()})
        if SD.peq(y, x2) and SD.peq(x2, y):
            return "C11:classical-data-store-record-tuples-read-back-as-lists"
    except Exception:  # noqa
        pass
    return None


EXPLAINERS = {"ClassicalDataDictionaryStore": _explain_classical_store}


class _EqRaised(Exception):
    pass


def _peq2(a, b):
    """a == b and b == a as the values define it; _EqRaised when comparing raises."""
    try:
        return SD.peq(a, b) and SD.peq(b, a)
    except Exception as e:  # noqa
        raise _EqRaised("%s: %s" % (type(e).__name__, str(e)[:160])) from e


def _same(a, b):
    """a == b (both ways) as the values define it; field-by-field when their == raises (reported elsewhere)."""
    try:
        return _peq2(a, b)
    except _EqRaised:
        return not _sdiff(a, b)


def _children(o):
    """Cirq objects directly stored in `o` (through attributes and plain containers)."""
    out = []

    def flat(v, depth=0):
        if depth > 4:
            return
        if isinstance(v, (list, tuple, set, frozenset)):
            for e in v:
                flat(e, depth + 1)
        elif isinstance(v, dict):
            for k, e in v.items():
                flat(k, depth + 1)
                flat(e, depth + 1)
        elif (type(v).__module__ or "").startswith("cirq") and not isinstance(v, type):
            out.append(v)
    if isinstance(o, (list, tuple, dict, set, frozenset)):
        flat(o)
    else:
        for name, val in SD._attrs(o).items():
            if not SD.is_cache_attr(name):
                flat(val)
    return out


def _repr_roundtrips(o):
    if type(o).__repr__ is object.__repr__:
        return True
    try:
        z = eval(repr(o), dict(_lenient_ns()), {})
        return SD.peq(z, o) and SD.peq(o, z) and not _sdiff(o, z, "repr")
    except Exception:  # noqa
        return False


def _repr_evaluates(o):
    if type(o).__repr__ is object.__repr__:
        return False  # (the caller counts a class without a repr as "no contract", not as a violation)
    try:
        eval(repr(o), dict(_lenient_ns()), {})
        return True
    except Exception:  # noqa
        return False


def _repr_eq_roundtrips(o):
    """eval(repr(o)) == o by the value's own equality (stored fields that == ignores are not looked at)"""
    if type(o).__repr__ is object.__repr__:
        return True
    try:
        z = eval(repr(o), dict(_lenient_ns()), {})
        return SD.peq(z, o) and SD.peq(o, z)
    except Exception:  # noqa
        return False


def _repr_culprit(o, depth=0, raises=False, by_eq=False):
    """The innermost stored object whose own repr does not evaluate (raises=True) / does not evaluate back to it
    (by_eq=True: to an *unequal* value - the culprit of a failed == must itself fail ==, not merely lose an ignored field)."""
    ok = _repr_evaluates if raises else (_repr_eq_roundtrips if by_eq else _repr_roundtrips)
    if depth < 8:
        for c in _children(o)[:60]:
            if not ok(c):
                return _repr_culprit(c, depth + 1, raises, by_eq)
    return o


K_SYMPY_NUMBER = "C11:repr-prints-sympy-number-parameter-as-float"


def _only_sympy_number_vs_float(cul, diffs):
    """explained-by test: the culprit holds a sympy *number* (no free symbols, e.g. what a cancelling expression simplifies
    to) as a parameter, and every difference after eval(repr) is that number against the float of the same value"""
    import sympy

    g = getattr(cul, "gate", None) if type(cul).__name__ == "GateOperation" else None
    vals = list(vars(g if g is not None else cul).values()) if hasattr(g if g is not None else cul, "__dict__") else []
    if not any(isinstance(v, sympy.Basic) and not v.free_symbols for v in vals) or not diffs:
        return False
    for d in diffs:
        try:
            if abs(float(sympy.sympify(d.a)) - float(sympy.sympify(d.b))) > 1e-12:
                return False
        except Exception:  # noqa
            return False
    return True


def _blame_name(cul):
    """Class named in a repr mechanism key: an operation that merely applies a gate is blamed on the gate."""
    g = getattr(cul, "gate", None)
    if type(cul).__name__ == "GateOperation" and g is not None:
        return _cls(g)
    return _cls(cul)


def _diff_txt(diffs):
    return "; ".join("%s.%s %s -> %s" % (d.owner, d.field, d.a[:60], d.b[:60]) for d in diffs[:4])


# ---------------------------------------------------------------------- behaviour observations through public protocols
_PROBE = {}


def _probe():
    import cirq
    if not _PROBE:
        q = cirq.LineQubit.range(3)
        _PROBE["q"] = q
        _PROBE["moment"] = cirq.Moment([cirq.X(q[0]), cirq.CZ(q[1], q[2])])
        _PROBE["ops"] = [cirq.X(q[0]), cirq.X(q[0]) ** 0.5, cirq.CZ(q[0], q[1]), cirq.CZ(q[0], q[1]) ** 0.5,
                         cirq.ISWAP(q[0], q[1]) ** 0.5, cirq.measure(q[0], key="m"), cirq.H(q[1]), cirq.T(q[2]),
                         cirq.Z(q[0]).with_tags("physical_z"), cirq.CNOT(q[0], q[1]), cirq.SWAP(q[1], q[2]),
                         cirq.CircuitOperation(cirq.FrozenCircuit(cirq.X(q[0]))), cirq.CCZ(*q), cirq.FSimGate(0.5, 0.25)(q[0], q[1])]
        _PROBE["circuit"] = cirq.Circuit(cirq.H(q[0]), cirq.CNOT(q[0], q[1]), cirq.X(q[0]), cirq.Y(q[1]) ** 0.25,
                                         cirq.ISWAP(q[0], q[1]) ** 0.5, cirq.Z(q[0]), cirq.CZ(q[0], q[1]), cirq.X(q[1]))
    return _PROBE


def _try(f):
    try:
        return f()
    except Exception as e:  # noqa  (recorded as part of the observation; compared between original and copy)
        return "raises:" + type(e).__name__


def observe(o):
    """What the public protocols say about `o` (plain data only)."""
    import cirq
    obs = {}
    if isinstance(o, (list, tuple, dict, str, bytes, int, float, complex, type(None), np.ndarray)):
        return obs
    shape = _try(lambda: cirq.qid_shape(o, None))
    obs["qid_shape"] = shape
    small = isinstance(shape, tuple) and L.dim_of(shape) <= 32 if shape is not None and not isinstance(shape, str) else False
    if isinstance(o, (cirq.Gate, cirq.Operation)):
        obs["mkeys"] = _try(lambda: sorted(map(str, cirq.measurement_key_objs(o))))
        obs["ckeys"] = _try(lambda: sorted(map(str, cirq.control_keys(o))))
        obs["params"] = _try(lambda: sorted(cirq.parameter_names(o)))
        if small:
            u = _try(lambda: cirq.unitary(o, None))
            obs["unitary"] = u
            if u is None:
                obs["kraus"] = _try(lambda: cirq.kraus(o, None))
        if isinstance(o, cirq.Operation):
            obs["qubits"] = [repr(q) for q in o.qubits]
            obs["tags"] = [repr(t) for t in o.tags]
            obs["gate"] = repr(o.gate)
            obs["classical"] = _try(lambda: [repr(c) for c in o.classical_controls])
    elif isinstance(o, cirq.AbstractCircuit):
        obs["len"] = len(o)
        obs["moments"] = [[repr(op) for op in m] for m in o]
        obs["mtags"] = [[repr(t) for t in getattr(m, "tags", ())] for m in o]
        obs["tags"] = [repr(t) for t in getattr(o, "tags", ())]
        obs["mkeys"] = _try(lambda: sorted(o.all_measurement_key_names()))
        obs["params"] = _try(lambda: sorted(cirq.parameter_names(o)))
        qs = o.all_qubits()
        if len(qs) <= 4 and all(q.dimension == 2 for q in qs) and _try(lambda: cirq.has_unitary(o)) is True:
            obs["unitary"] = _try(lambda: o.unitary(qubit_order=sorted(qs)))
    elif isinstance(o, cirq.Moment):
        obs["ops"] = [repr(op) for op in o]
        obs["tags"] = [repr(t) for t in getattr(o, "tags", ())]
    elif isinstance(o, cirq.Sweep):
        obs["len"] = _try(lambda: len(o))
        obs["keys"] = _try(lambda: list(o.keys))
        obs["tuples"] = _try(lambda: [[(str(k), v if isinstance(v, (int, float)) else repr(v)) for k, v in t]
                                      for t in itertools.islice(o.param_tuples(), 64)])
        obs["metadata"] = _try(lambda: repr(getattr(o, "metadata", None)))
    elif isinstance(o, cirq.ParamResolver):
        obs["dict"] = {repr(k): repr(v) for k, v in o.param_dict.items()}
    elif isinstance(o, cirq.Result):
        obs["params"] = {repr(k): repr(v) for k, v in o.params.param_dict.items()}
        obs["records"] = _try(lambda: {k: np.asarray(v) for k, v in o.records.items()})
        obs["measurements"] = _try(lambda: {k: np.asarray(v) for k, v in o.measurements.items()})
        obs["reps"] = _try(lambda: o.repetitions)
    elif isinstance(o, cirq.NoiseModel):
        p = _probe()
        obs["noisy_moment"] = _try(lambda: repr(cirq.Circuit(o.noisy_moment(p["moment"], p["q"]))))
        obs["noisy_moment_tagged"] = _try(lambda: repr(cirq.Circuit(o.noisy_moment(
            cirq.Moment([op.with_tags(cirq.ops.PhysicalZTag() if hasattr(cirq.ops, "PhysicalZTag") else "p") for op in p["moment"]]),
            p["q"]))))
    elif isinstance(o, cirq.Gateset):
        p = _probe()
        obs["name"] = o.name
        # (a family's printed form lists its tag sets in iteration order, which is not part of its meaning)
        obs["gates"] = sorted(repr((type(g).__name__, repr(g.gate), g.name, g.description, sorted(map(repr, g.tags_to_accept)),
                                    sorted(map(repr, g.tags_to_ignore)))) for g in o.gates)
        obs["accepts"] = [_try(lambda op=op: op in o) for op in p["ops"]]
        if isinstance(o, cirq.CompilationTargetGateset):
            obs["compiled"] = _try(lambda: repr(cirq.optimize_for_target_gateset(p["circuit"], gateset=o)))
    elif isinstance(o, cirq.GateFamily):
        p = _probe()
        obs["name"] = o.name
        obs["description"] = o.description
        obs["accepts"] = [_try(lambda op=op: op in o) for op in p["ops"]]
    elif isinstance(o, cirq.Qid):
        obs["dimension"] = o.dimension
        obs["key"] = repr(_try(o._comparison_key))
    elif isinstance(o, cirq.MeasurementKey):
        obs["str"], obs["name"], obs["path"] = str(o), o.name, tuple(o.path)
    elif isinstance(o, cirq.Duration):
        obs["picos"] = _try(lambda: repr(o.total_picos()))
    elif isinstance(o, cirq.PauliSum):
        obs["terms"] = sorted((repr(sorted(map(repr, k))), complex(v) if not cirq.is_parameterized(v) else repr(v))
                              for k, v in o._linear_dict.items()) if hasattr(o, "_linear_dict") else None
    elif isinstance(o, cirq.CliffordTableau):
        obs["matrix"] = _try(lambda: o.matrix().astype(int))
        obs["rs"] = _try(lambda: np.asarray(o.rs).astype(int))
    elif isinstance(o, cirq.Condition):
        obs["keys"] = _try(lambda: sorted(map(str, o.keys)))
        obs["str"] = str(o)
    return obs


def _obs_equal(a, b):
    if isinstance(a, dict) and isinstance(b, dict):
        return a.keys() == b.keys() and all(_obs_equal(a[k], b[k]) for k in a)
    if isinstance(a, (list, tuple)) and isinstance(b, (list, tuple)):
        return len(a) == len(b) and all(_obs_equal(x, y) for x, y in zip(a, b))
    if isinstance(a, np.ndarray) or isinstance(b, np.ndarray):
        try:
            aa, bb = np.asarray(a), np.asarray(b)
            if aa.shape != bb.shape:
                return False
            if aa.dtype.kind in "fc" or bb.dtype.kind in "fc":
                return bool(np.allclose(aa, bb, atol=1e-9, rtol=0, equal_nan=True))
            return bool(np.array_equal(aa, bb))
        except Exception:  # noqa
            return False
    if isinstance(a, float) and isinstance(b, float):
        return a == b or (a != a and b != b)
    return SD.peq(a, b)


def _obs_diff_keys(a, b):
    return sorted(k for k in set(a) | set(b) if k not in a or k not in b or not _obs_equal(a[k], b[k]))


# ====================================================================== the per-value history
class Outcome:
    """What check_value found: JSON text, the copy, and whether the copy was equal / structurally identical."""
    __slots__ = ("txt", "y", "eq", "clean")

    def __init__(self, txt=None, y=None, eq=False, clean=False):
        self.txt, self.y, self.eq, self.clean = txt, y, eq, clean


def _quiet_same(a, b):
    try:
        return _peq2(a, b)
    except _EqRaised:
        return False


def _pair_culprit(x, y, depth=0):
    """Innermost pair of container elements (x_i, y_i) that do not compare equal."""
    if depth < 6:
        if isinstance(x, (list, tuple)) and isinstance(y, (list, tuple)) and len(x) == len(y):
            for a, b in zip(x, y):
                if not _quiet_same(a, b):
                    return _pair_culprit(a, b, depth + 1)
        elif isinstance(x, dict) and isinstance(y, dict) and len(x) == len(y) and all(k in y for k in x):
            for k in x:
                if not _quiet_same(x[k], y[k]):
                    return _pair_culprit(x[k], y[k], depth + 1)
    return x, y


def _eq_raiser(x, depth=0):
    """Innermost stored object whose `==` with itself raises."""
    if depth < 8:
        for c in _children(x)[:40]:
            try:
                c == c  # noqa
                copy.copy(c) == c  # noqa
            except Exception:  # noqa
                return _eq_raiser(c, depth + 1)
    return x


def check_value(ctx, v, origin, light=False, repr_checks=True):
    """JSON, repr and behavioural round trip of one value.  Returns an Outcome."""
    import cirq

    x = v.obj
    cname = _cls(x)
    wit = dict(origin=origin, gen=v.gen, cls=cname)
    rx = repr(x)
    wit["repr"] = rx[:700]
    try:
        txt = cirq.to_json(x)
    except Exception as e:  # noqa  (x was accepted by its public constructor: writing it must not fail)
        key = "C11:to-json-raises:%s:%s" % (type(e).__name__, _slug(str(e)))
        if isinstance(e, TypeError) and str(e).startswith("unhashable type"):
            key = "C11:to-json-raises:unhashable-value-inside-frozen-circuit"  # the encoder's VAL/REF memo hashes the FrozenCircuit
        ctx.check(False, "json-writable", key,
                  "to_json(x) raised %s: %s" % (type(e).__name__, str(e)[:300]), where=_where(e), **wit)
        return Outcome()
    ctx.ok("json-writable")
    _cover(txt)
    try:
        y = cirq.read_json(json_text=txt)
    except Exception as e:  # noqa
        ctx.check(False, "json-readable", "C11:read-json-raises:%s:%s:%s" % (cname, type(e).__name__, _slug(str(e))),
                  "read_json(to_json(x)) raised %s: %s" % (type(e).__name__, str(e)[:300]), where=_where(e), **wit)
        return Outcome(txt)
    ctx.ok("json-readable")
    txt2 = cirq.to_json(y)
    container = isinstance(x, (list, tuple, dict))
    top_container = container or isinstance(x, np.ndarray) or type(x).__module__.split(".")[0] in ("pandas", "numpy", "builtins")

    eq_raised = eq_raised_by = None
    try:
        eq = _peq2(y, x)
    except _EqRaised as e:
        eq, eq_raised, eq_raised_by = False, str(e), _raiser_class(e.__cause__, x)
    sdiffs = _sdiff(x, y)
    jdiffs = [] if txt2 == txt else _json_tree_diffs(json.loads(txt), json.loads(txt2))

    # ---- equality, and one mechanism key for everything that follows from an unequal copy
    fail_key = None
    if eq_raised is not None:
        # the value cannot even be compared with its copy; the field-by-field comparison below still judges the round trip
        ctx.check(False, "json-roundtrip-eq", "C11:eq-raises:" + eq_raised_by, "comparing x with its JSON copy raised " + eq_raised, **wit)
        eq = not sdiffs
    else:
        if not eq:
            xc, yc = _pair_culprit(x, y) if container else (x, y)
            cdiffs = _sdiff(xc, yc) if container else sdiffs
            fail_key = None
            if _cls(xc) in EXPLAINERS:
                fail_key = EXPLAINERS[_cls(xc)](xc, yc)
            if fail_key is None:
                fail_key = _classify(cdiffs, jdiffs if not container else [], "C11:roundtrip-not-equal:" + _cls(xc), False)
        if not eq and not sdiffs:
            # nothing stored differs, yet == says no: record what the two sides compare
            wit["eq_values_x"] = _try(lambda: repr(xc._value_equality_values_())[:1500])
            wit["eq_values_y"] = _try(lambda: repr(yc._value_equality_values_())[:1500])
        ctx.check(eq, "json-roundtrip-eq", fail_key or "?",
                  lambda: "read_json(to_json(x)) != x; got %s ; differences: %s" % (repr(y)[:300], _diff_txt(sdiffs)), **wit)

    def mech(default):
        return fail_key if fail_key is not None else _classify(sdiffs, jdiffs, default, eq)

    if not top_container and not isinstance(x, enum.IntEnum):  # IntEnum members are written as their int (stored corpus: [1, 2])
        ctx.check(type(y) is type(x), "json-roundtrip-type", "C11:roundtrip-type:" + cname,
                  lambda: "type %s became %s" % (type(x).__name__, type(y).__name__), **wit)
    hx, hashx = _hashable(x)
    if hx and eq:
        hy, hashy = _hashable(y)
        ctx.check(hy and hashy == hashx, "json-roundtrip-hash", mech("C11:roundtrip-hash:" + cname),
                  "hash(read_json(to_json(x))) != hash(x)", **wit)
    ry = repr(y)
    if not repr_checks or ry == rx or type(x).__repr__ is object.__repr__:
        ctx.ok("json-roundtrip-repr")
    elif eq:
        # the copy may print the same value in another spelling (Duration(nanos=1) / Duration(picos=1000), a gate given as
        # a gate / as its GateFamily).  Judged only when repr(x) itself evaluates back to x (otherwise the repr is at fault,
        # which is the repr check's business): then repr(copy) must evaluate to x as well.
        try:
            z0 = eval(rx, dict(_lenient_ns()), {})
            base_ok = SD.peq(z0, x) and not _sdiff(x, z0, "repr")
        except Exception:  # noqa
            base_ok = False
        if not base_ok:
            ctx.reject("roundtrip-repr:repr-of-original-does-not-evaluate-back")
        else:
            try:
                w = eval(ry, dict(_lenient_ns()), {})
                repr_ok = SD.peq(w, x) and not _sdiff(x, w, "repr")
            except Exception:  # noqa
                repr_ok = False
            ctx.check(repr_ok, "json-roundtrip-repr", mech("C11:roundtrip-repr:" + cname),
                      lambda: "repr of the JSON copy no longer describes x: %s" % ry[:400], **wit)
    if eq:
        if not sdiffs:  # (a lost field is reported below, once per field)
            ctx.check(txt2 == txt or not jdiffs, "json-idempotent", mech("C11:second-generation-json-differs:" + cname),
                      lambda: "to_json(read_json(to_json(x))) != to_json(x); fields: %r" % (jdiffs[:4],), **wit)
        # silent loss: equal by ==, yet a stored field differs (one observation per value, one violation per distinct field)
        ctx.ok("json-roundtrip-structure")
        seen = set()
        for d in sdiffs:
            k = _classify([d], [], "C11:roundtrip-structure:" + cname, eq)
            if k in seen:
                continue
            seen.add(k)
            ctx.fail(k, "field %s.%s is lost or changed by the JSON round trip although the copy compares equal: %s -> %s (path %s)"
                     % (d.owner, d.field, d.a, d.b, d.path), **wit)

    # behaviour, judged by the generator's description of x where one exists, else original-vs-copy through the protocols
    if v.spec is not None:
        ref = v.spec.ref(v.params)
        if v.spec.kind == "channel":
            ks = cirq.kraus(y)
            ok = L.allclose(L.choi(ks), L.choi(ref), ATOL)
        else:
            ok = L.allclose(cirq.unitary(y), ref, ATOL)
        ctx.check(ok and tuple(cirq.qid_shape(y)) == v.spec.shape, "json-roundtrip-catalogue", "C11:roundtrip-matrix:" + v.spec.name,
                  "the copy read back from JSON does not have the documented matrix of the generated parameters", **wit)
    if not light:
        ox, oy = observe(x), observe(y)
        bad = _obs_diff_keys(ox, oy)
        ctx.check(not bad, "json-roundtrip-behaviour", mech("C11:roundtrip-behaviour:%s:%s" % (cname, ",".join(bad)[:60])),
                  lambda: "public protocols disagree between x and its JSON copy on %s: %r vs %r"
                          % (bad, {k: ox.get(k) for k in bad[:2]}, {k: oy.get(k) for k in bad[:2]}), **wit)
    out = Outcome(txt, y, eq, eq and not sdiffs)
    if not repr_checks:
        return out

    # repr evaluates back to an equal value (same namespace as the stored .repr files)
    z = None
    foreign = type(x).__module__.split(".")[0] in ("sympy", "pandas", "numpy", "datetime", "builtins")
    if foreign and not container:
        ctx.reject("repr-eval:not-a-cirq-value")  # sympy / pandas / numpy print for humans; no evaluable-repr contract
        return out
    if type(x).__repr__ is object.__repr__:
        ctx.reject("repr-eval:class-defines-no-repr")
        return out
    try:
        z = _ev(rx)
    except Exception:  # noqa
        try:
            z = eval(rx, dict(_lenient_ns()), {})
            ctx.reject("repr-eval:needs-unqualified-names")  # e.g. `pasqal.ThreeDQubit(..)`, dataclass default reprs
        except Exception as e2:  # noqa
            cul = _repr_culprit(x, raises=True)
            if type(cul).__repr__ is object.__repr__:
                ctx.reject("repr-eval:class-defines-no-repr")
            else:
                ctx.check(False, "repr-eval-eq", "C11:repr-not-evaluable:%s" % _blame_name(cul),
                          "eval(repr(x)) raised %s: %s; innermost object whose repr does not evaluate back: %s"
                          % (type(e2).__name__, e2, repr(cul)[:300]), **wit)
    if z is not None:
        zdiffs = _sdiff(x, z, "repr")
        try:
            eqz = _peq2(z, x)
        except _EqRaised:
            eqz = not zdiffs  # the raising == is reported once, under json-roundtrip-eq
        if not eqz:
            cul = _repr_culprit(x, by_eq=True)
            known = _classify(zdiffs, [], None, eqz, "repr") if zdiffs else None
            key = known if known in KNOWN_FIELDS.values() else "C11:repr-eval-not-equal:" + _blame_name(cul)
            if key.startswith("C11:repr-eval-not-equal:") and _only_sympy_number_vs_float(cul, zdiffs):
                key = K_SYMPY_NUMBER
            ctx.check(False, "repr-eval-eq", key,
                      lambda: "eval(repr(x)) != x; differences: %s; innermost object whose repr does not evaluate back: %s"
                              % (_diff_txt(zdiffs), repr(cul)[:300]), **wit)
        else:
            ctx.ok("repr-eval-eq")
            # silent loss: equal by ==, yet a stored field differs (one violation per distinct field)
            ctx.ok("repr-eval-structure")
            seen = set()
            for d in zdiffs:
                k = _classify([d], [], "C11:repr-structure:" + cname, eqz, "repr")
                if k in seen:
                    continue
                seen.add(k)
                ctx.fail(k, "field %s.%s is lost or changed by eval(repr(x)) although the result compares equal: %s -> %s (path %s)"
                         % (d.owner, d.field, d.a, d.b, d.path), **wit)
            if hx:
                hz, hashz = _hashable(z)
                ctx.check(hz and hashz == hashx, "repr-eval-hash", "C11:repr-eval-hash:" + cname, "hash(eval(repr(x))) != hash(x)", **wit)
    return out


def _val_before_ref(ctx, txt, wit):
    """Every REF key was defined by a VAL earlier in the order in which the reader's object hook sees objects."""
    order = []

    def hook(d):
        t = d.get("cirq_type")
        if t in ("VAL", "REF"):
            order.append((t, d.get("key")))
        return d
    json.loads(txt, object_hook=hook)
    defined, ok = set(), True
    for t, k in order:
        if t == "VAL":
            ok = ok and k not in defined
            defined.add(k)
        elif k not in defined:
            ok = False
    ctx.check(ok, "val-before-ref", "C11:ref-before-val", "a REF precedes its VAL (or a key has two VALs): %r" % (order[:12],), **wit)
    return order


# ====================================================================== (1) corpus
# Stored examples that are not mutated: their constructors take raw arrays without checking that they are mutually
# consistent (a perturbed `num_qubits` next to unchanged arrays is not a value of the class), or the file is very large.
MUTANT_SKIP = {"CliffordTableau", "CliffordGate", "SingleQubitCliffordGate", "StabilizerStateChForm", "CliffordState",
               "GateTabulation", "TwoQubitGateTabulation", "SycamoreTargetGateset"}


def _examples():
    """Stored plain examples (for the mutation section)."""
    if _S["examples"] is None:
        ex = []
        for f in FILES:
            if f["inward"] or f["name"] in _S["skip"].get(f["pkg"], ()) or f["name"] in MUTANT_SKIP:
                continue
            if f["name"].split(".")[0] in ("sympy", "pandas", "datetime"):
                continue  # values of other libraries (the encoder's sympy.Float support is named "approx")
            if os.path.exists(f["repr"]) and os.path.getsize(f["repr"]) < 40000:
                ex.append(f)
        _S["examples"] = ex
    return _S["examples"]


def sec_corpus(ctx, rng, case):
    import cirq

    if case >= len(FILES):
        return
    f = FILES[case]
    _S["corpus_seen"] += 1
    if f["name"] in _S["skip"].get(f["pkg"], ()):
        ctx.reject("corpus-entry-excluded-by-package-spec")
        return
    if not os.path.exists(f["repr"]):
        ctx.reject("corpus-json-without-repr")
        return
    wit = dict(file=os.path.relpath(f["json"], _repo()))
    jtxt = open(f["json"]).read()
    _cover(jtxt)
    obj_j = cirq.read_json(f["json"])
    obj_r = _ev(open(f["repr"]).read())
    elementwise = isinstance(obj_j, list) and isinstance(obj_r, (list, tuple)) and len(obj_j) == len(obj_r)
    pairs = list(zip(obj_j, obj_r)) if elementwise else [(obj_j, obj_r)]
    if isinstance(obj_j, list) and isinstance(obj_r, (list, tuple)) and not elementwise:
        ctx.check(False, "corpus:read==repr", "C11:corpus-length:" + f["name"], "document and repr lists differ in length", **wit)
        return
    for i, (a, b) in enumerate(pairs):
        ok = _same(a, b)
        sd = _sdiff(b, a) if ok else []
        ctx.check(ok, "corpus:read==repr", "C11:corpus-document-reads-differently:" + f["name"],
                  lambda: "element %d of %s reads as %s, its .repr says %s" % (i, wit["file"], repr(a)[:300], repr(b)[:300]), **wit)
        if ok and not isinstance(b, (list, tuple, dict, enum.IntEnum)):
            ctx.check(type(a) is type(b), "corpus:type", "C11:corpus-type:" + f["name"], "", **wit)
        ctx.ok("corpus:structure")
        for d in sd:
            ctx.fail(_classify([d], [], "C11:corpus-structure:" + f["name"], True),
                     "stored document and its .repr differ in field %s.%s: %s vs %s" % (d.owner, d.field, d.a, d.b), **wit)
    if not f["inward"]:
        txt = cirq.to_json(obj_r)
        back = cirq.read_json(json_text=txt)
        ctx.check(_same(back, obj_r), "corpus:rewrite-reads-back", "C11:corpus-rewrite:" + f["name"],
                  "to_json of the .repr value does not read back equal", **wit)
        gz = cirq.read_json_gzip(gzip_raw=cirq.to_json_gzip(obj_r))
        ctx.check(_same(gz, obj_r), "corpus:gzip-reads-back", "C11:corpus-gzip:" + f["name"], "gzip round trip differs", **wit)
        # the stored example also goes through the full per-value history
        for i, (a, b) in enumerate(pairs[:6]):
            check_value(ctx, JV.Val(b, "corpus:" + f["name"]), "corpus", light=False)
    ctx.distinct(("corpus", f["pkg"], f["name"], f["inward"]), nontrivial=True)
    ctx.sample({"file": wit["file"], "elements": len(pairs)})


# ====================================================================== (2a) typed generators
def _gen_index(case, n):
    return (case + case // n) % n


def sec_generated(ctx, rng, case):
    import cirq

    gens = _S["gens"]
    name, fn = gens[_gen_index(case, len(gens))]
    v = fn(rng)
    res = check_value(ctx, v, "typed")
    txt = res.txt
    if txt is not None and res.y is None:
        _val_before_ref(ctx, txt, dict(gen=v.gen))
    if txt is None or res.y is None:
        ctx.distinct(("gen-unwritable", name, repr(v.obj)[:200]), nontrivial=True)
        return
    if case % 7 == 0:
        gz = cirq.read_json_gzip(gzip_raw=cirq.to_json_gzip(v.obj))
        plain = res.y
        ctx.check(not _sdiff(plain, gz), "gzip-roundtrip-eq", "C11:gzip-differs-from-plain-json:" + _cls(v.obj),
                  "read_json_gzip(to_json_gzip(x)) differs from read_json(to_json(x))", gen=v.gen, repr=repr(v.obj)[:400])
    _val_before_ref(ctx, txt, dict(gen=v.gen))
    ctx.distinct(("gen", _digest(txt)), nontrivial='"cirq_type"' in txt)
    ctx.sample({"generator": name, "repr": repr(v.obj)[:200]})


# ====================================================================== (2b) repr-literal mutation
def sec_mutants(ctx, rng, case):
    import cirq

    ex = _examples()
    if not ex:
        ctx.inconclusive("no-stored-examples-found")
        return
    f = ex[_gen_index(case, len(ex))]
    text = open(f["repr"]).read()
    # timestamps are written as float seconds: a perturbed year/microsecond leaves the range in which that is exact
    mutated, n = JV.mutate_repr(text, rng, numbers="datetime.datetime(" not in text)
    if mutated is None:
        ctx.reject("mutant:no-literal")
        return
    try:
        orig = _ev(text)
    except Exception:  # noqa
        ctx.reject("mutant:original-not-evaluable")
        return
    try:
        mv = _ev(mutated)
    except Exception as e:  # noqa  (constructor rejected the perturbed literal: documented validation)
        ctx.reject("mutant:constructor-rejected:" + type(e).__name__)
        return
    pairs = list(zip(orig, mv)) if isinstance(orig, list) and isinstance(mv, list) and len(orig) == len(mv) else [(orig, mv)]
    done = 0
    for o, m in pairs:
        try:
            t_o, t_m = cirq.to_json(o), cirq.to_json(m)
        except Exception as e:  # noqa
            # a perturbed literal can leave the documented domain without the constructor noticing (sympy atoms outside the
            # supported list such as zoo, zero dimensions): counted, not judged
            ctx.reject("mutant:not-writable:" + type(e).__name__)
            continue
        shape = _try(lambda: cirq.qid_shape(m, None))
        if (isinstance(shape, tuple) and any(d < 1 for d in shape)) or "nan" in repr(m):
            ctx.reject("mutant:degenerate-value")  # zero dimensions, a zero vector normalised to nan, ...
            continue
        if t_o == t_m:
            ctx.distinct(("mutant-same", f["name"]), nontrivial=False)
            continue
        check_value(ctx, JV.Val(m, "mutant:" + f["name"]), "mutant")
        ctx.distinct(("mut", _digest(t_m)), nontrivial=True)
        done += 1
    if done:
        ctx.event("mutants-checked", done)
        ctx.sample({"file": f["name"], "mutant": repr(pairs[0][1])[:240]})


# ====================================================================== (2c) composition
def _collect_frozen(o, out, depth=0):
    import cirq
    if depth > 12:
        return out
    if isinstance(o, cirq.FrozenCircuit):
        out.append(o)
        for op in o.all_operations():
            _collect_frozen(op, out, depth + 1)
    elif isinstance(o, cirq.Circuit):
        for op in o.all_operations():
            _collect_frozen(op, out, depth + 1)
    elif isinstance(o, cirq.Operation):
        u = o.untagged
        if isinstance(u, cirq.CircuitOperation):
            _collect_frozen(u.circuit, out, depth + 1)
        elif isinstance(u, (cirq.ControlledOperation, cirq.ClassicallyControlledOperation)):
            _collect_frozen(u.without_classical_controls() if isinstance(u, cirq.ClassicallyControlledOperation) else u.sub_operation,
                            out, depth + 1)
    elif isinstance(o, (list, tuple)):
        for e in o:
            _collect_frozen(e, out, depth + 1)
    elif isinstance(o, dict):
        for e in o.values():
            _collect_frozen(e, out, depth + 1)
    return out


def sec_composed(ctx, rng, case):
    import cirq

    v = JV.compose(rng, _S["gens"])
    # (the printed form of nested values is judged on the un-nested values in `generated`)
    res = check_value(ctx, v, "composed", light=True, repr_checks=False)
    txt = res.txt
    if txt is None or res.y is None:
        return
    wit = dict(gen=v.gen, repr=repr(v.obj)[:600])
    order = _val_before_ref(ctx, txt, wit)
    y = res.y
    fx, fy = _collect_frozen(v.obj, []), _collect_frozen(y, [])
    if res.clean:  # (an unequal / lossy copy has already been reported with its own mechanism)
        ok = len(fx) == len(fy) and all(_same(a, b) and not _sdiff(a, b) for a, b in zip(fx, fy))
        ctx.check(ok, "shared-subcircuits-survive", "C11:shared-frozen-circuit",
                  "the FrozenCircuits reachable in the copy are not the ones of the original (%d vs %d)" % (len(fx), len(fy)), **wit)
    if v.info and v.info.get("shared"):
        nval = sum(1 for t, _ in order if t == "VAL")
        nref = sum(1 for t, _ in order if t == "REF")
        distinct_ids = len({id(c) for c in fx})
        # every FrozenCircuit object is written in full at most once; further occurrences are REFs
        upper_ok = nval <= distinct_ids or not v.info.get("exact", True)
        ctx.check(nval >= 1 and upper_ok and nref >= 1, "val-ref-memo", "C11:val-ref-memo",
                  "VAL=%d REF=%d for %d occurrences of %d distinct FrozenCircuit objects" % (nval, nref, len(fx), distinct_ids), **wit)
        if res.clean:
            fc = v.info["fc"]
            same = [c for c in fy if _same(c, fc)]
            ctx.check(len(same) >= 2 and all(not _sdiff(fc, c) for c in same), "shared-subcircuit-equal-at-all-depths",
                      "C11:shared-frozen-circuit-depth", "the shared FrozenCircuit is not equal at all of its occurrences", **wit)
    ctx.distinct(("comp", _digest(txt)), nontrivial='"cirq_type"' in txt)
    ctx.sample({"generator": v.gen, "json_bytes": len(txt), "frozen_occurrences": len(fx)})


# ====================================================================== (3) equality / hash contract
def _near_duplicates(rng, case):
    """A pool of values around one generated value: exact duplicates built independently, neighbours, cross-type look-alikes."""
    import cirq

    gens = _S["gens"]
    gi = _gen_index(case, len(gens))
    name, fn = gens[gi]
    seed = int(rng.integers(1 << 30))
    pool, dup_groups = [], []
    a = fn(np.random.default_rng(seed)).obj
    b = fn(np.random.default_rng(seed)).obj  # same constructor arguments, built independently
    pool += [a, b]
    dup = [a, b]
    try:
        c = _ev(repr(a))
        pool.append(c)
    except Exception:  # noqa
        pass
    try:
        pool.append(cirq.read_json(json_text=cirq.to_json(a)))
    except Exception:  # noqa
        pass
    try:
        pool.append(copy.deepcopy(a))
        dup.append(pool[-1])
    except Exception:  # noqa  (judged in section `copies`)
        pass
    dup_groups.append(dup)
    for k in range(3):
        pool.append(fn(np.random.default_rng(seed + 1 + k)).obj)
    # look-alikes from other generators
    for _ in range(2):
        pool.append(gens[int(rng.integers(len(gens)))][1](rng).obj)
    q = cirq.LineQubit(1)
    extras = [cirq.X, cirq.XPowGate(exponent=1.0), cirq.X ** 1, cirq.XPowGate(exponent=3.0), cirq.XPowGate(exponent=1.0, global_shift=0.0),
              cirq.rx(np.pi), cirq.PhasedXPowGate(phase_exponent=0.0), cirq.Z, cirq.ZPowGate(), cirq.CZ, cirq.CZPowGate(exponent=1),
              cirq.CNOT, cirq.CXPowGate(), q, cirq.LineQid(1, 2), cirq.LineQid(1, 3), cirq.NamedQubit("1"), cirq.GridQubit(0, 1),
              cirq.GridQid(0, 1, dimension=2), cirq.NamedQid("1", dimension=2), cirq.X(q), cirq.XPowGate().on(q),
              cirq.PauliString({q: cirq.X}), cirq.MeasurementKey("a"), "a", cirq.MeasurementKey("a", ("p",)), 1, 1.0,
              cirq.Duration(nanos=1), cirq.Duration(picos=1000), cirq.Duration(picos=1000.0),
              cirq.Circuit(cirq.X(q)), cirq.FrozenCircuit(cirq.X(q)), cirq.Circuit(cirq.X(q)).freeze(), cirq.Moment(cirq.X(q)),
              cirq.KeyCondition(cirq.MeasurementKey("a")), cirq.KeyCondition(cirq.MeasurementKey("a"), 0),
              cirq.ParamResolver({"a": 1}), cirq.ParamResolver({"a": 1.0}), cirq.Points("a", [1]), cirq.Linspace("a", 1, 1, 1)]
    for i in rng.choice(len(extras), size=6, replace=False):
        pool.append(extras[int(i)])
    return name, pool, dup_groups


def _eq(a, b):
    try:
        r = a == b
    except Exception:  # noqa  (reported by section `generated` as C11:eq-raises)
        return False
    if isinstance(r, np.ndarray):
        return bool(r.all())
    return r is not NotImplemented and bool(r)


def _raiser_class(e, default):
    """Class of the object whose method raised (innermost frame with a `self`)."""
    tb, name = e.__traceback__, None
    while tb is not None:
        me = tb.tb_frame.f_locals.get("self")
        if me is not None and (type(me).__module__ or "").startswith("cirq"):
            name = type(me).__name__
        tb = tb.tb_next
    return name or _cls(default)


def _eq_raises(a):
    try:
        a == a  # noqa
        return False
    except Exception:  # noqa
        return True


def sec_eqhash(ctx, rng, case):
    name, pool, dup_groups = _near_duplicates(rng, case)
    # numpy / pandas payloads have element-wise ==; the contract is about Cirq values
    pool = [p for p in pool if not isinstance(p, np.ndarray) and type(p).__module__.split(".")[0] != "pandas"
            and not (isinstance(p, (list, dict, tuple)))]
    n = len(pool)
    eqm = [[False] * n for _ in range(n)]
    hs = [_hashable(p) for p in pool]
    iscirq = [type(p).__module__.split(".")[0].startswith("cirq") for p in pool]
    for i in range(n):
        for j in range(n):
            try:
                r = pool[i] == pool[j]
                ctx.ok("eq-total")
            except Exception as e:  # noqa
                # == must answer (True / False / NotImplemented) for any other object
                ctx.check(False, "eq-total", "C11:eq-raises:" + _raiser_class(e, pool[i]),
                          "a == b raised %s: %s" % (type(e).__name__, str(e)[:200]), a=repr(pool[i])[:300], b=repr(pool[j])[:300],
                          where=_where(e))
                continue
            eqm[i][j] = bool(r.all()) if isinstance(r, np.ndarray) else (r is not NotImplemented and bool(r))
    for i in range(n):
        wit = dict(gen=name, a=repr(pool[i])[:300])
        if not eqm[i][i] and not _eq(pool[i], pool[i]) and _eq_raises(pool[i]):
            continue
        ctx.check(eqm[i][i], "eq-reflexive", "C11:eq-not-reflexive:" + _cls(pool[i]), "x != x", **wit)
        for j in range(i + 1, n):
            if not (iscirq[i] or iscirq[j]):
                continue  # e.g. sympy.Float(1.0) vs 1: third-party semantics, not Cirq's contract
            wit2 = dict(gen=name, a=repr(pool[i])[:300], b=repr(pool[j])[:300], ta=_cls(pool[i]), tb=_cls(pool[j]))
            ctx.check(eqm[i][j] == eqm[j][i], "eq-symmetric", "C11:eq-not-symmetric:%s/%s" % tuple(sorted((_cls(pool[i]), _cls(pool[j])))),
                      "a == b is %s but b == a is %s" % (eqm[i][j], eqm[j][i]), **wit2)
            try:
                ne = pool[i] != pool[j]
            except Exception:  # noqa  (reported below as eq-raises)
                continue
            ne = bool(ne.any()) if isinstance(ne, np.ndarray) else bool(ne)
            ctx.check(ne == (not eqm[i][j]), "ne-consistent", "C11:ne-inconsistent:" + _cls(pool[i]), "a != b is not the negation of a == b", **wit2)
            if eqm[i][j] and hs[i][0] and hs[j][0]:
                ctx.check(hs[i][1] == hs[j][1], "eq=>hash", "C11:equal-values-different-hash:%s/%s" % tuple(sorted((_cls(pool[i]), _cls(pool[j])))),
                          "a == b but hash(a) != hash(b)", **wit2)
    for i, j, k in itertools.combinations(range(n), 3):
        if not (iscirq[i] or iscirq[j] or iscirq[k]):
            continue
        for a, b, c in ((i, j, k), (j, i, k), (i, k, j)):
            if eqm[a][b] and eqm[b][c]:
                ctx.check(eqm[a][c], "eq-transitive", "C11:eq-not-transitive:" + _cls(pool[a]), "a == b, b == c, a != c",
                          a=repr(pool[a])[:200], b=repr(pool[b])[:200], c=repr(pool[c])[:200])
    # values built twice from the same constructor arguments must be equal (independent knowledge of equality)
    for grp in dup_groups:
        for u, w in itertools.combinations(grp, 2):
            same = _same(u, w)
            ctx.check(same, "rebuilt-equal", _classify([] if same else _sdiff(u, w), [], "C11:same-arguments-not-equal:" + _cls(u), False),
                      "two values built from the same arguments (or a deepcopy) are not equal", gen=name, a=repr(u)[:300])
            hu, hw = _hashable(u), _hashable(w)
            if same and hu[0] and hw[0]:
                ctx.check(hu[1] == hw[1], "rebuilt-equal-hash", "C11:same-arguments-different-hash:" + _cls(u), "", gen=name,
                          a=repr(u)[:300])
    ctx.distinct(("eqhash", name, repr(pool[0])[:300]), nontrivial=sum(eqm[0]) >= 2)
    ctx.sample({"generator": name, "pool": n, "equal_pairs": sum(sum(r) for r in eqm) - n})


# ====================================================================== (4) qid ordering
def _qid_pool(rng, pasqal):
    import cirq
    if pasqal:
        return [JV.q_3d(rng) if rng.random() < 0.6 else JV.q_2d(rng) for _ in range(7)]
    out = []
    for _ in range(8):
        k = int(rng.integers(6))
        x, y = int(rng.integers(0, 3)), int(rng.integers(0, 3))
        d = int(rng.integers(2, 5))
        nm = JV.pick(rng, ["0", "1", "a", "b", "q10", "q9", "q"])
        out.append([lambda: cirq.LineQubit(x), lambda: cirq.GridQubit(x, y), lambda: cirq.NamedQubit(nm),
                    lambda: cirq.LineQid(x, d), lambda: cirq.GridQid(x, y, dimension=d), lambda: cirq.NamedQid(nm, dimension=d)][k]())
    return out


def sec_qidorder(ctx, rng, case):
    pasqal = case % 5 == 4
    pool = _qid_pool(rng, pasqal)
    tagname = "pasqal" if pasqal else "core"

    def lt(a, b):
        return bool(a < b)
    n = len(pool)
    for i in range(n):
        for j in range(i + 1, n):
            a, b = pool[i], pool[j]
            ab, ba, e = lt(a, b), lt(b, a), _eq(a, b)
            wit = dict(a=repr(a), b=repr(b), pool=tagname)
            ctx.check(int(ab) + int(ba) + int(e) == 1, "qid-order:totality", "C11:qid-order-not-total:%s/%s" % tuple(sorted((_cls(a), _cls(b)))),
                      "a<b=%s b<a=%s a==b=%s (exactly one must hold)" % (ab, ba, e), **wit)
            ctx.check(e == (not ab and not ba), "qid-order:eq-consistent", "C11:qid-order-vs-eq:%s/%s" % tuple(sorted((_cls(a), _cls(b)))),
                      "a == b <=> not(a<b) and not(b<a) fails", **wit)
            ctx.check((a <= b) == (ab or e) and (a > b) == ba and (a >= b) == (ba or e), "qid-order:derived-ops",
                      "C11:qid-order-derived:%s/%s" % tuple(sorted((_cls(a), _cls(b)))), "<=, >, >= disagree with < and ==", **wit)
    for a, b, c in itertools.permutations(pool[:6], 3):
        if lt(a, b) and lt(b, c):
            ctx.check(lt(a, c), "qid-order:transitive", "C11:qid-order-not-transitive", "a<b, b<c but not a<c", a=repr(a), b=repr(b), c=repr(c))
    s = sorted(pool)
    perm = [pool[int(i)] for i in rng.permutation(n)]
    s2 = sorted(perm)
    wit = dict(pool=[repr(p) for p in pool])
    ctx.check(all(not lt(s[i + 1], s[i]) for i in range(n - 1)), "qid-order:sorted-nondecreasing", "C11:sorted-not-nondecreasing", "", **wit)
    ctx.check(sorted(s) == s and [repr(p) for p in sorted(s)] == [repr(p) for p in s], "qid-order:sorted-fixed-point",
              "C11:sorted-not-fixed-point", "", **wit)
    ctx.check(all(_eq(u, w) for u, w in zip(s, s2)), "qid-order:sorted-permutation-invariant", "C11:sorted-depends-on-input-order", "", **wit)
    ctx.distinct(("qidorder", tuple(repr(p) for p in pool)), nontrivial=len({repr(p) for p in pool}) >= 3)
    ctx.sample({"pool": [repr(p) for p in pool[:5]]})


# ====================================================================== (5) copies and pickles, as a history
def _fields(diffs):
    return ",".join(sorted({e.owner if e.field in ("<value>", "<root>") else "%s.%s" % (e.owner, e.field) for e in diffs}))[:80]


def _unpicklable_culprit(o, depth=0):
    if depth < 8:
        for c in _children(o)[:40]:
            try:
                pickle.dumps(c)
            except Exception:  # noqa
                return _unpicklable_culprit(c, depth + 1)
    return o


def _copy_history(ctx, x, gen):
    cname = _cls(x)
    wit = dict(gen=gen, repr=repr(x)[:500], cls=cname)
    hx, hashx = _hashable(x)  # first: populates any cached hash
    for how, f in (("copy", copy.copy), ("deepcopy", copy.deepcopy)):
        try:
            c = f(x)
        except Exception as e:  # noqa
            ctx.check(False, "copy-eq", "C11:%s-raises:%s" % (how, _raiser_class(e, x)), "%s(x) raised %s: %s" % (how, type(e).__name__, e),
                      where=_where(e), **wit)
            continue
        ok = _same(c, x)
        d = _sdiff(x, c) if ok else []
        ctx.check(ok and type(c) is type(x), "copy-eq",
                  _classify([] if ok else _sdiff(x, c), [], "C11:%s-not-equal:%s" % (how, _cls(_pair_culprit(x, c)[0])), False),
                  "%s(x) != x" % how, **wit)
        if ok:
            ctx.check(not d, "copy-structure", "C11:%s-loses-field:%s" % (how, _fields(d)),
                      lambda: "%s(x) compares equal but differs in stored fields: %s" % (how, _diff_txt(d)), **wit)
        if hx and ok:
            hc, hashc = _hashable(c)
            ctx.check(hc and hashc == hashx and {x: 1}.get(c) == 1, "copy-hash", "C11:%s-hash:%s" % (how, cname), "", **wit)
    try:
        blob = pickle.dumps(x)
    except (pickle.PicklingError, AttributeError, TypeError) as e:
        cul = _unpicklable_culprit(x)
        ctx.check(False, "pickle-eq", "C11:not-picklable:" + _cls(cul), "pickle.dumps(x) raised %s: %s" % (type(e).__name__, e), **wit)
        return None, hx
    p = pickle.loads(blob)
    ok = _same(p, x)
    d = _sdiff(x, p) if ok else []
    ctx.check(ok and type(p) is type(x), "pickle-eq",
              _classify([] if ok else _sdiff(x, p), [], "C11:pickle-not-equal:" + _cls(_pair_culprit(x, p)[0]), False),
              "pickle round trip differs", **wit)
    if ok:
        ctx.check(not d, "pickle-structure", "C11:pickle-loses-field:%s" % _fields(d),
                  lambda: "pickle round trip compares equal but differs in stored fields: %s" % _diff_txt(d), **wit)
    if hx and ok:
        hp, hashp = _hashable(p)
        ctx.check(hp and hashp == hashx and {x: 1}.get(p) == 1, "pickle-hash", "C11:pickle-hash:" + cname, "", **wit)
    return blob, hx


def _picklable_value(rng, case):
    gens = _S["gens"]
    name, fn = gens[_gen_index(case, len(gens))]
    return name, fn(rng).obj


def sec_copies(ctx, rng, case):
    name, x = _picklable_value(rng, case)
    if case % 6 == 5:
        x = JV.compose(rng, _S["gens"]).obj
        name = "compose"
    _copy_history(ctx, x, name)
    ctx.distinct(("copies", name, repr(x)[:400]), nontrivial=not isinstance(x, (int, float, str, type(None))))
    ctx.sample({"generator": name, "repr": repr(x)[:160]})


def sec_pickle_child(ctx, rng, case):
    """Pickle a batch of hashed values to a child interpreter with another PYTHONHASHSEED."""
    gens = _S["gens"]
    batch_n = 260 if ctx.tier == "quick" else 900
    items, meta = [], []
    base = int(rng.integers(len(gens)))
    for k in range(batch_n):
        name, fn = gens[(base + k) % len(gens)]
        x = fn(rng).obj
        hx, _ = _hashable(x)  # hash first (cached hash populated), then pickle
        if not hx:
            continue
        rx = repr(x)
        try:
            z = _ev(rx)
            if not _same(z, x):
                continue  # judged in section `generated`
        except Exception:  # noqa
            continue
        items.append((len(items), pickle.dumps(x), rx))
        meta.append((name, _cls(x), rx[:400]))
    if not items:
        ctx.inconclusive("pickle-child:no-hashable-values")
        return
    env = dict(os.environ)
    parent_seed = env.get("PYTHONHASHSEED", "0")
    child_seed = str((int(parent_seed) if parent_seed.isdigit() else 0) + 1 + int(rng.integers(1, 1000)))
    env["PYTHONHASHSEED"] = child_seed
    tmpdir = tempfile.mkdtemp(prefix="c11-child-", dir=os.environ.get("PYTHONPYCACHEPREFIX") and os.path.dirname(os.environ["PYTHONPYCACHEPREFIX"]) or None)
    src, dst = os.path.join(tmpdir, "batch.pkl"), os.path.join(tmpdir, "out.json")
    try:
        pickle.dump({"items": items}, open(src, "wb"))
        try:
            r = subprocess.run([sys.executable, "-B", "-m", "vf.workloads.c11_child", src, dst], env=env, timeout=240,
                               capture_output=True, text=True)
        except subprocess.TimeoutExpired:
            ctx.inconclusive("pickle-child:timeout")
            return
        if r.returncode != 0 or not os.path.exists(dst):
            ctx.inconclusive("pickle-child:failed-rc%s" % r.returncode)
            sys.stderr.write("c11 child failed:\n%s\n" % (r.stderr[-1500:],))
            return
        out = json.load(open(dst))
    finally:
        for p in (src, dst):
            try:
                os.remove(p)
            except OSError:
                pass
        try:
            os.rmdir(tmpdir)
        except OSError:
            pass
    if not out.get("root_ok"):
        ctx.inconclusive("pickle-child:wrong-import-root:%s" % out.get("cirq_file"))
        return
    if str(out.get("hashseed")) == str(parent_seed):
        ctx.inconclusive("pickle-child:same-hash-seed")
        return
    ctx.event("pickle-child-batches")
    for rec in out["items"]:
        name, cname, rx = meta[rec["i"]]
        wit = dict(gen=name, cls=cname, repr=rx, child_hashseed=child_seed, parent_hashseed=parent_seed)
        if "skip" in rec:
            ctx.reject("pickle-child:" + rec["skip"])
            continue
        if "error" in rec:
            ctx.check(False, "pickle-child:loads", "C11:pickle-child-error:" + cname, rec["error"], **wit)
            continue
        ctx.check(rec.get("eq", False), "pickle-child:eq", "C11:pickle-child-not-equal:" + cname,
                  "value unpickled in another interpreter != eval(repr) there", **wit)
        if rec.get("unhashable"):
            ctx.check(False, "pickle-child:hash", "C11:pickle-child-unhashable:" + cname, "hashable in the parent, unhashable in the child", **wit)
            continue
        if rec.get("eq"):
            ctx.check(rec.get("hash_eq", False) and rec.get("lookup", False) and rec.get("hash_stable", False), "pickle-child:hash",
                      "C11:stale-hash-after-unpickle",
                      "hash(unpickled) != hash(equal fresh value) in a process with another hash seed (hash_eq=%s lookup=%s stable=%s)"
                      % (rec.get("hash_eq"), rec.get("lookup"), rec.get("hash_stable")), **wit)
        ctx.distinct(("child", cname, rx), nontrivial=True)
    ctx.sample({"batch": len(items), "child_hashseed": child_seed, "parent_hashseed": parent_seed})


SECTIONS = [
    ("corpus", sec_corpus, len(FILES), len(FILES), 1.6),
    ("generated", sec_generated, 15000, 1600000, 4.0),
    ("mutants", sec_mutants, 5000, 320000, 2.0),
    ("composed", sec_composed, 2400, 150000, 1.2),
    ("eqhash", sec_eqhash, 2000, 120000, 1.2),
    ("qidorder", sec_qidorder, 4000, 400000, 0.5),
    ("copies", sec_copies, 4000, 600000, 1.0),
    ("pickle_child", sec_pickle_child, 14, 48, 1.5),
]
