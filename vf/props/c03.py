"""C03 - every library gate has the matrix its documentation defines.

Monitor: cirq.unitary / kraus / mixture / qid_shape / has_unitary observed on
generated gate instances; oracle: closed-form catalogue (vf.refmodel.gates)."""
from __future__ import annotations

import itertools
import math

import numpy as np

from vf.refmodel import gates as G
from vf.refmodel import linalg as L
from vf.workloads import gatepool as GP

PACKAGES = ["cirq_google", "cirq_ionq"]
LEVEL = "exploration"
RULE = ("gate instances drawn per family from a special-value grid (0, +-0.25, +-0.5, +-1, 2, 4, 1e-9, 1+-1e-9, "
        "values outside one period) and uniform reals; a case is non-trivial when the catalogue matrix differs from "
        "the identity by > 1e-6 (or it is a channel with a non-identity Choi matrix); distinct by (family, rounded "
        "parameters)")
ASSUMPTIONS = ["the catalogue in vf/refmodel/gates.py transcribes the docstrings correctly (it is the specification)",
               "tolerance 1e-8 on complex128 matrices"]
MIN_EVAL = {"unitary==catalogue": 500, "channel-choi==catalogue": 50, "named-constant": 30}
MUST_REACH = ["cirq/ops/eigen_gate.py:EigenGate._unitary_", "cirq/ops/fsim_gate.py:PhasedFSimGate._unitary_",
              "cirq/ops/phased_x_z_gate.py:PhasedXZGate._unitary_", "cirq/ops/common_channels.py:DepolarizingChannel._mixture_"]

ATOL = 1e-8
_S = {}


def setup(ctx):
    _S["specs"] = GP.build_specs() + GP.build_vendor_specs()
    _S["chan"] = GP.build_channel_specs()
    _S["consts"] = _constants()


def _pkey(p):
    out = []
    for x in p:
        if isinstance(x, np.ndarray):
            out.append(round(float(np.abs(x).sum()), 6))
        elif isinstance(x, float):
            out.append(round(x, 9))
        else:
            out.append(x)
    return tuple(out)


def sec_families(ctx, rng, case):
    import cirq

    specs = _S["specs"]
    spec = specs[case % len(specs)]
    p = spec.sample(rng)
    gate = spec.make(p)
    ref = spec.ref(p)
    got = cirq.unitary(gate, None)
    wit = dict(family=spec.name, params=p, gate=repr(gate))
    if got is None:
        ctx.check(False, "unitary==catalogue", "C03:no-unitary:" + spec.name, "cirq.unitary returned no matrix", **wit)
        return
    ctx.check(L.allclose(got, ref, ATOL), "unitary==catalogue", "C03:matrix-mismatch:" + spec.name,
              lambda: "max |cirq.unitary - documented matrix| = %.3g" % L.maxdiff(got, ref), got=got, want=ref, **wit)
    ctx.check(tuple(cirq.qid_shape(gate)) == spec.shape, "qid_shape", "C03:qid-shape:" + spec.name,
              "qid_shape %s != %s" % (cirq.qid_shape(gate), spec.shape), **wit)
    ctx.check(cirq.has_unitary(gate) is True, "has_unitary", "C03:has-unitary-false:" + spec.name, "has_unitary False", **wit)
    ctx.check(cirq.num_qubits(gate) == len(spec.shape), "num_qubits", "C03:num-qubits:" + spec.name, "", **wit)
    # second opinion on the eigen families: the literal docstring matrix
    doc = {"XPow": G.xpow_doc, "YPow": G.ypow_doc, "ZPow": G.zpow_doc, "HPow": G.hpow_doc, "CZPow": G.czpow_doc,
           "CXPow": G.cxpow_doc, "SwapPow": G.swappow_doc, "ISwapPow": G.iswappow_doc}.get(spec.name)
    if doc is not None:
        d = doc(p[0], p[1])
        if not L.allclose(d, ref, 1e-9):
            raise AssertionError("catalogue self-inconsistent for %s %r" % (spec.name, p))
        ctx.check(L.allclose(got, d, ATOL), "unitary==docstring-formula", "C03:doc-mismatch:" + spec.name, "", **wit)
    # the operation form on shuffled qubits reports the same matrix
    if spec.shape:
        qs = [cirq.LineQid(i, d) for i, d in enumerate(spec.shape)]
        op = gate.on(*qs)
        ctx.check(L.allclose(cirq.unitary(op), ref, ATOL), "unitary(op)==catalogue", "C03:op-matrix:" + spec.name, "", **wit)
    # read-only queries leave the gate as it is: the same object reports the documented matrix afterwards
    asked = _query_battery(cirq, gate, spec, rng)
    again = cirq.unitary(gate, None)
    ctx.check(again is not None and L.allclose(again, ref, ATOL), "unitary-unchanged-by-queries", "C03:matrix-changed-by-query:" + spec.name,
              lambda: "after %s the same gate object reports a matrix %.3g away from the documented one" % (asked, L.maxdiff(again, ref) if again is not None else float("nan")),
              queries=asked, **wit)
    ctx.distinct((spec.name, _pkey(p)), nontrivial=not L.allclose(ref, np.eye(ref.shape[0]), 1e-6))
    ctx.sample({"family": spec.name, "params": _pkey(p), "gate": repr(gate)[:120]})


def _scribble(cirq, gate):
    arrs = [cirq.unitary(gate, None)] + list(cirq.kraus(gate, ())) + [m for _, m in (cirq.mixture(gate, None) or ()) if isinstance(m, np.ndarray)]
    for a in arrs:
        if isinstance(a, np.ndarray) and a.flags.writeable:
            a[...] = 7.0


def _query_battery(cirq, gate, spec, rng):
    """a few of the library's read-only questions about one gate object (their answers are other properties' business)"""
    other = spec.make(spec.sample(rng))
    qs = [cirq.LineQid(i, d) for i, d in enumerate(spec.shape)]
    queries = [
        ("equal_up_to_global_phase(other)", lambda: cirq.equal_up_to_global_phase(gate, other)),
        ("equal_up_to_global_phase(self)", lambda: cirq.equal_up_to_global_phase(gate, gate)),
        ("equal_up_to_global_phase(other, self)", lambda: cirq.equal_up_to_global_phase(other, gate)),
        ("in Gateset", lambda: gate in cirq.Gateset(other, type(gate))),
        ("GateFamily(self) contains other", lambda: other in cirq.GateFamily(gate)),
        ("approx_eq", lambda: cirq.approx_eq(gate, other, atol=1e-6)),
        ("==/hash", lambda: (gate == other, hash(gate))),
        ("repr/str", lambda: (repr(gate), str(gate))),
        ("pow", lambda: (cirq.pow(gate, 1, None), cirq.pow(gate, 0.5, None), cirq.inverse(gate, None))),
        ("trace_distance_bound", lambda: cirq.trace_distance_bound(gate)),
        ("has_stabilizer_effect", lambda: cirq.has_stabilizer_effect(gate)),
        ("decompose", lambda: cirq.decompose_once_with_qubits(gate, qs, None)),
        ("commutes", lambda: cirq.commutes(gate, other, default=None)),
        ("phase_by", lambda: cirq.phase_by(gate, 0.25, 0, None) if spec.shape else None),
        ("circuit diagram", lambda: cirq.circuit_diagram_info(gate, default=None)),
        ("resolve", lambda: cirq.resolve_parameters(gate, {"a": 1.0})),
    ]
    picked = [queries[int(i)] for i in rng.choice(len(queries), size=int(rng.integers(3, 9)), replace=False)]
    # what the protocols hand out belongs to the caller: overwriting it must not reach the gate
    picked.append(("overwrite the arrays returned by unitary/kraus/mixture", lambda: _scribble(cirq, gate)))
    names = []
    for name, fn in picked:
        try:
            fn()
        except Exception:  # noqa: whether a question is answered or refused is not the subject here
            name += "(raised)"
        names.append(name)
    return names


def sec_channels(ctx, rng, case):
    import cirq

    specs = _S["chan"]
    spec = specs[case % len(specs)]
    p = spec.sample(rng)
    try:
        gate = spec.make(p)
    except ValueError as e:
        ctx.reject("channel-constructor:" + type(e).__name__)
        return
    ref = spec.ref(p)
    want = L.choi(ref)
    ks = cirq.kraus(gate)
    wit = dict(family=spec.name, params=p, gate=repr(gate))
    D = L.dim_of(spec.shape)
    shapes = sorted({tuple(np.shape(k)) for k in ks})
    if not ctx.check(shapes == [(D, D)], "channel-choi==catalogue", "C03:kraus-operator-shape:" + spec.name,
                     "Kraus operators of shapes %r for a gate on a %d-dimensional space" % (shapes, D), **wit):
        return
    ctx.check(L.allclose(L.choi(ks), want, ATOL), "channel-choi==catalogue", "C03:kraus-mismatch:" + spec.name,
              lambda: "Choi of cirq.kraus differs by %.3g" % L.maxdiff(L.choi(ks), want), **wit)
    ctx.check(L.is_trace_preserving(ks, ATOL), "channel-trace-preserving", "C03:kraus-not-tp:" + spec.name, "", **wit)
    ctx.check(cirq.has_kraus(gate), "has_kraus", "C03:has-kraus-false:" + spec.name, "", **wit)
    ctx.check(tuple(cirq.qid_shape(gate)) == spec.shape, "qid_shape", "C03:qid-shape:" + spec.name, "", **wit)
    mix = cirq.mixture(gate, None)
    ctx.check((mix is not None) == cirq.has_mixture(gate), "has_mixture-consistent", "C03:has-mixture:" + spec.name, "", **wit)
    if mix is not None:
        ps = [float(q) for q, _ in mix]
        ok = abs(sum(ps) - 1) < 1e-8 and all(q >= -1e-12 for q in ps) and \
            all(tuple(np.shape(u)) == (D, D) and L.is_unitary(u, 1e-7) for _, u in mix)
        ctx.check(ok, "mixture-valid", "C03:mixture-invalid:" + spec.name, "probabilities %r" % ps, **wit)
        mk = [math.sqrt(max(q, 0)) * np.asarray(u) for q, u in mix]
        ctx.check(ok and L.allclose(L.choi(mk), want, ATOL), "mixture-choi==catalogue", "C03:mixture-mismatch:" + spec.name, "", **wit)
    ident = L.choi([np.eye(L.dim_of(spec.shape))])
    ctx.distinct((spec.name, _pkey(p)), nontrivial=not L.allclose(want, ident, 1e-6))
    ctx.sample({"family": spec.name, "params": _pkey(p)})


def _constants():
    import cirq
    import cirq_google

    pi = math.pi
    E = G.eigen_gate
    c = [
        ("X", cirq.X, G.X), ("Y", cirq.Y, G.Y), ("Z", cirq.Z, G.Z), ("H", cirq.H, G.H),
        ("S", cirq.S, np.diag([1, 1j])), ("T", cirq.T, np.diag([1, np.exp(1j * pi / 4)])),
        ("I", cirq.I, G.I2),
        ("CZ", cirq.CZ, np.diag([1, 1, 1, -1])), ("CNOT", cirq.CNOT, E("CXPow", 1)), ("CX", cirq.CX, E("CXPow", 1)),
        ("SWAP", cirq.SWAP, G.SWAP),
        ("ISWAP", cirq.ISWAP, G.iswappow_doc(1)), ("ISWAP_INV", cirq.ISWAP_INV, G.iswappow_doc(-1)),
        ("SQRT_ISWAP", cirq.SQRT_ISWAP, G.iswappow_doc(0.5)), ("SQRT_ISWAP_INV", cirq.SQRT_ISWAP_INV, G.iswappow_doc(-0.5)),
        ("XX", cirq.XX, np.kron(G.X, G.X)), ("YY", cirq.YY, np.kron(G.Y, G.Y)), ("ZZ", cirq.ZZ, np.kron(G.Z, G.Z)),
        ("CCZ", cirq.CCZ, np.diag([1] * 7 + [-1])), ("CCX", cirq.CCX, E("CCXPow", 1)), ("CCNOT", cirq.CCNOT, E("CCXPow", 1)),
        ("TOFFOLI", cirq.TOFFOLI, E("CCXPow", 1)), ("CSWAP", cirq.CSWAP, G.CSWAP), ("FREDKIN", cirq.FREDKIN, G.CSWAP),
        ("SYC", cirq_google.SYC, G.syc()), ("WILLOW", cirq_google.WILLOW, G.willow()),
    ]
    cy = np.eye(4, dtype=complex)
    cy[2:, 2:] = G.Y
    if hasattr(cirq, "CY"):
        c.append(("CY", cirq.CY, cy))
    if hasattr(cirq, "CCY"):
        ccy = np.eye(8, dtype=complex)
        ccy[6:, 6:] = G.Y
        c.append(("CCY", cirq.CCY, ccy))
    cx = E("CXPow", 1)
    cxr = L.permute_wires(cx, [1, 0], (2, 2))
    # CXSWAP / CZSWAP: "SWAP . CX" compositions; documented as products
    if hasattr(cirq, "CXSWAP"):
        c.append(("CXSWAP", cirq.CXSWAP, G.SWAP @ cx))
    if hasattr(cirq, "CZSWAP"):
        c.append(("CZSWAP", cirq.CZSWAP, G.SWAP @ np.diag([1, 1, 1, -1])))
    return c


def sec_constants(ctx, rng, case):
    import cirq

    consts = _S["consts"]
    name, gate, ref = consts[case % len(consts)]
    got = cirq.unitary(gate)
    ctx.check(L.allclose(got, ref, ATOL), "named-constant", "C03:constant:" + name,
              lambda: "cirq.%s differs from its documented matrix by %.3g" % (name, L.maxdiff(got, ref)), name=name)
    ctx.distinct(("const", name), nontrivial=name != "I")
    ctx.sample({"constant": name})


def sec_special(ctx, rng, case):
    """Families whose documentation defines them by a formula over other data."""
    import cirq

    kind = case % 9
    if kind == 0:  # PauliInteractionGate
        paulis = [cirq.X, cirq.Y, cirq.Z]
        mats = [G.X, G.Y, G.Z]
        i0, i1 = int(rng.integers(3)), int(rng.integers(3))
        inv0, inv1 = bool(rng.integers(2)), bool(rng.integers(2))
        t = GP.pick_exp(rng)
        g = cirq.PauliInteractionGate(paulis[i0], inv0, paulis[i1], inv1, exponent=t)
        P0 = (G.I2 + (1 if inv0 else -1) * mats[i0]) / 2
        P1 = (G.I2 + (1 if inv1 else -1) * mats[i1]) / 2
        P = np.kron(P0, P1)
        ref = np.eye(4) + (np.exp(1j * math.pi * t) - 1) * P
        ctx.check(L.allclose(cirq.unitary(g), ref, ATOL), "unitary==catalogue", "C03:matrix-mismatch:PauliInteraction", "",
                  params=(i0, inv0, i1, inv1, t))
        ctx.distinct(("PI", i0, inv0, i1, inv1, round(t, 9)), nontrivial=abs(t % 2) > 1e-6)
    elif kind == 1:  # riswap / cirq.rx family helpers
        a = GP.pick_ang(rng)
        ref = L.expm_herm((np.kron(G.X, G.X) + np.kron(G.Y, G.Y)) / 2, 1j * a)
        ctx.check(L.allclose(cirq.unitary(cirq.riswap(a)), ref, ATOL), "unitary==catalogue", "C03:matrix-mismatch:riswap", "", a=a)
        ctx.distinct(("riswap", round(a, 9)), nontrivial=abs(math.sin(a)) > 1e-6)
    elif kind == 2:  # BooleanHamiltonianGate: diagonal, relative phases linear in the number of true expressions
        n = int(rng.integers(1, 4))
        names = ["x%d" % i for i in range(n)]
        exprs, funcs = [], []
        for _ in range(int(rng.integers(1, 4))):
            k = int(rng.integers(1, n + 1))
            vs = [int(v) for v in rng.choice(n, size=k, replace=False)]
            op = ["^", "&", "|"][int(rng.integers(3))]
            exprs.append((" %s " % op).join(names[v] for v in vs))
            funcs.append((op, vs))
        theta = GP.pick_ang(rng)
        g = cirq.BooleanHamiltonianGate(names, exprs, theta)
        u = cirq.unitary(g)
        counts = []
        for x in range(2 ** n):
            bits = [(x >> (n - 1 - i)) & 1 for i in range(n)]
            tot = 0
            for op, vs in funcs:
                b = [bits[v] for v in vs]
                tot += {"^": sum(b) % 2, "&": int(all(b)), "|": int(any(b))}[op]
            counts.append(tot)
        counts = np.array(counts)
        diag_ok = L.allclose(u, np.diag(np.diag(u)), ATOL)
        cands = [np.exp(sgn * 0.5j * theta * (counts - counts[0])) for sgn in (1, -1)]
        rel = np.diag(u) / np.diag(u)[0]
        ok = diag_ok and any(L.allclose(rel, cnd, 1e-7) for cnd in cands)
        ctx.check(ok, "unitary==catalogue", "C03:matrix-mismatch:BooleanHamiltonian",
                  "phases not exp(+-i theta/2 * #true expressions) up to global phase", exprs=exprs, theta=theta)
        ctx.distinct(("BH", tuple(exprs), round(theta, 9)), nontrivial=len(set(counts)) > 1 and abs(math.sin(theta / 2)) > 1e-6)
    elif kind == 3:  # UniformSuperpositionGate: action on |0..0>
        n = int(rng.integers(1, 5))
        m = int(rng.integers(1, 2 ** n + 1))
        g = cirq.UniformSuperpositionGate(m, n)
        u = cirq.unitary(g)
        want = np.zeros(2 ** n)
        want[:m] = 1 / math.sqrt(m)
        ctx.check(L.is_unitary(u, 1e-7) and L.allclose(u[:, 0], want, 1e-7), "unitary==catalogue",
                  "C03:matrix-mismatch:UniformSuperposition", "U|0> is not the uniform superposition on [0,M)", m=m, n=n)
        ctx.distinct(("US", m, n), nontrivial=m > 1)
    elif kind == 4:  # StatePreparationChannel
        n = int(rng.integers(1, 4))
        psi = L.random_state(rng, 2 ** n)
        g = cirq.StatePreparationChannel(psi)
        ks = cirq.kraus(g)
        want = L.choi([np.outer(psi, np.eye(2 ** n)[i]) for i in range(2 ** n)])
        ctx.check(L.allclose(L.choi(ks), want, 1e-7), "channel-choi==catalogue", "C03:kraus-mismatch:StatePreparation", "", n=n)
        ctx.distinct(("SP", n, round(float(abs(psi[0])), 6)))
    elif kind == 5:  # KrausChannel / MixedUnitaryChannel / RandomGateChannel
        n = int(rng.integers(1, 3))
        d = 2 ** n
        k = int(rng.integers(1, 4))
        big = L.haar_unitary(rng, d * k)
        ks = [big[i * d:(i + 1) * d, :d] for i in range(k)]  # isometry blocks: sum K^dag K = I
        ch = cirq.KrausChannel(ks, validate=True)
        ctx.check(L.allclose(L.choi(cirq.kraus(ch)), L.choi(ks), ATOL), "channel-choi==catalogue", "C03:kraus-mismatch:KrausChannel", "")
        ps = rng.dirichlet(np.ones(k))
        us = [L.haar_unitary(rng, d) for _ in range(k)]
        mu = cirq.MixedUnitaryChannel(list(zip([float(x) for x in ps], us)), validate=True)
        want = L.choi([math.sqrt(q) * u for q, u in zip(ps, us)])
        ctx.check(L.allclose(L.choi(cirq.kraus(mu)), want, ATOL), "channel-choi==catalogue", "C03:kraus-mismatch:MixedUnitaryChannel", "")
        pr = GP.pick_prob(rng)
        e = GP.pick_exp(rng)
        rg = cirq.RandomGateChannel(sub_gate=cirq.X ** e, probability=pr)
        want = L.choi([math.sqrt(pr) * G.eigen_gate("XPow", e), math.sqrt(1 - pr) * G.I2])
        ctx.check(L.allclose(L.choi(cirq.kraus(rg)), want, ATOL), "channel-choi==catalogue", "C03:kraus-mismatch:RandomGateChannel", "", p=pr, e=e)
        rg2 = cirq.bit_flip(0.25).with_probability(pr) if hasattr(cirq.bit_flip(0.25), "with_probability") else None
        if rg2 is not None:
            want = L.choi([math.sqrt(pr) * k_ for k_ in G.bit_flip(0.25)] + [math.sqrt(1 - pr) * G.I2])
            ctx.check(L.allclose(L.choi(cirq.kraus(rg2)), want, ATOL), "channel-choi==catalogue", "C03:kraus-mismatch:RandomGateChannel(channel)", "", p=pr)
        ctx.distinct(("KC", n, k, round(pr, 6), round(e, 6)))
    elif kind == 6:  # exponent periodicity: e and e+period have the same documented matrix and the same cirq matrix
        specs = [s for s in _S["specs"] if s.eigen and "qudit" not in s.tags]
        spec = specs[int(rng.integers(len(specs)))]
        e = GP.pick_exp(rng)
        k = int(rng.integers(-3, 4))
        per = 4 if spec.name == "ISwapPow" else 2  # eigen half-turns +-1/2 -> period 4
        g1, g2 = spec.make((e, 0.0)), spec.make((e + per * k, 0.0))
        ref = spec.ref((e, 0.0))
        ok = L.allclose(cirq.unitary(g1), ref, ATOL) and L.allclose(cirq.unitary(g2), ref, 1e-7)
        ctx.check(ok, "unitary==catalogue", "C03:period:" + spec.name, "matrix not periodic in the exponent (shift 0)", e=e, k=k)
        ctx.distinct(("per", spec.name, round(e, 9), k), nontrivial=k != 0)
    elif kind == 7:  # measurement / reset / wait / identity-like: documented as Kraus projectors / identity
        d = int(rng.integers(2, 4))
        g = cirq.MeasurementGate(1, key="m", qid_shape=(d,))
        ks = cirq.kraus(g)
        proj = []
        for i in range(d):
            P = np.zeros((d, d))
            P[i, i] = 1
            proj.append(P)
        ctx.check(L.allclose(L.choi(ks), L.choi(proj), ATOL), "channel-choi==catalogue", "C03:kraus-mismatch:Measurement", "", d=d)
        w = cirq.WaitGate(cirq.Duration(nanos=int(rng.integers(1, 100))), qid_shape=(d,))
        ctx.check(L.allclose(cirq.unitary(w), np.eye(d), ATOL), "unitary==catalogue", "C03:matrix-mismatch:WaitGate", "")
        ctx.distinct(("meas", d))
    else:  # ParallelGate = kron of copies
        specs = [s for s in _S["specs"] if s.shape == (2,)]
        spec = specs[int(rng.integers(len(specs)))]
        p = spec.sample(rng)
        n = int(rng.integers(1, 4))
        g = cirq.ParallelGate(spec.make(p), n)
        ref = L.kron(*[spec.ref(p)] * n)
        ctx.check(L.allclose(cirq.unitary(g), ref, ATOL), "unitary==catalogue", "C03:matrix-mismatch:ParallelGate", "", family=spec.name, n=n)
        ctx.distinct(("par", spec.name, _pkey(p), n), nontrivial=not L.allclose(ref, np.eye(2 ** n), 1e-6))


SECTIONS = [
    ("families", sec_families, 9000, 200000, 3.0),
    ("channels", sec_channels, 1500, 40000, 1.0),
    ("constants", sec_constants, 40, 40, 0.2),
    ("special", sec_special, 1800, 40000, 1.5),
]
