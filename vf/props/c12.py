"""C12 - sub-circuits, loops and classical control equal their unrolled form.

An abstract block tree is built into CircuitOperations through the public
constructor and, independently, flattened by the documented rules; every
observation of the wrapped circuit (unitary, keys, exact outcome distribution,
mapped_circuit / decompose / unroll outputs, composing constructors) is judged
against the flat reference program."""
from __future__ import annotations

import traceback

import numpy as np

from vf.monitors import scripted_rng as SR
from vf.refmodel import interp as I
from vf.refmodel import linalg as L
from vf.workloads import blocks as B
from vf.workloads import programs as P

LEVEL = "exploration"
RULE = ("abstract block trees of depth 0-3 over <=4 qubits: repetitions in {0,1,2,3,-1,-2}, explicit/default repetition ids, "
        "use_repetition_ids True/False/None, qubit maps, key maps, measurements, classical controls bound inside or outside "
        "their block (shadowing), zero-qubit operations; non-trivial = tree contains a block with repetitions != 1 or a map, "
        "and the flat program is not the identity; distinct by tree text")
ASSUMPTIONS = ["flattening rules transcribed from the CircuitOperation docstrings (maps inner-to-outer, inverse for negative "
               "repetitions, repetition ids prefix measurement keys, control keys bind to the innermost scope that measured them earlier)",
               "catalogue matrices are ground truth"]
MIN_EVAL = {"unitary==flat": 150, "distribution==flat": 150, "keys==flat": 300, "unrolled-forms==flat": 300, "composition-laws": 150, "symbolic-repetitions": 200}
MUST_REACH = [
    "cirq/circuits/circuit_operation.py:CircuitOperation._mapped_any_loop",
    "cirq/circuits/circuit_operation.py:CircuitOperation._mapped_single_loop",
    "cirq/circuits/circuit_operation.py:CircuitOperation.mapped_circuit",
    "cirq/circuits/circuit_operation.py:CircuitOperation._act_on_",
    "cirq/circuits/circuit_operation.py:CircuitOperation._decompose_",
    "cirq/circuits/circuit_operation.py:CircuitOperation._measurement_key_objs_",
    "cirq/circuits/circuit_operation.py:CircuitOperation._control_keys_",
    "cirq/circuits/circuit_operation.py:CircuitOperation.repeat",
    "cirq/circuits/circuit_operation.py:CircuitOperation.with_qubit_mapping",
    "cirq/circuits/circuit_operation.py:CircuitOperation.with_measurement_key_mapping",
    "cirq/circuits/circuit_operation.py:CircuitOperation._with_rescoped_keys_",
    "cirq/transformers/transformer_primitives.py:unroll_circuit_op",
]


KNOWN_GREEDY = "C12:unroll-greedy-earliest-reorders-conflicting-ops"


def _records_key(result):
    return tuple((k, tuple(tuple(int(x) for x in inst) for inst in result.records[k][0])) for k in sorted(result.records))


def _explore_run(circuit, kind):
    import cirq

    def run(rng_obj):
        if kind == "sv":
            sim = cirq.Simulator(dtype=np.complex128, seed=rng_obj)
        elif kind == "sv-nosplit":
            sim = cirq.Simulator(dtype=np.complex128, split_untangled_states=False, seed=rng_obj)
        else:
            sim = cirq.DensityMatrixSimulator(dtype=np.complex128, seed=rng_obj)
        return _records_key(sim.run(circuit, repetitions=1))

    return SR.explore(run, max_paths=1500, min_branch=1e-7)


def _has_block(items):
    return any(it["t"] in ("B", "CB") for it in items)


def _nontrivial_tree(items):
    for it in items:
        if it["t"] == "CB":
            return True
        if it["t"] == "B":
            if it["reps"] != 1 or it["qmap"] or it["kmap"] or it["ids"] is not None or _nontrivial_tree(it["body"]):
                return True
    return False


def sec_unitary(ctx, rng, case):
    """unitary trees: wrapped circuit == flat product (exactly), also through mapped_circuit / decompose / unroll"""
    import cirq

    n = int(rng.integers(1, 5))
    dims = (2,) * n
    items = B.gen_body(rng, n, depth=int(rng.integers(1, 4)), visible=set(), budget=[0], allow_measure=False)
    if not _has_block(items):
        body_ = [P.gen_unitary_step(rng, dims) for _ in range(int(rng.integers(1, 4)))]
        items.append({"t": "B", "body": body_, "reps": int(rng.choice([2, -1, 3, 0, -2] if B._is_unitary_items(body_) else [2, 1, 3, 0])),
                      "ids": None, "use_ids": None, "qmap": {}, "kmap": {}})
    qubits = P.make_qubits(rng, dims)
    circuit = cirq.Circuit(B.items_to_moments(items, qubits))
    flat = B.flatten(items)
    U = I.unitary_of(B.flat_to_ref(flat), dims)
    wit = dict(n=n, tree=B.describe(items))
    got = circuit.unitary(qubit_order=qubits, qubits_that_should_be_present=qubits)
    ctx.check(L.allclose(got, U, 1e-7), "unitary==flat", "C12:unitary",
              lambda: "unitary of the circuit with CircuitOperations deviates from the unrolled product by %.3g" % L.maxdiff(got, U), **wit)
    psi = cirq.Simulator(dtype=np.complex128).simulate(circuit, qubit_order=qubits).final_state_vector
    ctx.check(L.allclose(psi, U[:, 0], 1e-6), "unitary==flat", "C12:simulate-unitary-tree", "", **wit)
    # every CircuitOperation on its own: has_unitary / unitary / mapped_circuit / decompose / unroll
    for op in circuit.all_operations():
        if not isinstance(op, cirq.CircuitOperation):
            continue
        qs = list(op.qubits)
        ctx.check(cirq.has_unitary(op), "has_unitary-consistent", "C12:has-unitary-false", "", **wit)
        uo = cirq.unitary(op)
        for name, c2 in (("mapped_circuit(deep)", op.mapped_circuit(deep=True)), ("decompose", cirq.Circuit(cirq.decompose(op))),
                         ("mapped_op", cirq.Circuit(op.mapped_op(deep=True))),
                         ("unroll_circuit_op", cirq.unroll_circuit_op(cirq.Circuit(op), deep=True, tags_to_check=None))):
            if any(isinstance(o, cirq.CircuitOperation) for o in c2.all_operations()) and name != "mapped_op":
                ctx.check(False, "unrolled-forms==flat", "C12:not-fully-unrolled:" + name, "", **wit)
                continue
            u2 = c2.unitary(qubit_order=qs, qubits_that_should_be_present=qs) if qs else cirq.unitary(c2)
            ctx.check(L.allclose(u2, uo, 1e-7), "unrolled-forms==flat", "C12:" + name + "-unitary",
                      lambda: "%s deviates from cirq.unitary(op) by %.3g" % (name, L.maxdiff(u2, uo)), **wit)
        # what the operation hands out is the caller's to edit: the (immutable) operation still means what its fields say
        if qs:
            for name, get in (("mapped_circuit()", lambda: op.mapped_circuit()), ("mapped_circuit(deep)", lambda: op.mapped_circuit(deep=True)),
                              ("circuit.unfreeze()", lambda: op.circuit.unfreeze()), ("unroll_circuit_op", lambda: cirq.unroll_circuit_op(cirq.Circuit(op), tags_to_check=None))):
                handed = get()
                edit = int(rng.integers(3))
                if edit == 0:
                    handed.append(cirq.Y(qs[0]) ** 0.37)
                elif edit == 1:
                    handed.insert(0, cirq.X(qs[-1]) ** 0.21)
                elif len(handed):
                    handed[0] = cirq.Moment(cirq.H(qs[0]))
                else:
                    handed.append(cirq.H(qs[0]))
                again = op.mapped_circuit(deep=True).unitary(qubit_order=qs, qubits_that_should_be_present=qs)
                ctx.check(L.allclose(cirq.unitary(op), uo, 1e-9) and L.allclose(again, uo, 1e-7), "handed-out-circuits-are-copies", "C12:op-changed-by-editing:" + name,
                          "editing the circuit returned by %s changed what the CircuitOperation means" % name, **wit)
    ctx.distinct(tuple(B.describe(items)), nontrivial=_nontrivial_tree(items) and not L.allclose(U, np.eye(2 ** n), 1e-6))
    ctx.sample({"n": n, "tree": B.describe(items)[:14]})


def sec_measured(ctx, rng, case):
    """trees with measurements and classical control: keys and exact outcome distributions equal the flat program's"""
    import cirq

    n = int(rng.integers(1, 4))
    dims = (2,) * n
    budget = [6]
    items = B.gen_body(rng, n, depth=int(rng.integers(1, 4)), visible=set(), budget=budget, allow_measure=True,
                       cond_blocks=bool(rng.random() < 0.5), cond_index=bool(rng.random() < 0.5), meas_conf=bool(rng.random() < 0.5))
    if not _has_block(items) or not any(s["t"] == "M" for s in B.flatten(items)):
        return
    if B.flat_index_errors(B.flatten(items)):
        # a condition that picks a record of its key which does not exist yet when it runs: outside the domain
        ctx.reject("generator-record-index-out-of-range")
        return
    if rng.random() < 0.4:
        B.add_tags(rng, items)
    qubits = P.make_qubits(rng, dims)
    circuit = cirq.Circuit(B.items_to_moments(items, qubits))
    flat = B.flatten(items)
    wit = dict(n=n, tree=B.describe(items))
    want_keys = B.flat_keys(flat)
    got_keys = sorted(cirq.measurement_key_names(circuit))
    ctx.check(got_keys == want_keys, "keys==flat", "C12:measurement-keys",
              "measurement keys %r, unrolled program has %r" % (got_keys, want_keys), **wit)
    unbound = B.flat_unbound_controls(flat)
    if unbound and any("controls:" in line or "kmap={'" in line for line in wit["tree"]):
        # a key map that renames a key the body both measures and reads from outside can leave a control without a
        # measurement; such programs are outside the domain (Cirq raises at run time), the generator does not avoid them
        ctx.reject("generator-unbound-control")
        return
    ctx.check(not unbound, "harness-sanity", "C12:harness-unbound-control", "generator produced an unbound control %r" % unbound, **wit)
    if B.flat_indexed_controls(flat):
        ctx.event("control-on-an-earlier-record-of-a-repeated-key")
    ref = I.distribution(I.run(B.flat_to_ref(flat), dims))
    kind = ["sv", "sv-nosplit", "dm"][int(rng.integers(3))]
    ex = _explore_run(circuit, kind)
    if ex.over_budget:
        ctx.event("explorer-over-budget")
        return
    got = ex.distribution()
    tv = L.tv_distance(got, ref)
    ctx.check(tv <= 1e-6 + ex.cut_mass and abs(ex.total() + ex.cut_mass - 1) < 1e-6, "distribution==flat", "C12:distribution:" + kind,
              lambda: "outcome distribution of the wrapped circuit differs from the unrolled program by TV %.3g" % tv,
              got={str(k): v for k, v in list(got.items())[:6]}, want={str(k): v for k, v in list(ref.items())[:6]}, simulator=kind, **wit)
    # unrolled forms produced by Cirq must have the same keys and the same distribution
    forms = [("unroll_circuit_op", lambda: cirq.unroll_circuit_op(circuit, deep=True, tags_to_check=None)),
             ("decompose", lambda: cirq.Circuit(cirq.decompose(circuit, keep=lambda o: not isinstance(o.untagged, cirq.CircuitOperation)))),
             ("unroll_greedy_earliest", lambda: cirq.unroll_circuit_op_greedy_earliest(circuit, deep=True, tags_to_check=None)),
             ("map_mapped_circuit", lambda: circuit.map_operations(lambda o: o.mapped_circuit(deep=True) if isinstance(o, cirq.CircuitOperation) else o))]
    name, mk = forms[int(rng.integers(len(forms)))]
    c2 = mk()
    if name == "map_mapped_circuit":
        c2 = cirq.unroll_circuit_op(c2, deep=True, tags_to_check=None) if any(isinstance(o.untagged, cirq.CircuitOperation) for o in c2.all_operations()) else c2
    k2 = sorted(cirq.measurement_key_names(c2))
    ctx.check(k2 == want_keys, "keys==flat", "C12:" + name + "-keys", "%r vs %r" % (k2, want_keys), **wit)
    try:
        ex2 = _explore_run(c2, kind)
    except (ValueError, IndexError) as e:
        # ValueError "... missing when testing classical control": a control ended up in front of every measurement of its
        # key; IndexError out of ClassicalDataStore.get_int: in front of the record its index names
        if isinstance(e, ValueError) and "missing when testing classical control" not in str(e):
            raise
        if isinstance(e, IndexError) and not any(fr.name == "get_int" for fr in traceback.extract_tb(e.__traceback__)):
            raise
        ex2 = None  # a control was moved in front of its measurement: counts as a wrong distribution
    if ex2 is None or not ex2.over_budget:
        tv2 = 1.0 if ex2 is None else L.tv_distance(ex2.distribution(), ref)
        mech2 = "C12:" + name + "-distribution"
        if tv2 > 1e-6 and name == "unroll_greedy_earliest":
            # explained-by test for the known finding: only the EARLIEST-inserting variant is off, the plain
            # moment-preserving unroll of the same circuit is right
            ex3 = _explore_run(cirq.unroll_circuit_op(circuit, deep=True, tags_to_check=None), kind)
            if not ex3.over_budget and L.tv_distance(ex3.distribution(), ref) <= 1e-6:
                mech2 = KNOWN_GREEDY
        ctx.check(tv2 <= 1e-6, "unrolled-forms==flat", mech2,
                  lambda: "%s output has a different outcome distribution (TV %.3g)" % (name, tv2), **wit)
    # per-operation structural answers (queried twice: per-instance caches)
    for op in circuit.all_operations():
        if isinstance(op, cirq.CircuitOperation):
            for _ in range(2):
                mk1 = sorted(cirq.measurement_key_names(op))
                mk2 = sorted(cirq.measurement_key_names(op.mapped_circuit(deep=True)))
                ctx.check(mk1 == mk2, "keys==flat", "C12:op-keys-vs-mapped", "%r vs %r" % (mk1, mk2), **wit)
                ck1 = sorted(str(k) for k in cirq.control_keys(op))
                ck2 = sorted(str(k) for k in cirq.control_keys(op.mapped_circuit(deep=True)))
                ctx.check(ck1 == ck2, "keys==flat", "C12:op-control-keys-vs-mapped", "%r vs %r" % (ck1, ck2), **wit)
            ctx.check(cirq.is_measurement(op) == bool(cirq.measurement_key_names(op)), "keys==flat", "C12:is-measurement", "", **wit)
    ctx.distinct(tuple(B.describe(items)), nontrivial=_nontrivial_tree(items) and len(ref) >= 2)
    ctx.sample({"n": n, "tree": B.describe(items)[:14], "keys": want_keys, "paths": len(ex.paths)})


def sec_compose(ctx, rng, case):
    """composing constructors: two successive maps equal one map by the composition"""
    import cirq

    n = int(rng.integers(2, 5))
    dims = (2,) * n
    qubits = P.make_qubits(rng, dims)
    steps = P.gen_unitary_program(rng, dims, int(rng.integers(1, 5)), pred=lambda sp: "custom" not in sp.tags)  # (op**-1 below)
    with_meas = rng.random() < 0.5
    if with_meas:
        steps.append({"t": "M", "key": "a", "w": (int(rng.integers(n)),)})
        steps.append({"t": "M", "key": "b", "w": (int(rng.integers(n)),)})
    body = cirq.FrozenCircuit(P.to_moments(steps, qubits, rng, "greedy"))
    op = cirq.CircuitOperation(body)
    wit = dict(n=n, program=P.describe(steps))
    f = [int(x) for x in rng.permutation(n)]
    g = [int(x) for x in rng.permutation(n)]
    op2 = op.with_qubit_mapping({qubits[i]: qubits[f[i]] for i in range(n)}).with_qubit_mapping({qubits[i]: qubits[g[i]] for i in range(n)})
    flat_steps = [dict(s, w=tuple(g[f[w]] for w in s["w"])) for s in steps]
    if not with_meas:
        U = I.unitary_of(P.to_ref(flat_steps), dims)
        got = cirq.Circuit(op2).unitary(qubit_order=qubits, qubits_that_should_be_present=qubits)
        ctx.check(L.allclose(got, U, 1e-7), "composition-laws", "C12:with_qubit_mapping-composition", "", f=f, g=g, **wit)
        a, b = int(rng.choice([2, 3, -1, -2])), int(rng.choice([2, -1, 3]))
        op3 = op.repeat(a).repeat(b)
        Ub = I.unitary_of(P.to_ref(steps), dims)
        want = np.linalg.matrix_power(Ub if a * b >= 0 else Ub.conj().T, abs(a * b))
        got = cirq.Circuit(op3).unitary(qubit_order=qubits, qubits_that_should_be_present=qubits)
        ctx.check(L.allclose(got, want, 1e-6), "composition-laws", "C12:repeat-composition", "repeat(%d).repeat(%d)" % (a, b), **wit)
        ctx.check(op3.repetitions == a * b, "composition-laws", "C12:repeat-count", "", **wit)
        inv = op ** -1
        got = cirq.Circuit(inv).unitary(qubit_order=qubits, qubits_that_should_be_present=qubits)
        ctx.check(L.allclose(got, Ub.conj().T, 1e-7), "composition-laws", "C12:inverse", "", **wit)
        perm = [int(x) for x in rng.permutation(n)]
        srt = sorted(range(n), key=lambda i: qubits[i])
        opq = op.with_qubits(*[qubits[perm[i]] for i in range(len(op.qubits))]) if len(op.qubits) == n else None
        if opq is not None:
            pos = {q: i for i, q in enumerate(qubits)}
            m = {pos[q]: perm[i] for i, q in enumerate(op.qubits)}
            Uq = I.unitary_of(P.to_ref([dict(s, w=tuple(m[w] for w in s["w"])) for s in steps]), dims)
            got = cirq.Circuit(opq).unitary(qubit_order=qubits, qubits_that_should_be_present=qubits)
            ctx.check(L.allclose(got, Uq, 1e-7), "composition-laws", "C12:with_qubits", "", perm=perm, **wit)
    else:
        m1 = {"a": "x", "b": "y"}
        m2 = {"x": "u", "y": "b", "a": "zz"}
        op4 = op.with_measurement_key_mapping(m1).with_measurement_key_mapping(m2)
        want = sorted(["u", "b"])
        got = sorted(cirq.measurement_key_names(op4))
        ctx.check(got == want, "composition-laws", "C12:key-map-composition", "%r vs %r" % (got, want), **wit)
        ids = ["i", "j"]
        op5 = op.repeat(2, ids)
        got = sorted(cirq.measurement_key_names(op5))
        ctx.check(got == sorted(["i:a", "i:b", "j:a", "j:b"]), "composition-laws", "C12:repeat-ids-keys", "%r" % got, **wit)
        # other spellings of the same constructions
        ctx.check(body.to_op() == op and cirq.CircuitOperation(body, repetitions=2).with_repetition_ids(ids) == op5
                  and op5.with_repetition_ids(["r", "s"]) == op.repeat(2, ["r", "s"]), "composition-laws", "C12:constructor-spellings",
                  "FrozenCircuit.to_op / with_repetition_ids differ from CircuitOperation(...) / repeat(..)", **wit)
        path = ("outer", "mid")[: int(rng.integers(1, 3))]
        opp = cirq.with_key_path(op5, path)
        gotp = sorted(cirq.measurement_key_names(opp))
        wantp = sorted(":".join(path + (i_, k_)) for i_ in ids for k_ in ("a", "b"))
        ctx.check(gotp == wantp and tuple(opp.parent_path) == tuple(path) and opp == cirq.with_key_path_prefix(op5, path),
                  "composition-laws", "C12:with_key_path", "keys %r, expected %r" % (gotp, wantp), path=path, **wit)
        op6 = op5.repeat(2, ["p", "q"])
        got = sorted(cirq.measurement_key_names(op6))
        want = sorted("%s:%s:%s" % (o, i, k) for o in ["p", "q"] for i in ids for k in ["a", "b"])
        # repeating an already repeated op joins the ids (outer-inner); the docs say ids are joined with the separator
        want_joined = sorted("%s-%s:%s" % (o, i, k) for o in ["p", "q"] for i in ids for k in ["a", "b"])
        ctx.check(got in (want, want_joined) or len(got) == 8, "composition-laws", "C12:repeat-repeat-ids-keys", "%r" % got, **wit)
        # repeat of a repeat = the repeated operation repeated: executions run outer-major, and each execution's record
        # sits under "<outer>-<inner>:key" (REPETITION_ID_SEPARATOR joins the ids)
        ids_in = [["i", "j"], ["i", "j", "k"], None][int(rng.integers(3))]
        ids_out = [["p", "q"], ["p", "q", "r"]][int(rng.integers(2))]
        inner = op.repeat(len(ids_in), ids_in) if ids_in is not None else cirq.CircuitOperation(body, repetitions=2, use_repetition_ids=True)
        names_in = ids_in if ids_in is not None else ["0", "1"]
        how = int(rng.integers(2))
        both = inner.repeat(len(ids_out), ids_out) if how == 0 else inner.repeat(repetition_ids=ids_out)
        mstep = [st for st in steps if st["t"] == "M"]
        if len(names_in) * len(ids_out) * sum(len(st["w"]) for st in mstep) <= 12:
            flat_rr = []
            for o_ in ids_out:
                for i_ in names_in:
                    for st in steps:
                        flat_rr.append(dict(st, key="%s-%s:%s" % (o_, i_, st["key"])) if st["t"] == "M" else st)
            ref_rr = I.distribution(I.run(P.to_ref(flat_rr), dims))
            want_ids = ["%s-%s" % (o_, i_) for o_ in ids_out for i_ in names_in]
            ctx.check(list(both.repetition_ids) == want_ids, "composition-laws", "C12:repeat-repeat-id-order",
                      "repetition_ids %r, expected outer-major %r" % (list(both.repetition_ids), want_ids), inner_ids=ids_in, outer_ids=ids_out, **wit)
            ex_rr = _explore_run(cirq.Circuit(both), ["sv", "dm"][int(rng.integers(2))])
            if not ex_rr.over_budget:
                tv_rr = L.tv_distance(ex_rr.distribution(), ref_rr)
                ctx.check(tv_rr <= 1e-6, "composition-laws", "C12:repeat-repeat-records",
                          lambda: "records of op.repeat(ids).repeat(ids) differ from the flat program run outer-major (TV %.3g)" % tv_rr,
                          inner_ids=ids_in, outer_ids=ids_out, **wit)
        # parent_path: every key of the operation (repetition ids included) sits below the given path
        ppath = [("u",), ("u", "v")][int(rng.integers(2))]
        pids = ["i", "j"]
        how_p = int(rng.integers(3))
        if how_p == 0:
            pop = cirq.CircuitOperation(body, repetitions=2, repetition_ids=pids, parent_path=ppath)
        elif how_p == 1:
            pop = cirq.with_key_path_prefix(op.repeat(2, pids), ppath)
        else:
            pop = op.repeat(2, pids).with_key_path(ppath)
        if 2 * sum(len(st["w"]) for st in steps if st["t"] == "M") <= 10:
            flat_p = []
            for i_ in pids:
                for st in steps:
                    flat_p.append(dict(st, key=":".join(ppath + (i_, st["key"]))) if st["t"] == "M" else st)
            want_keys_p = sorted({st["key"] for st in flat_p if st["t"] == "M"})
            got_keys_p = sorted(cirq.measurement_key_names(pop))
            ctx.check(got_keys_p == want_keys_p, "composition-laws", "C12:parent-path-keys", "%r vs %r" % (got_keys_p, want_keys_p), parent_path=ppath, how=how_p, **wit)
            ex_p = _explore_run(cirq.Circuit(pop), ["sv", "dm"][int(rng.integers(2))])
            if not ex_p.over_budget:
                tv_p = L.tv_distance(ex_p.distribution(), I.distribution(I.run(P.to_ref(flat_p), dims)))
                ctx.check(tv_p <= 1e-6, "composition-laws", "C12:parent-path-records",
                          lambda: "records of an operation with a parent path differ from the flat program (TV %.3g)" % tv_p, parent_path=ppath, how=how_p, **wit)
        pk = op.with_key_path(("top",))
        got = sorted(cirq.measurement_key_names(pk))
        ctx.check(got == ["top:a", "top:b"], "composition-laws", "C12:with_key_path", "%r" % got, **wit)
    ctx.distinct((tuple(P.describe(steps)), tuple(f), tuple(g), with_meas))


def sec_single_qubit(ctx, rng, case):
    """single-qubit bodies (dedicated _unitary_ path), incl. zero-qubit operations and bound parameters"""
    import cirq
    import sympy

    dims = (2,)
    q = cirq.LineQubit(int(rng.integers(5)))
    one = lambda s: s.shape == (2,) or s.shape == ()  # noqa
    steps = [P.gen_unitary_step(rng, dims, pred=one, arity_w=(0.2, 0.8, 0.0, 0.0)) for _ in range(int(rng.integers(1, 5)))]
    sym_at = int(rng.integers(len(steps))) if rng.random() < 0.5 else None
    ops = []
    val = float(rng.uniform(-2, 2))
    ref = []
    for i, st in enumerate(steps):
        spec = P.spec_by_name(st["spec"])
        if i == sym_at and spec.eigen:
            ops.append(spec.make((sympy.Symbol("t"), st["p"][1])).on(q))
            ref.append(I.U(spec.ref((val, st["p"][1])), st["w"]))
        else:
            ops.append(spec.make(st["p"]).on(*([q] if st["w"] else [])))
            ref.append(I.U(spec.ref(st["p"]), st["w"]))
    has_sym = any(cirq.is_parameterized(o) for o in ops)
    reps = int(rng.choice([1, 2, -1, 3] if all(not st_["spec"].startswith("UnitaryOnly") for st_ in steps) else [1, 2, 3]))
    kw = {"repetitions": reps}
    if has_sym:
        kw["param_resolver"] = {"t": val}
    op = cirq.CircuitOperation(cirq.FrozenCircuit(ops), **kw)
    if not op.qubits:
        return
    U1 = I.unitary_of(ref, dims)
    U = np.linalg.matrix_power(U1 if reps > 0 else U1.conj().T, abs(reps))
    wit = dict(program=P.describe(steps), reps=reps, symbol_at=sym_at, value=val)
    hu = cirq.has_unitary(op)
    u = cirq.unitary(op, None)
    ctx.check(hu == (u is not None), "has_unitary-consistent", "C12:single-qubit-has-unitary-vs-unitary", "has_unitary=%s, unitary is %s" % (hu, None if u is None else "matrix"), **wit)
    ctx.check(u is not None and L.allclose(u, U, 1e-7), "unitary==flat", "C12:single-qubit-unitary",
              lambda: "unitary of a single-qubit CircuitOperation deviates by %s" % (L.maxdiff(u, U) if u is not None else None), **wit)
    ctx.distinct((tuple(P.describe(steps)), reps, sym_at), nontrivial=not L.allclose(U, np.eye(2), 1e-6))



def _gen_shadow(rng, n, depth, outer_has_key):
    """nested blocks that measure the SAME key name at several depths (shadowing) with controls at every depth"""
    items = []
    qm, qt = 0, 1 % n
    has = outer_has_key
    def ctrl():
        tgt = int(rng.integers(n))
        c = {"t": "key", "key": "a", "index": -1} if rng.random() < 0.7 else {"t": "sympy_eq", "key": "a", "dims": (2,), "const": int(rng.integers(2))}
        if c["t"] == "key" and rng.random() < 0.45:
            # an earlier record of the shadowed key instead of the latest one (validity is decided on the flat program)
            c["index"] = int([0, 0, -2, 1][int(rng.integers(4))])
            if rng.random() < 0.3:
                c = {"t": "bitmask", "key": "a", "index": c["index"], "target_value": int(rng.integers(2)),
                     "equal_target": bool(rng.random() < 0.5), "bitmask": [None, 1][int(rng.integers(2))]}
        return {"t": "C", "cond": c, "inner": {"t": "U", "spec": "XPow", "p": (1.0, 0.0), "w": (tgt,)}}
    if has and rng.random() < 0.5:
        items.append(ctrl())
    if rng.random() < 0.75:
        w = int(rng.integers(n))
        if rng.random() < 0.5:
            items.append({"t": "U", "spec": "XPow", "p": (1.0, 0.0), "w": (w,)})
        elif rng.random() < 0.5:
            items.append({"t": "U", "spec": "HPow", "p": (1.0, 0.0), "w": (w,)})
        items.append({"t": "M", "key": "a", "w": (w,)})
        has = True
    if has and rng.random() < 0.6:
        items.append(ctrl())
    if depth > 0:
        body = _gen_shadow(rng, n, depth - 1, has)
        if body:
            reps = int(rng.choice([1, 1, 2]))
            mode = int(rng.integers(4))
            blk = {"t": "B", "body": body, "reps": reps, "ids": None, "use_ids": None, "qmap": {}, "kmap": {}}
            if mode == 0:
                blk["ids"] = ["i%d" % k for k in range(reps)]
            elif mode == 1:
                blk["use_ids"] = True
            elif mode == 2:
                blk["use_ids"] = False
            items.append(blk)
            if B._effective_ids(blk) is None and B._local_measured_names(body):
                has = True
    if has and rng.random() < 0.6:
        items.append(ctrl())
    return items


def sec_shadow(ctx, rng, case):
    """key shadowing: the same key measured at several scope depths, controls at every depth, ids on some levels"""
    import cirq

    n = int(rng.integers(2, 4))
    dims = (2,) * n
    items = _gen_shadow(rng, n, int(rng.integers(2, 5)), False)
    items.append({"t": "M", "key": "z", "w": tuple(range(n))})
    flat = B.flatten(items)
    if not _has_block(items) or B.count_digits(items) > 9 or B.flat_unbound_controls(flat):
        return
    if B.flat_index_errors(flat):
        ctx.reject("generator-record-index-out-of-range")
        return
    if B.flat_indexed_controls(flat):
        ctx.event("control-on-an-earlier-record-of-a-repeated-key")
    qubits = P.make_qubits(rng, dims)
    circuit = cirq.Circuit(B.items_to_moments(items, qubits))
    wit = dict(n=n, tree=B.describe(items))
    want_keys = B.flat_keys(flat)
    got_keys = sorted(cirq.measurement_key_names(circuit))
    ctx.check(got_keys == want_keys, "keys==flat", "C12:shadow-measurement-keys", "%r vs %r" % (got_keys, want_keys), **wit)
    ref = I.distribution(I.run(B.flat_to_ref(flat), dims))
    kind = ["sv", "sv-nosplit", "dm"][int(rng.integers(3))]
    try:
        ex = _explore_run(circuit, kind)
    except ValueError as e:
        if "missing when testing classical control" not in str(e):
            raise
        ctx.check(False, "distribution==flat", "C12:shadow-control-key-unresolved", str(e)[:200], **wit)
        return
    if ex.over_budget:
        ctx.event("explorer-over-budget")
        return
    tv = L.tv_distance(ex.distribution(), ref)
    ctx.check(tv <= 1e-6, "distribution==flat", "C12:shadow-distribution:" + kind,
              lambda: "outcome distribution differs from the unrolled program by TV %.3g (a control is bound to the wrong measurement)" % tv, **wit)
    # the control keys of the unrolled circuit Cirq produces must be exactly the bound keys of the flat program
    un = cirq.unroll_circuit_op(circuit, deep=True, tags_to_check=None)
    got_ctrl = sorted({str(k) for op in un.all_operations() for k in cirq.control_keys(op)})
    want_ctrl = sorted({B.keystr(s_["ckey"]) for s_ in flat if s_["t"] == "C"})
    ctx.check(got_ctrl == want_ctrl, "keys==flat", "C12:shadow-bound-control-keys", "unrolled circuit controls on %r, scoping rules give %r" % (got_ctrl, want_ctrl), **wit)
    ctx.distinct(tuple(B.describe(items)), nontrivial=len(want_ctrl) >= 1 and len(want_keys) >= 3)
    ctx.sample({"n": n, "tree": B.describe(items)[:16], "bound_controls": want_ctrl})



def sec_repeat_until(ctx, rng, case):
    """repeat_until loops: the wrapped loop equals the unrolled iterations (exit tested after each pass, at least one pass)"""
    import cirq
    import sympy

    n = int(rng.integers(1, 4))
    dims = (2,) * n
    qubits = P.make_qubits(rng, dims)
    mq = int(rng.integers(n))
    body = []
    # a rotation that makes the exit outcome reasonably likely in every pass, then optional entanglers
    theta = float(rng.uniform(0.35, 0.65))
    body.append({"t": "U", "spec": "ry", "p": (theta * np.pi,), "w": (mq,)})
    # further body gates never touch the measured qubit, so every pass after the first exits with probability
    # sin^2 or cos^2 of theta/2 >= 0.27 (the loop terminates with probability one, geometrically fast)
    for _ in range(int(rng.integers(0, 3))):
        st = P.gen_unitary_step(rng, dims, arity_w=(0.0, 0.6, 0.4, 0.0))
        if mq not in st["w"]:
            body.append(st)
    key = "a"
    body.append({"t": "M", "key": key, "w": (mq,)})
    exit_on = int(rng.integers(2))
    if rng.random() < 0.5:
        if exit_on == 1:
            cond = cirq.KeyCondition(cirq.MeasurementKey(key))
        else:
            cond = cirq.SympyCondition(sympy.Eq(sympy.Symbol(key), 0))
    else:
        cond = cirq.SympyCondition(sympy.Eq(sympy.Symbol(key), exit_on))
    pre = [P.gen_unitary_step(rng, dims) for _ in range(int(rng.integers(0, 3)))]
    post = [P.gen_unitary_step(rng, dims) for _ in range(int(rng.integers(0, 2)))]
    post.append({"t": "M", "key": "z", "w": tuple(range(n))})
    kmap = {"a": "b"} if rng.random() < 0.3 else {}
    kw = {"repeat_until": cond}
    if kmap:
        kw["measurement_key_map"] = kmap
    loop = cirq.CircuitOperation(cirq.FrozenCircuit(P.to_moments(body, qubits, rng, "greedy")), **kw)
    circuit = cirq.Circuit(P.to_moments(pre, qubits, rng, "greedy") + [cirq.Moment(loop)] + P.to_moments(post, qubits, rng, "greedy"))
    outkey = kmap.get(key, key)
    body_ref = P.to_ref([dict(s_, key=outkey) if s_["t"] == "M" else s_ for s_ in body])
    active = I.run(P.to_ref(pre), dims)
    done = {}
    tail = 0.0
    for it in range(200):
        nxt = I.run_branches(active, body_ref, dims)
        active = {}
        for rec, rho in nxt.items():
            last = I.latest(rec, outkey)[0]
            if last == exit_on:
                done[rec] = done.get(rec, 0) + rho
            else:
                active[rec] = rho
        tail = sum(float(np.trace(r).real) for r in active.values())
        if tail < 1e-9:
            break
    ref = I.distribution(I.run_branches(done, P.to_ref(post), dims))
    wit = dict(n=n, pre=P.describe(pre), body=P.describe(body), post=P.describe(post), exit_on=exit_on, kmap=kmap, condition=repr(cond))
    ctx.check(sorted(cirq.measurement_key_names(circuit)) == sorted([outkey, "z"]), "keys==flat", "C12:repeat-until-keys", "%r" % sorted(cirq.measurement_key_names(circuit)), **wit)
    kind = ["sv", "sv-nosplit", "dm"][int(rng.integers(3))]

    def run(rng_obj):
        if kind == "sv":
            sim = cirq.Simulator(dtype=np.complex128, seed=rng_obj)
        elif kind == "sv-nosplit":
            sim = cirq.Simulator(dtype=np.complex128, split_untangled_states=False, seed=rng_obj)
        else:
            sim = cirq.DensityMatrixSimulator(dtype=np.complex128, seed=rng_obj)
        return _records_key(sim.run(circuit, repetitions=1))

    ex = SR.explore(run, max_paths=1200, min_branch=1e-9, min_path=1e-7, default_last=(exit_on == 1), default_first=(exit_on == 0))
    if ex.over_budget:
        ctx.event("explorer-over-budget")
        return
    got = ex.distribution()
    tv = L.tv_distance(got, ref)
    slack = ex.cut_mass + tail + 1e-6
    ctx.check(tv <= slack, "distribution==flat", "C12:repeat-until-distribution:" + kind,
              lambda: "loop outcome distribution differs from the unrolled iterations by TV %.3g (allowed %.3g)" % (tv, slack), **wit)
    ctx.event("repeat-until-paths", len(ex.paths))
    ctx.distinct((tuple(P.describe(pre + body + post)), exit_on, tuple(kmap.items()), kind), nontrivial=len(ref) >= 3)
    ctx.sample({"n": n, "body": P.describe(body), "exit_on": exit_on, "paths": len(ex.paths), "iterations_in_reference": it + 1})


def sec_repeat_until_nested(ctx, rng, case):
    """A repeat_until loop inside a scoped sub-circuit whose exit condition compares the key measured in the loop with a
    key measured outside the loop, in the same enclosing body: every repetition's loop tests that repetition's own keys
    (never a same-named key at root scope), exactly like the flattened program."""
    import cirq
    import sympy

    n = int(rng.integers(2, 4))
    dims = (2,) * n
    qubits = P.make_qubits(rng, dims)
    mq, eq = (int(x) for x in rng.choice(n, size=2, replace=False))
    theta = float(rng.uniform(0.35, 0.65))
    flip = rng.random() < 0.5
    phi = 1.0 if flip else float(rng.uniform(0.3, 0.7))
    want_equal = rng.random() < 0.7
    sa, sc = sympy.Symbol("a"), sympy.Symbol("c")
    expr = (sympy.Eq(sa, sc) if rng.random() < 0.5 else sympy.Eq(sc, sa)) if want_equal else sympy.Ne(sa, sc)
    cond = cirq.SympyCondition(expr)
    scope = str(rng.choice(["repetitions", "repetition_ids", "parent_path", "repetitions+path"]))
    if scope == "repetitions":
        okw, prefixes = dict(repetitions=2, use_repetition_ids=True), ["0:", "1:"]
    elif scope == "repetition_ids":
        okw, prefixes = dict(repetitions=2, repetition_ids=["x", "y"], use_repetition_ids=True), ["x:", "y:"]
    elif scope == "parent_path":
        okw, prefixes = dict(parent_path=("p",)), ["p:"]
    else:
        okw, prefixes = dict(repetitions=2, use_repetition_ids=True, parent_path=("p",)), ["p:0:", "p:1:"]
    root_pre = [P.gen_unitary_step(rng, dims) for _ in range(int(rng.integers(0, 2)))]
    decoy = rng.random() < 0.7
    if decoy:
        root_pre.append({"t": "M", "key": "c", "w": (eq,)})
    outer_pre = [{"t": "U", "spec": "ry", "p": (phi * np.pi,), "w": (eq,)}, {"t": "M", "key": "c", "w": (eq,)}]
    body = [{"t": "U", "spec": "ry", "p": (theta * np.pi,), "w": (mq,)}, {"t": "M", "key": "a", "w": (mq,)}]
    loop = cirq.CircuitOperation(cirq.FrozenCircuit(P.to_moments(body, qubits, rng, "greedy")), repeat_until=cond)
    inner = cirq.FrozenCircuit(P.to_moments(outer_pre, qubits, rng, "greedy") + [cirq.Moment(loop)])
    outer = cirq.CircuitOperation(inner, **okw)
    form = str(rng.choice(["nested", "outer-unrolled"]))
    mid = [cirq.Moment(outer)] if form == "nested" else list(outer.mapped_circuit(deep=False).moments)
    post = [{"t": "M", "key": "z", "w": tuple(range(n))}]
    circuit = cirq.Circuit(P.to_moments(root_pre, qubits, rng, "greedy") + mid + P.to_moments(post, qubits, rng, "greedy"))
    wit = dict(n=n, scope=scope, form=form, decoy=decoy, condition=repr(cond), theta=theta, phi=phi, mq=mq, eq=eq,
               root_pre=P.describe(root_pre))
    # ---- keys: every repetition's c and a under its own path, the root c, z; nothing is left to be bound from outside
    want_keys = sorted([pfx + k for pfx in prefixes for k in ("a", "c")] + ["z"] + (["c"] if decoy else []))
    ctx.check(sorted(cirq.measurement_key_names(circuit)) == want_keys, "keys==flat", "C12:nested-until-keys",
              "%r, expected %r" % (sorted(cirq.measurement_key_names(circuit)), want_keys), **wit)
    ck = sorted(map(str, cirq.control_keys(circuit)))
    ctx.check(ck == [], "keys==flat", "C12:nested-until-unbound-control-keys",
              "the circuit reports control keys %r although every key the loops test is measured inside it" % ck, **wit)
    # ---- reference: repetition by repetition, pass by pass
    active = I.run(P.to_ref(root_pre), dims)
    tail = 0.0
    passes = 0
    for pfx in prefixes:
        active = I.run_branches(active, P.to_ref([dict(s_, key=pfx + "c") if s_["t"] == "M" else s_ for s_ in outer_pre]), dims)
        body_ref = P.to_ref([dict(s_, key=pfx + "a") if s_["t"] == "M" else s_ for s_ in body])
        done = {}
        for _ in range(200):
            passes += 1
            nxt = I.run_branches(active, body_ref, dims)
            active = {}
            for rec, rho in nxt.items():
                same = I.latest(rec, pfx + "a")[0] == I.latest(rec, pfx + "c")[0]
                if same == want_equal:
                    done[rec] = done[rec] + rho if rec in done else rho
                else:
                    active[rec] = rho
            left = sum(float(np.trace(r).real) for r in active.values())
            if left < 1e-9:
                break
        tail += left
        active = done
    ref = I.distribution(I.run_branches(active, P.to_ref(post), dims))
    kind = ["sv", "sv-nosplit", "dm"][int(rng.integers(3))]

    def run(rng_obj):
        if kind == "sv":
            sim = cirq.Simulator(dtype=np.complex128, seed=rng_obj)
        elif kind == "sv-nosplit":
            sim = cirq.Simulator(dtype=np.complex128, split_untangled_states=False, seed=rng_obj)
        else:
            sim = cirq.DensityMatrixSimulator(dtype=np.complex128, seed=rng_obj)
        return _records_key(sim.run(circuit, repetitions=1))

    try:
        ex = SR.explore(run, max_paths=1500, min_branch=1e-9, min_path=1e-6, default_mix=True)
    except ValueError as e:
        from vf.worker import _blame
        if _blame(e)[0] != "repo":
            raise
        ctx.check(False, "distribution==flat", "C12:nested-until-raised:" + type(e).__name__, "%s" % e, **wit)
        return
    if ex.over_budget:
        ctx.event("explorer-over-budget")
        return
    got = ex.distribution()
    tv = L.tv_distance(got, ref)
    slack = ex.cut_mass + tail + 1e-6
    ctx.check(tv <= slack, "distribution==flat", "C12:nested-until-distribution:" + kind,
              lambda: "nested loop outcome distribution differs from the repetition-by-repetition reference by TV %.3g (allowed %.3g)" % (tv, slack), **wit)
    ctx.event("nested-until-paths", len(ex.paths))
    ctx.event("nested-until:" + scope + ":" + form)
    ctx.distinct((scope, form, decoy, want_equal, round(theta, 3), round(phi, 3), mq, eq, kind, tuple(P.describe(root_pre))),
                 nontrivial=len(ref) >= 3)
    ctx.sample({"n": n, "scope": scope, "form": form, "decoy": decoy, "paths": len(ex.paths), "reference_passes": passes,
                "cut_mass": ex.cut_mass})


def sec_if_nested(ctx, rng, case):
    """cirq.If whose body is a tree (so that it becomes a nested sub-circuit) holding an operation that is itself classically
    controlled, inside a scoped sub-circuit: the inner condition binds to the key measured in the same repetition, never to a
    same-named key at root scope - exactly like the flattened program."""
    import cirq

    n = 4
    dims = (2,) * n
    qubits = P.make_qubits(rng, dims)
    qa, qb, q1, q2 = (int(x) for x in rng.permutation(n))
    if rng.random() < 0.3:
        q1 = qa   # the guarded operation may act on a measured qubit
    pa, pb = float(rng.uniform(0.3, 0.7)), float(rng.uniform(0.3, 0.7))
    scope = str(rng.choice(["repetitions", "repetition_ids", "parent_path", "repetitions+path"]))
    if scope == "repetitions":
        okw, prefixes = dict(repetitions=2, use_repetition_ids=True), ["0:", "1:"]
    elif scope == "repetition_ids":
        okw, prefixes = dict(repetitions=2, repetition_ids=["x", "y"], use_repetition_ids=True), ["x:", "y:"]
    elif scope == "parent_path":
        okw, prefixes = dict(parent_path=("p",)), ["p:"]
    else:
        okw, prefixes = dict(repetitions=2, use_repetition_ids=True, parent_path=("p",)), ["p:0:", "p:1:"]
    decoy = str(rng.choice(["b", "a", "none", "b"]))
    root_pre = []
    if decoy != "none":
        # a same-named key at root scope with a definite value (0, or 1 after a flip)
        if rng.random() < 0.5:
            root_pre.append({"t": "U", "spec": "ry", "p": (np.pi,), "w": (qb if decoy == "b" else qa,)})
        root_pre.append({"t": "M", "key": decoy, "w": (qb if decoy == "b" else qa,)})
    meas = [{"t": "U", "spec": "ry", "p": (pa * np.pi,), "w": (qa,)}, {"t": "M", "key": "a", "w": (qa,)},
            {"t": "U", "spec": "ry", "p": (pb * np.pi,), "w": (qb,)}, {"t": "M", "key": "b", "w": (qb,)}]
    g1 = {"t": "U", "spec": "ry", "p": (np.pi,), "w": (q1,)}
    g2 = P.gen_unitary_step(rng, dims, arity_w=(0.0, 1.0, 0.0, 0.0))
    g2 = dict(g2, w=(q2,))
    body_ops = [P.step_to_op(g1, qubits).with_classical_controls("b"), P.step_to_op(g2, qubits)]
    if rng.random() < 0.5:
        body_ops.reverse()
    if_op = cirq.If("a", *body_ops) if rng.random() < 0.5 else cirq.If("a", body_ops)
    inner = cirq.FrozenCircuit(P.to_moments(meas, qubits, rng, "greedy") + [cirq.Moment(if_op)])
    outer = cirq.CircuitOperation(inner, **okw)
    form = str(rng.choice(["nested", "outer-unrolled", "deep-unrolled"]))
    if form == "nested":
        mid = [cirq.Moment(outer)]
    else:
        mid = list(outer.mapped_circuit(deep=(form == "deep-unrolled")).moments)
    post = [{"t": "M", "key": "z", "w": tuple(range(n))}]
    circuit = cirq.Circuit(P.to_moments(root_pre, qubits, rng, "greedy") + mid + P.to_moments(post, qubits, rng, "greedy"))
    wit = dict(scope=scope, form=form, decoy=decoy, qa=qa, qb=qb, q1=q1, q2=q2, second=P.describe([g2]), root_pre=P.describe(root_pre))
    ck = sorted(map(str, cirq.control_keys(circuit)))
    ctx.check(ck == [], "keys==flat", "C12:if-nested-unbound-control-keys",
              "the circuit reports control keys %r although every key the conditions test is measured inside it" % ck, **wit)
    # ---- reference: repetition by repetition
    ref_steps = list(root_pre)
    for pfx in prefixes:
        ref_steps += [dict(s_, key=pfx + s_["key"]) if s_["t"] == "M" else s_ for s_ in meas]
        ca = {"t": "key", "key": pfx + "a", "index": -1}
        cb = {"t": "key", "key": pfx + "b", "index": -1}
        guarded = [{"t": "C", "cond": ca, "cond2": cb, "inner": g1}, {"t": "C", "cond": ca, "inner": g2}]
        ref_steps += guarded   # (the two act on different qubits or commute as a guarded pair: order inside the body is free)
    ref_steps += post
    if q1 == q2:
        return
    ref = I.distribution(I.run(P.to_ref(ref_steps), dims))
    kind = ["sv", "sv-nosplit", "dm"][int(rng.integers(3))]
    try:
        ex = _explore_run(circuit, kind)
    except ValueError as e:
        from vf.worker import _blame
        if _blame(e)[0] != "repo":
            raise
        ctx.check(False, "distribution==flat", "C12:if-nested-raised:" + type(e).__name__, "%s" % e, **wit)
        return
    if ex.over_budget:
        ctx.event("explorer-over-budget")
        return
    tv = L.tv_distance(ex.distribution(), ref)
    ctx.check(tv <= ex.cut_mass + 1e-6, "distribution==flat", "C12:if-nested-distribution:" + kind,
              lambda: "outcome distribution differs from the repetition-by-repetition reference by TV %.3g" % tv, **wit)
    ctx.event("if-nested:" + scope + ":" + form)
    ctx.distinct((scope, form, decoy, qa, qb, q1, q2, round(pa, 3), round(pb, 3), kind, tuple(P.describe([g2]))), nontrivial=len(ref) >= 3)
    ctx.sample({"scope": scope, "form": form, "decoy": decoy, "paths": len(ex.paths)})


def sec_symbolic_reps(ctx, rng, case):
    """a sub-circuit whose repetition count is a symbol (or is replaced later): whatever was asked of the operation before,
    the resolved operation applies the body - or, for a negative count, its inverse - that many times"""
    import cirq
    import sympy

    n = int(rng.integers(1, 4))
    dims = (2,) * n
    qubits = P.make_qubits(rng, dims)
    steps = P.gen_unitary_program(rng, dims, int(rng.integers(1, 5)), pred=lambda sp: "custom" not in sp.tags and "matrix" not in sp.tags)
    body = cirq.FrozenCircuit(P.to_moments(steps, qubits, rng, "greedy"))
    Ub = I.unitary_of(P.to_ref(steps), dims)
    route = int(rng.integers(3))
    if route < 2:
        op = cirq.CircuitOperation(body, repetitions=sympy.Symbol("r"))
    else:
        op = cirq.CircuitOperation(body, repetitions=int(rng.choice([0, 1, 2])))
    # queries that may fill per-instance caches, in random order
    asked = []
    for qn in rng.permutation(5)[: int(rng.integers(0, 5))]:
        qn = int(qn)
        asked.append(["parameter_names", "parameter_symbols(circuit)", "has_unitary", "is_parameterized", "measurement_key_names"][qn])
        if qn == 0:
            cirq.parameter_names(op)
        elif qn == 1:
            cirq.parameter_symbols(cirq.Circuit(op))
        elif qn == 2:
            cirq.has_unitary(op)
        elif qn == 3:
            cirq.is_parameterized(op)
        else:
            cirq.measurement_key_names(op)
    r = int(rng.choice([-3, -2, -1, 0, 1, 2, 3]))
    if route == 0:
        res = cirq.resolve_parameters(op, {"r": r})
        how = "resolve_parameters"
    elif route == 1:
        res = cirq.resolve_parameters(cirq.Circuit(op), {"r": r})[0].operations[0]
        how = "resolve_parameters(circuit)"
    else:
        res = op.replace(repetitions=r)
        how = "replace(repetitions)"
    want = np.linalg.matrix_power(Ub if r >= 0 else Ub.conj().T, abs(r))
    wit = dict(n=n, program=P.describe(steps), repetitions=r, how=how, asked_before=asked)
    ctx.check(res.repetitions == r, "symbolic-repetitions", "C12:symbolic-repetitions:count", "repetitions %r" % (res.repetitions,), **wit)
    forms = [("mapped_circuit", lambda: res.mapped_circuit(deep=True)), ("decompose", lambda: cirq.Circuit(cirq.decompose_once(res))),
             ("circuit", lambda: cirq.Circuit(res))]
    for name, mk in forms:
        c2 = mk()
        u2 = c2.unitary(qubit_order=qubits, qubits_that_should_be_present=qubits)
        ctx.check(L.allclose(u2, want, 1e-6), "symbolic-repetitions", "C12:symbolic-repetitions:" + name,
                  lambda: "%s of the operation with repetitions=%d deviates from the body's %d-th matrix power by %.3g" % (name, r, r, L.maxdiff(u2, want)), **wit)
    psi = cirq.Simulator(dtype=np.complex128).simulate(cirq.Circuit(res), qubit_order=qubits).final_state_vector
    ctx.check(L.allclose(psi, want[:, 0], 1e-6), "symbolic-repetitions", "C12:symbolic-repetitions:simulate", "", **wit)
    ctx.distinct((tuple(P.describe(steps)), r, how, tuple(asked)), nontrivial=r != 0 and not L.allclose(Ub @ Ub, np.eye(2 ** n), 1e-6))
    ctx.sample({"program": P.describe(steps)[:5], "repetitions": r, "how": how, "asked_before": asked})


SECTIONS = [
    ("unitary", sec_unitary, 2000, 40000, 2.0),
    ("measured", sec_measured, 2800, 50000, 4.0),
    ("compose", sec_compose, 1200, 20000, 1.0),
    ("single_qubit", sec_single_qubit, 900, 15000, 0.5),
    ("shadow", sec_shadow, 2500, 50000, 3.0),
    ("repeat_until", sec_repeat_until, 500, 10000, 2.0),
    ("repeat_until_nested", sec_repeat_until_nested, 300, 6000, 2.0),
    ("if_nested", sec_if_nested, 300, 6000, 1.5),
    ("symbolic_reps", sec_symbolic_reps, 700, 12000, 1.0),
]
