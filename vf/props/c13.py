"""C13 - the Clifford/stabilizer subsystem agrees with full state simulation.

Stabilizer states are observed gate by gate (tableau stabilizers/destabilizers,
CH-form amplitudes incl. global phase), the Clifford simulators' outcome
distributions are enumerated with the scripted seed object, and Clifford gate
objects are checked against matrices of the group enumerated independently."""
from __future__ import annotations

import itertools
import math

import numpy as np

from vf.monitors import scripted_rng as SR
from vf.refmodel import gates as G
from vf.refmodel import interp as I
from vf.refmodel import linalg as L
from vf.refmodel import pauli as RP
from vf.workloads import programs as P

LEVEL = "exploration"
RULE = ("Clifford circuits over catalogue families at half-integer exponents with global shifts (only gates for which "
        "has_stabilizer_effect is True), n<=5, depth<=30, with measurements; the 24-element group exhaustively and the "
        "11520-element two-qubit group sampled (quick) or exhaustively (thorough) through words over H, S, CZ matrices; "
        "non-trivial = non-identity element / circuit with >=2 operations; distinct by word or program text")
ASSUMPTIONS = ["catalogue matrices are ground truth", "group enumeration by breadth-first search over generator matrices modulo phase"]
MIN_EVAL = {"tableau-stabilizers-stabilize": 2000, "chform-amplitudes==psi": 2000, "clifford-run-distribution": 100,
            "single-qubit-group": 500, "two-qubit-group": 300, "state-objects": 2000}
MUST_REACH = [
    "cirq/qis/clifford_tableau.py:CliffordTableau.apply_x", "cirq/qis/clifford_tableau.py:CliffordTableau.apply_h",
    "cirq/qis/clifford_tableau.py:CliffordTableau.apply_cx", "cirq/qis/clifford_tableau.py:CliffordTableau.apply_cz",
    "cirq/qis/clifford_tableau.py:CliffordTableau._rowsum", "cirq/qis/clifford_tableau.py:CliffordTableau._measure",
    "cirq/qis/clifford_tableau.py:CliffordTableau.then", "cirq/qis/clifford_tableau.py:CliffordTableau.inverse",
    "cirq/sim/clifford/stabilizer_state_ch_form.py:StabilizerStateChForm.apply_h",
    "cirq/sim/clifford/stabilizer_state_ch_form.py:StabilizerStateChForm.apply_cz",
    "cirq/sim/clifford/stabilizer_state_ch_form.py:StabilizerStateChForm.update_sum",
    "cirq/sim/clifford/stabilizer_state_ch_form.py:StabilizerStateChForm._measure",
    "cirq/sim/clifford/stabilizer_state_ch_form.py:StabilizerStateChForm.project_Z",
    "cirq/ops/clifford_gate.py:SingleQubitCliffordGate.merged_with",
    "cirq/ops/clifford_gate.py:CommonCliffordGates.from_op_list",
    "cirq/transformers/analytical_decompositions/clifford_decomposition.py:decompose_clifford_tableau_to_operations",
]

HALF = [0.5, -0.5, 1.0, -1.0, 1.5, 2.0, 0.0, -1.5, 3.0, 2.5]
INT = [1.0, -1.0, 2.0, 3.0, 0.0]
SH = [0.0, 0.0, 0.5, -0.5, 0.25, -1.0]
_S = {}


def setup(ctx):
    _S["c1"] = RP.single_qubit_cliffords()
    _S["c2"] = None


def _c2():
    if _S["c2"] is None:
        _S["c2"] = RP.two_qubit_cliffords()
    return _S["c2"]


def _clifford_step(rng, n, cirq):
    """one Clifford step from the catalogue (exponent grid), accepted only if Cirq documents stabilizer effect"""
    for _ in range(40):
        if rng.random() < 0.06:
            # an operation on no qubits at all: a global phase (its own, qubit-less factor of a split state)
            ang = float([math.pi / 2, math.pi, -math.pi / 2, math.pi / 4, 0.3][int(rng.integers(5))])
            g0 = P.spec_by_name("GlobalPhase").make((ang,))
            if cirq.has_stabilizer_effect(g0):
                return {"t": "U", "spec": "GlobalPhase", "p": (ang,), "w": ()}
        k = 1 if (n == 1 or rng.random() < 0.55) else 2
        if k == 1:
            fam = ["XPow", "YPow", "ZPow", "HPow"][int(rng.integers(4))]
            e = float(HALF[int(rng.integers(len(HALF)))]) if fam != "HPow" else float(INT[int(rng.integers(len(INT)))])
        else:
            fam = ["CZPow", "CXPow", "SwapPow", "ISwapPow", "XXPow", "YYPow", "ZZPow"][int(rng.integers(7))]
            e = float(INT[int(rng.integers(len(INT)))]) if fam in ("CZPow", "CXPow", "SwapPow", "ISwapPow") else float(HALF[int(rng.integers(len(HALF)))])
        s = float(SH[int(rng.integers(len(SH)))])
        spec = P.spec_by_name(fam)
        g = spec.make((e, s))
        if not cirq.has_stabilizer_effect(g):
            continue
        wires = tuple(int(w) for w in rng.choice(n, size=k, replace=False))
        return {"t": "U", "spec": fam, "p": (e, s), "w": wires}
    raise RuntimeError("no clifford step")


def _dps_matrix(dps, n):
    letters = ["IXYZ"[int(m)] for m in dps.pauli_mask]
    letters += ["I"] * (n - len(letters))
    return RP.pmat(letters, complex(dps.coefficient))


def sec_states(ctx, rng, case):
    """gate-by-gate: tableau stabilizers stabilize psi; CH-form amplitudes equal psi including global phase"""
    import cirq

    n = int(rng.integers(1, 6))
    qubits = P.make_qubits(rng, (2,) * n)
    steps = [_clifford_step(rng, n, cirq) for _ in range(int(rng.integers(1, 25)))]
    k0 = int(rng.integers(2 ** n))
    psi = np.zeros(2 ** n, dtype=complex)
    psi[k0] = 1
    tab = cirq.CliffordTableau(n, initial_state=k0)
    ts = cirq.CliffordTableauSimulationState(tableau=tab, qubits=qubits, prng=np.random.RandomState(0))
    ch = cirq.StabilizerChFormSimulationState(qubits=qubits, prng=np.random.RandomState(0), initial_state=k0)
    wit = dict(n=n, initial=k0, program=P.describe(steps))
    for i, st in enumerate(steps):
        op = P.step_to_op(st, qubits)
        ref = P.step_to_ref(st)
        psi = L.apply_to_state(psi, ref.matrix, ref.wires, (2,) * n)
        cirq.act_on(op, ts)
        cirq.act_on(op, ch)
        stabs = ts.tableau.stabilizers()
        destabs = ts.tableau.destabilizers()
        Ms = [_dps_matrix(s, n) for s in stabs]
        ok = len(Ms) == n and all(L.allclose(M @ psi, psi, 1e-7) for M in Ms)
        if not ctx.check(ok, "tableau-stabilizers-stabilize", "C13:tableau-stabilizer-wrong:" + st["spec"],
                         "after step %d a reported stabilizer does not stabilize the state (sign or Pauli wrong)" % i, step=i, **wit):
            break
        Ds = [_dps_matrix(d, n) for d in destabs]
        okd = True
        for a in range(n):
            for b in range(n):
                comm = L.allclose(Ds[a] @ Ms[b], Ms[b] @ Ds[a], 1e-9)
                anti = L.allclose(Ds[a] @ Ms[b], -Ms[b] @ Ds[a], 1e-9)
                okd = okd and (anti if a == b else comm)
                okd = okd and L.allclose(Ds[a] @ Ds[b], Ds[b] @ Ds[a], 1e-9)
        ctx.check(okd, "tableau-destabilizer-relations", "C13:tableau-destabilizer-relations:" + st["spec"], "", step=i, **wit)
        got = ch.state.state_vector()
        if not ctx.check(L.allclose(got, psi, 1e-6), "chform-amplitudes==psi", "C13:chform-amplitudes:" + st["spec"],
                         lambda: "CH-form state vector deviates by %.3g after step %d (%.3g up to global phase)" % (L.maxdiff(got, psi), i, L.phase_diff(got, psi)),
                         step=i, **wit):
            break
    ctx.distinct((n, k0, tuple(P.describe(steps))), nontrivial=len(steps) >= 2)
    ctx.sample({"n": n, "initial": k0, "program": P.describe(steps)[:8]})


def sec_state_objects(ctx, rng, case):
    """the state classes as values: copy() gives an independent state, a non-collapsing measurement leaves the state as
    it is (and reports an outcome the state allows), a collapsing one leaves the projected state"""
    import cirq

    n = int(rng.integers(1, 5))
    qubits = P.make_qubits(rng, (2,) * n)
    k0 = int(rng.integers(2 ** n))
    kind = ["CliffordState", "ch-sim-state", "tableau-sim-state", "ch-form"][int(rng.integers(4))]
    psi = np.zeros(2 ** n, dtype=complex)
    psi[k0] = 1
    if kind == "CliffordState":
        obj = cirq.CliffordState({q: i for i, q in enumerate(qubits)}, initial_state=k0)
    elif kind == "ch-sim-state":
        obj = cirq.StabilizerChFormSimulationState(qubits=qubits, prng=np.random.RandomState(int(rng.integers(1 << 30))), initial_state=k0)
    elif kind == "tableau-sim-state":
        obj = cirq.CliffordTableauSimulationState(tableau=cirq.CliffordTableau(n, initial_state=k0), qubits=qubits,
                                                  prng=np.random.RandomState(int(rng.integers(1 << 30))))
    else:
        obj = cirq.StabilizerStateChForm(n, k0)

    def act(o, st):
        op = P.step_to_op(st, qubits)
        if kind == "CliffordState":
            o.apply_unitary(op)
        elif kind == "ch-form":
            cirq.act_on(op, cirq.StabilizerChFormSimulationState(qubits=qubits, prng=np.random.RandomState(0), initial_state=o))
        else:
            cirq.act_on(op, o)

    def agrees(o, want):
        if kind == "tableau-sim-state":
            return all(L.allclose(_dps_matrix(sb, n) @ want, want, 1e-7) for sb in o.tableau.stabilizers())
        sv = o.state_vector() if kind in ("CliffordState", "ch-form") else o.state.state_vector()
        return L.allclose(sv, want, 1e-6)

    log = []
    wit = dict(n=n, initial=k0, kind=kind, log=log)
    pairs = [(obj, psi)]
    for i in range(int(rng.integers(3, 14))):
        j = int(rng.integers(len(pairs)))
        o, v = pairs[j]
        r = rng.random()
        if r < 0.55:
            st = _clifford_step(rng, n, cirq)
            ref = P.step_to_ref(st)
            act(o, st)
            pairs[j] = (o, L.apply_to_state(v, ref.matrix, ref.wires, (2,) * n))
            log.append("state%d: %s" % (j, P.describe([st])[0]))
        elif r < 0.8 and len(pairs) < 4:
            pairs.append((o.copy(), v.copy()))
            log.append("state%d = state%d.copy()" % (len(pairs) - 1, j))
        elif kind == "CliffordState":
            w = int(rng.integers(n))
            collapse = bool(rng.integers(2))
            meas = {}
            o.apply_measurement(cirq.measure(qubits[w], key="m"), meas, np.random.RandomState(int(rng.integers(1 << 30))), collapse_state_vector=collapse)
            bit = int(meas["m"][0])
            proj = L.apply_to_state(v, np.diag([1.0 - bit, float(bit)]).astype(complex), (w,), (2,) * n)
            pr = float(np.vdot(proj, proj).real)
            log.append("state%d: measure wire %d collapse=%s -> %d" % (j, w, collapse, bit))
            if not ctx.check(pr > 1e-9, "state-objects", "C13:state-object:impossible-outcome", "reported an outcome of probability %.3g" % pr, **wit):
                return
            if collapse:
                pairs[j] = (o, proj / math.sqrt(pr))
        else:
            continue
        # every state object in play still is the state its own history says (up to what its representation fixes)
        for jj, (oo, vv) in enumerate(pairs):
            if not ctx.check(agrees(oo, vv), "state-objects", "C13:state-object:copy-or-measurement-leaks:" + kind,
                             "after %r state%d is not the state its own history gives" % (log[-1], jj), **wit):
                return
    ctx.distinct((kind, n, k0, tuple(log)), nontrivial=len(pairs) > 1)
    ctx.sample({"kind": kind, "n": n, "log": list(log)[:10]})


def sec_simulator(ctx, rng, case):
    """CliffordSimulator.simulate final state (incl. phase) and step states on unitary Clifford circuits; split on/off"""
    import cirq

    n = int(rng.integers(1, 6))
    qubits = P.make_qubits(rng, (2,) * n)
    steps = [_clifford_step(rng, n, cirq) for _ in range(int(rng.integers(1, 20)))]
    circuit = P.to_circuit(steps, qubits, rng, ["greedy", "serial"][int(rng.integers(2))])
    k0 = int(rng.integers(2 ** n))
    psi = np.zeros(2 ** n, dtype=complex)
    psi[k0] = 1
    for r in P.to_ref(steps):
        psi = L.apply_to_state(psi, r.matrix, r.wires, (2,) * n)
    split = bool(rng.integers(2))
    sim = cirq.CliffordSimulator(split_untangled_states=split)
    res = sim.simulate(circuit, qubit_order=qubits, initial_state=k0)
    got = res.final_state.state_vector()
    wit = dict(n=n, initial=k0, program=P.describe(steps), split=split)
    ctx.check(L.allclose(got, psi, 1e-6), "clifford-simulate==psi", "C13:clifford-simulate:split=%s" % split,
              lambda: "CliffordSimulator final state deviates by %.3g (%.3g up to phase)" % (L.maxdiff(got, psi), L.phase_diff(got, psi)), **wit)
    ctx.distinct((n, k0, tuple(P.describe(steps)), split), nontrivial=len(steps) >= 2)


def sec_run(ctx, rng, case):
    """exact outcome distributions of CliffordSimulator.run / StabilizerSampler.run vs the Born rule"""
    import cirq

    n = int(rng.integers(1, 5))
    dims = (2,) * n
    qubits = P.make_qubits(rng, dims)
    steps, digits = [], 0
    keys = ["a", "b", "c", "d", "e"]
    ki = 0
    for _ in range(int(rng.integers(2, 14))):
        if rng.random() < 0.25 and digits < 6 and ki < len(keys):
            w = tuple(int(x) for x in rng.choice(n, size=int(rng.integers(1, min(n, 2) + 1)), replace=False))
            st = {"t": "M", "key": keys[ki], "w": w}
            if rng.random() < 0.3:
                st["mask"] = tuple(bool(b) for b in rng.integers(0, 2, size=len(w)))
            ki += 1
            digits += len(w)
            steps.append(st)
        elif rng.random() < 0.12 and ki > 0:
            inner = _clifford_step(rng, n, cirq)
            steps.append({"t": "C", "cond": {"t": "key", "key": keys[int(rng.integers(ki))], "index": -1}, "inner": inner})
        elif rng.random() < 0.1:
            # a reset: a stabilizer operation with a hidden random outcome (also ahead of the first measurement)
            w_ = int(rng.integers(n))
            if n >= 2 and rng.random() < 0.6:
                # ... of one half of an entangled pair, so that the hidden outcome decides what the partner shows later
                o_ = int(rng.choice([x for x in range(n) if x != w_]))
                steps.append({"t": "U", "spec": "HPow", "p": (1.0, 0.0), "w": (w_,)})
                steps.append({"t": "U", "spec": "CXPow", "p": (1.0, 0.0), "w": (w_, o_)})
            steps.append({"t": "K", "spec": "reset_d2", "p": (), "w": (w_,)})
        else:
            steps.append(_clifford_step(rng, n, cirq))
    if ki == 0:
        steps.append({"t": "M", "key": "a", "w": (0,)})
    circuit = P.to_circuit(steps, qubits, rng, "greedy")
    ref = I.distribution(I.run(P.to_ref(steps), dims))
    which = int(rng.integers(3))
    # the sampler's repetitions are independent runs: two of them have the product distribution
    reps = 2 if (which == 2 and len(ref) <= 8 and rng.random() < 0.5) else 1
    if reps == 2:
        ref = {(ka, kb): pa * pb for ka, pa in ref.items() for kb, pb in ref.items()}
        ctx.event("run:two-repetitions")
    if any(s_["t"] == "K" for s_ in steps):
        ctx.event("run:with-reset")
        first_m = min(i for i, s_ in enumerate(steps) if s_["t"] == "M")
        if reps == 2 and any(s_["t"] == "K" for s_ in steps[:first_m]):
            ctx.event("run:two-repetitions-with-reset-before-first-measurement")
    wit = dict(n=n, program=P.describe(steps), sampler=["CliffordSimulator", "CliffordSimulator-nosplit", "StabilizerSampler"][which],
               repetitions=reps)

    def run(rng_obj):
        if which == 0:
            res = cirq.CliffordSimulator(seed=rng_obj).run(circuit, repetitions=1)
        elif which == 1:
            res = cirq.CliffordSimulator(seed=rng_obj, split_untangled_states=False).run(circuit, repetitions=1)
        else:
            res = cirq.StabilizerSampler(seed=rng_obj).run(circuit, repetitions=reps)
        rows = [tuple((k, tuple(tuple(int(x) for x in inst) for inst in res.records[k][r])) for k in sorted(res.records))
                for r in range(reps)]
        return rows[0] if reps == 1 else tuple(rows)

    ex = SR.explore(run, max_paths=600 if reps == 1 else 3000, min_branch=1e-9)
    if ex.over_budget:
        ctx.event("explorer-over-budget")
        return
    got = ex.distribution()
    tv = L.tv_distance(got, ref)
    ctx.event("paths", len(ex.paths))
    ctx.check(tv <= 1e-9 and abs(ex.total() - 1) < 1e-9, "clifford-run-distribution", "C13:clifford-run-distribution:" + wit["sampler"],
              lambda: "outcome distribution differs from the Born rule by TV %.3g" % tv,
              got={str(k): v for k, v in list(got.items())[:8]}, want={str(k): v for k, v in list(ref.items())[:8]}, **wit)
    # every draw the stabilizer code makes must be a fair coin (a deterministic outcome must not be drawn)
    for p, _, decs in ex.paths[:1]:
        pass
    ctx.distinct((n, tuple(P.describe(steps)), which), nontrivial=len([p for p in ref.values() if p > 1e-9]) >= 2)
    ctx.sample({"n": n, "program": P.describe(steps), "paths": len(ex.paths)})


def _pauli_obj(cirq, ch):
    return {"X": cirq.X, "Y": cirq.Y, "Z": cirq.Z}[ch]


def sec_group1(ctx, rng, case):
    """the 24-element group: exhaustive laws (case index = element, all partners inside)"""
    import cirq

    els = _S["c1"]
    word, U = els[case % 24]
    g = cirq.SingleQubitCliffordGate.from_unitary(U)
    wit = dict(word=word)
    if not ctx.check(g is not None, "single-qubit-group", "C13:from_unitary-none", "from_unitary returned None for a Clifford matrix", **wit):
        return
    ug = cirq.unitary(g)
    ctx.check(L.phase_equal(ug, U, 1e-8), "single-qubit-group", "C13:from_unitary-wrong-element", "", **wit)
    ctx.check(cirq.SingleQubitCliffordGate.from_unitary(ug) == g, "single-qubit-group", "C13:from_unitary-roundtrip", "", **wit)
    ph = np.exp(1j * float(rng.uniform(0, 6.28)))
    r = cirq.SingleQubitCliffordGate.from_unitary_with_global_phase(ph * U)
    ok = r is not None and L.allclose(cirq.unitary(r[0]) * r[1], ph * U, 1e-8)
    ctx.check(ok, "single-qubit-group", "C13:from_unitary_with_global_phase", "gate unitary times reported phase is not the input", **wit)
    # non-Clifford input must give None
    t = np.diag([1, np.exp(1j * np.pi / 4)]) @ U
    ctx.check(cirq.SingleQubitCliffordGate.from_unitary(t) is None, "single-qubit-group", "C13:from_unitary-accepts-non-clifford", "", **wit)
    # all 24 library constants are distinct and cover the group (checked once per element: membership)
    allg = cirq.SingleQubitCliffordGate.all_single_qubit_cliffords
    ctx.check(len(allg) == 24 and sum(1 for h in allg if h == g) == 1, "single-qubit-group", "C13:all_single_qubit_cliffords", "", **wit)
    # inverse / powers
    inv = g ** -1
    ctx.check(L.phase_equal(cirq.unitary(inv), U.conj().T, 1e-8), "single-qubit-group", "C13:single-inverse", "", **wit)
    ctx.check(L.phase_equal(cirq.unitary(g ** 2), U @ U, 1e-8), "single-qubit-group", "C13:single-square", "", **wit)
    # every integer power (binary exponentiation: even exponents that are not powers of two use a different code path)
    for e in range(-26, 27):
        want_e = np.linalg.matrix_power(U if e >= 0 else U.conj().T, abs(e))
        ctx.check(L.phase_equal(cirq.unitary(g ** e), want_e, 1e-8), "single-qubit-group", "C13:single-integer-power",
                  "g**%d is not the %d-th matrix power" % (e, e), exponent=e, **wit)
    # decompose_gate: product in order equals cirq.unitary(g) INCLUDING global phase (documented)
    M = np.eye(2, dtype=complex)
    for h in g.decompose_gate():
        M = cirq.unitary(h) @ M
    ctx.check(L.allclose(M, ug, 1e-8), "single-qubit-group", "C13:decompose_gate", "decompose_gate product deviates by %.3g" % L.maxdiff(M, ug), **wit)
    q = cirq.LineQubit(0)
    M = np.eye(2, dtype=complex)
    for o in cirq.decompose_once(g.on(q)):
        M = cirq.unitary(o) @ M
    ctx.check(L.phase_equal(M, U, 1e-8), "single-qubit-group", "C13:single-decompose", "", **wit)
    ctx.check(L.phase_equal(cirq.unitary(g.to_phased_xz_gate()), U, 1e-8), "single-qubit-group", "C13:to_phased_xz_gate", "", **wit)
    # pauli_tuple: U P U^dagger = +-P'
    for ch in "XYZ":
        to, flip = g.pauli_tuple(_pauli_obj(cirq, ch))
        want = (-1 if flip else 1) * G.PAULI[str(to)]
        ctx.check(L.allclose(U @ G.PAULI[ch] @ U.conj().T, want, 1e-8), "single-qubit-group", "C13:pauli_tuple", "%s -> %s%s" % (ch, "-" if flip else "+", to), **wit)
    # from_xz_map round trip
    x_to, z_to = g.pauli_tuple(cirq.X), g.pauli_tuple(cirq.Z)
    ctx.check(cirq.SingleQubitCliffordGate.from_xz_map(x_to, z_to) == g, "single-qubit-group", "C13:from_xz_map", "", **wit)
    # tableau stabilizer state action: CH form on |0>,|1> equals column up to phase; tableau stabilizer stabilizes
    for k in (0, 1):
        ch = cirq.StabilizerChFormSimulationState(qubits=[q], prng=np.random.RandomState(0), initial_state=k)
        cirq.act_on(g.on(q), ch)
        ctx.check(L.allclose(ch.state.state_vector(), ug[:, k], 1e-7), "single-qubit-group", "C13:single-act-on-chform",
                  "CH-form after SingleQubitCliffordGate deviates from cirq.unitary column (phase included)", k=k, **wit)
    # pairs: merged_with, equivalent_gate_before, commutes
    for word2, V in els:
        h = cirq.SingleQubitCliffordGate.from_unitary(V)
        m = g.merged_with(h)  # circuit: self then second
        ctx.check(L.phase_equal(cirq.unitary(m), V @ U, 1e-8), "single-qubit-group", "C13:merged_with", "", second=word2, **wit)
        eb = g.equivalent_gate_before(h)  # --output--self-- == --self--after--
        ctx.check(L.phase_equal(U @ cirq.unitary(eb), V @ U, 1e-8), "single-qubit-group", "C13:equivalent_gate_before", "", after=word2, **wit)
        c = cirq.commutes(g, h, default=None)
        if c is True:
            ctx.check(L.phase_equal(U @ V, V @ U, 1e-8), "single-qubit-group", "C13:single-commutes", "", second=word2, **wit)
    ctx.distinct(("c1", word), nontrivial=len(word) > 0)
    if case % 24 == 23:
        ctx.extra["exhaustive_single_qubit_group"] = True


def sec_group2(ctx, rng, case):
    """two-qubit Clifford group through words over H, S, CZ"""
    import cirq

    els = _c2()
    idx = (case * 7919) % 11520
    word, U = els[idx]
    q = cirq.LineQubit.range(2)
    ops = []
    for w in word:
        if w[0] == "H":
            ops.append(cirq.H(q[w[1]]))
        elif w[0] == "S":
            ops.append(cirq.S(q[w[1]]))
        else:
            ops.append(cirq.CZ(q[0], q[1]))
    wit = dict(index=idx, word=[list(w) for w in word])
    g = cirq.CliffordGate.from_op_list(ops, q)
    ug = cirq.unitary(g)
    ctx.check(L.phase_equal(ug, U, 1e-7), "two-qubit-group", "C13:from_op_list-unitary", lambda: "unitary of the CliffordGate deviates by %.3g up to phase" % L.phase_diff(ug, U), **wit)
    inv = g ** -1
    ctx.check(L.phase_equal(cirq.unitary(inv), U.conj().T, 1e-7), "two-qubit-group", "C13:clifford-inverse", "", **wit)
    ctx.check(L.phase_equal(cirq.unitary(g ** 2), U @ U, 1e-7), "two-qubit-group", "C13:clifford-square", "", **wit)
    ctx.check(L.phase_equal(cirq.unitary(g ** 3), U @ U @ U, 1e-7), "two-qubit-group", "C13:clifford-cube", "", **wit)
    for e in [int(x) for x in rng.choice(np.arange(-20, 21), size=4, replace=False)]:
        want_e = np.linalg.matrix_power(U if e >= 0 else U.conj().T, abs(e))
        ctx.check(L.phase_equal(cirq.unitary(g ** e), want_e, 1e-7), "two-qubit-group", "C13:clifford-integer-power",
                  "g**%d is not the %d-th matrix power" % (e, e), exponent=e, **wit)
    t = g.clifford_tableau
    ctx.check(cirq.CliffordGate.from_clifford_tableau(t) == g, "two-qubit-group", "C13:tableau-roundtrip", "", **wit)
    ti = t.inverse()
    gi = cirq.CliffordGate.from_clifford_tableau(ti)
    ctx.check(L.phase_equal(cirq.unitary(gi), U.conj().T, 1e-7), "two-qubit-group", "C13:tableau-inverse", "", **wit)
    # then(): compose with another element
    word2, V = els[int(rng.integers(11520))]
    ops2 = [cirq.H(q[w[1]]) if w[0] == "H" else (cirq.S(q[w[1]]) if w[0] == "S" else cirq.CZ(q[0], q[1])) for w in word2]
    h = cirq.CliffordGate.from_op_list(ops2, q)
    comp = cirq.CliffordGate.from_clifford_tableau(t.then(h.clifford_tableau))
    ctx.check(L.phase_equal(cirq.unitary(comp), V @ U, 1e-7), "two-qubit-group", "C13:tableau-then", "then() is not 'self first, then other'", **wit)
    ctx.check((g == h) == L.phase_equal(U, V, 1e-7), "two-qubit-group", "C13:clifford-equality", "", **wit)
    # decompositions
    for dec in (cirq.decompose_once(g.on(*q)), cirq.decompose_clifford_tableau_to_operations(q, t)):
        M = np.eye(4, dtype=complex)
        for o in dec:
            M = L.embed(cirq.unitary(o), [x.x for x in o.qubits], (2, 2)) @ M
        ctx.check(L.phase_equal(M, U, 1e-7), "two-qubit-group", "C13:clifford-decompose", lambda: "decomposition product deviates by %.3g" % L.phase_diff(M, U), **wit)
    # act_on CH form and tableau from each basis state
    for k in range(4):
        ch = cirq.StabilizerChFormSimulationState(qubits=q, prng=np.random.RandomState(0), initial_state=k)
        cirq.act_on(g.on(*q), ch)
        ctx.check(L.phase_equal(ch.state.state_vector(), U[:, k], 1e-7), "two-qubit-group", "C13:clifford-act-on-chform", "", k=k, **wit)
        ts = cirq.CliffordTableauSimulationState(tableau=cirq.CliffordTableau(2, initial_state=k), qubits=q, prng=np.random.RandomState(0))
        cirq.act_on(g.on(*q), ts)
        ok = all(L.allclose(_dps_matrix(s, 2) @ U[:, k], U[:, k], 1e-7) for s in ts.tableau.stabilizers())
        ctx.check(ok, "two-qubit-group", "C13:clifford-act-on-tableau", "", k=k, **wit)
    ctx.check(cirq.has_stabilizer_effect(g), "two-qubit-group", "C13:clifford-has-stabilizer-effect", "", **wit)
    # the same gate inside a larger register, on any two positions in any order (the gate's own tableau is embedded by axes)
    n3 = int(rng.integers(3, 5))
    q3 = cirq.LineQubit.range(n3)
    w = [int(x) for x in rng.choice(n3, size=2, replace=False)]
    k3 = int(rng.integers(2 ** n3))
    psi3 = np.zeros(2 ** n3, dtype=complex)
    psi3[k3] = 1
    pre = _clifford_step(rng, n3, cirq)  # something entangling/rotating first, so that the order of the axes matters
    psi3 = L.apply_to_state(psi3, P.step_to_ref(pre).matrix, P.step_to_ref(pre).wires, (2,) * n3)
    psi3 = L.apply_to_state(psi3, U, w, (2,) * n3)
    op3 = g.on(q3[w[0]], q3[w[1]])
    ts3 = cirq.CliffordTableauSimulationState(tableau=cirq.CliffordTableau(n3, initial_state=k3), qubits=q3, prng=np.random.RandomState(0))
    ch3 = cirq.StabilizerChFormSimulationState(qubits=q3, prng=np.random.RandomState(0), initial_state=k3)
    for st_ in (ts3, ch3):
        cirq.act_on(P.step_to_op(pre, q3), st_)
        cirq.act_on(op3, st_)
    ok3 = all(L.allclose(_dps_matrix(s_, n3) @ psi3, psi3, 1e-7) for s_ in ts3.tableau.stabilizers())
    ctx.check(ok3, "two-qubit-group", "C13:clifford-act-on-tableau:embedded", "a CliffordGate on wires %r of %d qubits leaves a tableau whose stabilizers do not stabilize the state" % (w, n3),
              wires=w, n=n3, k=k3, pre=P.describe([pre]), **wit)
    ctx.check(L.phase_equal(ch3.state.state_vector(), psi3, 1e-7), "two-qubit-group", "C13:clifford-act-on-chform:embedded", "", wires=w, n=n3, k=k3, pre=P.describe([pre]), **wit)
    # from_op_list over a register in which the gate sits on other positions
    g3 = cirq.CliffordGate.from_op_list([P.step_to_op(pre, q3), op3], q3)
    U3 = L.embed(U, w, (2,) * n3) @ L.embed(P.step_to_ref(pre).matrix, P.step_to_ref(pre).wires, (2,) * n3)
    ctx.check(L.phase_equal(cirq.unitary(g3), U3, 1e-7), "two-qubit-group", "C13:from_op_list-unitary:embedded",
              lambda: "unitary deviates by %.3g up to phase" % L.phase_diff(cirq.unitary(g3), U3), wires=w, n=n3, pre=P.describe([pre]), **wit)
    ctx.distinct(("c2", idx), nontrivial=len(word) > 0)
    ctx.sample({"index": idx, "word_len": len(word)})


def teardown(ctx):
    sec = ctx.sections.get("group2")
    if ctx.tier == "thorough" and sec and not sec["truncated"] and sec["planned"] * ctx.nshards >= 11520:
        ctx.extra["exhaustive_two_qubit_group_this_shard"] = True


SECTIONS = [
    ("states", sec_states, 3000, 60000, 3.0),
    ("state_objects", sec_state_objects, 1500, 30000, 1.5),
    ("simulator", sec_simulator, 1200, 30000, 1.0),
    ("run", sec_run, 900, 20000, 2.0),
    ("group1", sec_group1, 24, 24, 1.0),
    ("group2", sec_group2, 1200, 11520, 2.0),
]
