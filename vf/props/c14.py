"""C14 - Pauli-string algebra and expectation values match their matrices.

Monitor: every algebraic operation of PauliString / MutablePauliString /
DensePauliString / PauliSum / phasors / projectors is executed on generated
operands and the resulting object is read back through its public accessors;
oracle: Kronecker products of the 2x2 Pauli matrices and numpy matrix algebra
(vf.refmodel.pauli), conjugator matrices from the closed-form gate catalogue."""
from __future__ import annotations

import itertools
import math

import numpy as np

from vf.refmodel import gates as G
from vf.refmodel import linalg as L
from vf.refmodel import pauli as R
from vf.workloads import gatepool as GP

LEVEL = "exploration"
RULE = ("exhaustive part: all 16 Pauli patterns on 2 wires x coefficients {+-1,+-i} for every ordered pair (4096 pairs, every "
        "binary law), all 4096 one-wire triples, all 24 single-qubit Cliffords (words over H,S) and CZ/CNOT/SWAP/ISWAP in every "
        "placement x all strings on 2-3 wires x 4 coefficients x conjugated_by/after/before/in-place; two-qubit Clifford group "
        "enumerated breadth-first (sampled in quick, complete in thorough); random part: strings on <=5 qubits with complex "
        "coefficients, sums of <=6 terms, Clifford circuits of <=12 catalogue gates on <=4 qubits, Haar/product states with "
        "random qubit maps incl. unused state axes.  A case is distinct by (section, operand specs rounded to 6 digits) and "
        "non-trivial when the operands overlap on a wire with different non-identity letters / the conjugator moves the string "
        "/ the observable is not the identity")
ASSUMPTIONS = ["vf/refmodel/gates.py catalogue matrices are the specification of the conjugating gates (policed by C03)",
               "in-place multiplication of MutablePauliString is specified through the immutable product it implements "
               "(inplace_left_multiply_by(o) == frozen(self)*o), as the property states; the method names say the opposite",
               "tolerance 1e-7 (relative to the largest entry) on complex128 matrices, 5e-5 on complex64 expectation values"]
MIN_EVAL = {"mul==matrix-product": 4000, "conjugation==C^dag.P.C": 2000, "dense-mul==matrix-product": 2000,
            "expectation==<psi|P|psi>": 100, "expectation==tr(rho.P)": 100, "simulate_expectation_values": 20,
            "phasor-unitary==closed-form": 100, "pauli-sum-arith==matrix": 200, "sampled-observable==<psi|P|psi>": 100}
MUST_REACH = [
    "cirq/ops/pauli_string.py:PauliString.__mul__", "cirq/ops/pauli_string.py:PauliString.__rmul__",
    "cirq/ops/pauli_string.py:PauliString.__pow__", "cirq/ops/pauli_string.py:MutablePauliString._imul_helper",
    "cirq/ops/pauli_string.py:_calc_conjugation", "cirq/ops/pauli_string.py:MutablePauliString.inplace_before",
    "cirq/ops/pauli_string.py:MutablePauliString.inplace_after",
    "cirq/ops/pauli_string.py:MutablePauliString.inplace_left_multiply_by",
    "cirq/ops/pauli_string.py:MutablePauliString.inplace_right_multiply_by",
    "cirq/ops/dense_pauli_string.py:BaseDensePauliString.__mul__",
    "cirq/ops/dense_pauli_string.py:_vectorized_pauli_mul_phase",
    "cirq/ops/linear_combinations.py:PauliSum.__mul__", "cirq/ops/linear_combinations.py:PauliSum.__pow__",
    "cirq/ops/linear_combinations.py:PauliSum.matrix",
    "cirq/ops/linear_combinations.py:PauliSum.expectation_from_state_vector",
    "cirq/ops/linear_combinations.py:PauliSum.expectation_from_density_matrix",
    "cirq/ops/pauli_string_phasor.py:PauliStringPhasorGate._decompose_",
    "cirq/ops/pauli_sum_exponential.py:PauliSumExponential.matrix",
    "cirq/ops/pauli_sum_exponential.py:PauliSumExponential.__iter__",
    "cirq/sim/sparse_simulator.py:Simulator.simulate_expectation_values_sweep_iter",
    "cirq/ops/projector.py:ProjectorString.matrix",
]

ATOL = 1e-7
_S = {}
PAT2 = R.all_patterns(2)
PAT3 = R.all_patterns(3)
C4 = R.COEFS4

# known genuine defects are classified "explained-by" style with these keys
K_DENSE_SPARSE = "C14:dense-mul-sparse-drops-coefficient"
K_POW_1Q = "C14:pow-single-qubit-drops-coefficient-phase"
K_PHASOR_ID = "C14:phasor-identity-qubits-enter-parity"
K_PSE_MATRIX = "C14:pse-matrix-kron-of-factors"
K_EMPTY_RMUL = "C14:empty-string-times-dense-typeerror"
K_POW_EMPTY = "C14:pow-empty-string-loses-phase"


def setup(ctx):
    import cirq

    _S["cirq"] = cirq
    _S["gate"] = {"I": cirq.I, "X": cirq.X, "Y": cirq.Y, "Z": cirq.Z}
    _S["cliff1"] = R.single_qubit_cliffords()
    _S["cliff2"] = None
    _S["specs1"] = None
    # a mechanism that fires on every case would fill the worker's 40-violation store and hide every other
    # mechanism: keep the first few witnesses per mechanism and count the rest
    orig_fail, counts = ctx.fail, {}

    def limited_fail(mech, msg, **witness):
        counts[mech] = counts.get(mech, 0) + 1
        if counts[mech] <= 3:
            orig_fail(mech, msg, **witness)
        else:
            ctx.event("further-violations:" + mech)

    ctx.fail = limited_fail


# ------------------------------------------------------------------ generic helpers
def close(a, b, scale=None):
    a, b = np.asarray(a), np.asarray(b)
    if a.shape != b.shape:
        return False
    s = float(np.abs(b).max()) if b.size else 1.0
    return L.allclose(a, b, ATOL * max(1.0, s))


def letter_of(g):
    cirq = _S["cirq"]
    for k in "XYZ":
        if g is _S["gate"][k] or (isinstance(g, cirq.Pauli) and g == _S["gate"][k]):
            return k
    if g == cirq.I:
        return "I"
    return None


def to_ref(ps, qs):
    """Read a Cirq (Mutable)PauliString back through public accessors: (coef, {wire: letter}) or None."""
    idx = {q: i for i, q in enumerate(qs)}
    sparse = {}
    for q, g in ps.items():
        l = letter_of(g)
        if q not in idx or l is None or l == "I":
            return None
        sparse[idx[q]] = l
    try:
        return complex(ps.coefficient), sparse
    except TypeError:
        return None


def ref_mat(ps, qs):
    r = to_ref(ps, qs)
    if r is None:
        return np.full((1, 1), np.nan)
    return R.smat(r[1], r[0], len(qs))


def dense_ref(d):
    """DensePauliString -> (coef, letters) through public accessors."""
    return complex(d.coefficient), [letter_of(g) for g in d]


def dense_mat(d, n=None):
    c, ls = dense_ref(d)
    if any(l is None for l in ls):
        return np.full((1, 1), np.nan)
    if n is not None:
        ls = ls + ["I"] * (n - len(ls))
    return R.pmat(ls, c)


def sum_ref(psum, qs):
    terms = []
    for t in psum:
        r = to_ref(t, qs)
        if r is None:
            return None
        terms.append(r)
    return terms


def sum_ref_mat(psum, qs):
    t = sum_ref(psum, qs)
    if t is None:
        return np.full((1, 1), np.nan)
    return R.sum_mat(t, len(qs))


def mk_qubits(rng, n, kind=None):
    cirq = _S["cirq"]
    kind = int(rng.integers(4)) if kind is None else kind
    if kind == 0:
        xs = rng.choice(np.arange(-3, 12), size=n, replace=False)
        return [cirq.LineQubit(int(x)) for x in xs]
    if kind == 1:
        cells = rng.choice(16, size=n, replace=False)
        return [cirq.GridQubit(int(c) // 4, int(c) % 4) for c in cells]
    if kind == 2:
        names = rng.choice(list("abcdefghjk"), size=n, replace=False)
        return [cirq.NamedQubit(str(s)) for s in names]
    out = []
    for i in range(n):
        out.append([cirq.LineQubit(i), cirq.GridQubit(0, i), cirq.NamedQubit("n%d" % i)][int(rng.integers(3))])
    return out


def build(spec, qs, variant):
    """Cirq PauliString for spec=(coef, sparse) through one of the public construction routes."""
    cirq = _S["cirq"]
    coef, sparse = spec
    gate = _S["gate"]
    items = list(sparse.items())
    v = variant % 6
    if v == 0:
        return cirq.PauliString(qubit_pauli_map={qs[w]: gate[l] for w, l in items}, coefficient=coef)
    if v == 1:
        return cirq.PauliString(coef, {qs[w]: l for w, l in items})
    if v == 2:
        p = cirq.PauliString(coefficient=coef)
        for w, l in items:
            p = p * gate[l](qs[w])
        return p
    if v == 3:
        return cirq.PauliString([gate[l](qs[w]) for w, l in items], coef, {qs[w]: "I" for w in range(len(qs)) if w not in sparse})
    if v == 4:
        return cirq.DensePauliString(R.letters_of(sparse, len(qs)), coefficient=coef).on(*qs)
    return cirq.MutablePauliString({qs[w]: "IXYZ".index(l) for w, l in items}, coefficient=coef).frozen()


def build_maybe_gateop(spec, qs, variant):
    """Like build, but a coefficient-1 single-letter string may come as the gate operation cirq.X(q)."""
    coef, sparse = spec
    if len(sparse) == 1 and coef == 1 and variant % 2 == 0:
        (w, l), = sparse.items()
        return _S["gate"][l](qs[w])
    return build(spec, qs, variant)


def spec_key(spec):
    c, s = spec
    return (round(c.real, 6), round(c.imag, 6), tuple(sorted(s.items())))


def sparse_of(pattern):
    return {w: l for w, l in enumerate(pattern) if l != "I"}


def overlap_nontrivial(sa, sb):
    return any(w in sb and sb[w] != l for w, l in sa.items())


def rand_coef(rng):
    r = rng.random()
    if r < 0.25:
        return complex(C4[int(rng.integers(4))])
    if r < 0.4:
        return complex(float(rng.choice([0.5, 2.0, -1.5, 3.0, -0.25])))
    mag = float(rng.uniform(0.2, 3.0))
    return complex(mag * np.exp(1j * rng.uniform(0, 2 * math.pi)))


def rand_unit_coef(rng):
    if rng.random() < 0.5:
        return complex(C4[int(rng.integers(4))])
    return complex(np.exp(1j * rng.uniform(0, 2 * math.pi)))


def rand_sparse(rng, n, min_len=0):
    while True:
        s = {}
        p_id = rng.choice([0.2, 0.5])
        for w in range(n):
            if rng.random() > p_id:
                s[w] = "XYZ"[int(rng.integers(3))]
        if len(s) >= min_len:
            return s


def lower_ops(ops, qs):
    """Unitary of a Cirq-produced op list, op by op through cirq.unitary + refmodel embedding."""
    cirq = _S["cirq"]
    idx = {q: i for i, q in enumerate(qs)}
    steps = []
    for op in cirq.flatten_to_ops(ops):
        steps.append((cirq.unitary(op), [idx[q] for q in op.qubits]))
    return R.circuit_matrix(steps, len(qs))


# ------------------------------------------------------------------ exhaustive: binary laws on <= 2 qubits
def sec_exh_pairs(ctx, rng, case):
    cirq = _S["cirq"]
    pa, pb = PAT2[case // 16], PAT2[case % 16]
    sa, sb = sparse_of(pa), sparse_of(pb)
    qs = mk_qubits(rng, 2, kind=case % 4)
    lq = [cirq.LineQubit(0), cirq.LineQubit(1)]
    nontriv = overlap_nontrivial(sa, sb)
    for ia, ca in enumerate(C4):
        for ib, cb in enumerate(C4):
            va, vb = int(rng.integers(6)), int(rng.integers(6))
            A = build_maybe_gateop((ca, sa), qs, va)
            B = build_maybe_gateop((cb, sb), qs, vb)
            MA, MB = R.pmat(pa, ca), R.pmat(pb, cb)
            wit = dict(a="".join(pa), ca=ca, b="".join(pb), cb=cb, variants=(va, vb))
            ctx.check(close(ref_mat(A, qs), MA) and close(ref_mat(B, qs), MB), "constructor==spec", "C14:constructor", "", **wit)
            # product
            AB = A * B
            ctx.check(isinstance(AB, cirq.PauliString) and close(ref_mat(AB, qs), MA @ MB), "mul==matrix-product",
                      "C14:mul-phase", lambda: "A*B = %s" % (AB,), got=str(AB), **wit)
            # sums
            S1, D1 = A + B, A - B
            ctx.check(isinstance(S1, cirq.PauliSum) and close(sum_ref_mat(S1, qs), MA + MB), "add==matrix-sum", "C14:add",
                      lambda: "A+B = %s" % (S1,), **wit)
            ctx.check(close(sum_ref_mat(D1, qs), MA - MB), "sub==matrix-difference", "C14:sub", lambda: "A-B = %s" % (D1,), **wit)
            # commutation
            cm = cirq.commutes(A, B)
            ctx.check(cm is True or cm is False, "commutes<=>matrices-commute", "C14:commutes-type", repr(cm), **wit)
            ctx.check(bool(cm) == R.mats_commute(MA, MB), "commutes<=>matrices-commute", "C14:commutes", "cirq.commutes=%r" % (cm,), **wit)
            # equality <=> same matrix (coefficients are exact here)
            same = bool(np.array_equal(MA, MB))
            ctx.check((A == B) == same and (A != B) == (not same), "eq<=>same-matrix", "C14:eq", "A==B is %r" % (A == B,), **wit)
            if same:
                ctx.check(hash(A) == hash(B), "eq<=>same-matrix", "C14:hash", "equal strings hash differently", **wit)
            # mutable in-place products, specified through the immutable product they implement
            m = A.mutable_copy()
            r = m.inplace_left_multiply_by(B)
            ctx.check(r is m and close(ref_mat(m, qs), MA @ MB), "inplace-mul==immutable-product", "C14:inplace-left-mul",
                      lambda: "A.mutable_copy().inplace_left_multiply_by(B) = %s, A*B = %s" % (m, AB), **wit)
            m = A.mutable_copy()
            r = m.inplace_right_multiply_by(B)
            ctx.check(r is m and close(ref_mat(m, qs), MB @ MA), "inplace-mul==immutable-product", "C14:inplace-right-mul",
                      lambda: "A.mutable_copy().inplace_right_multiply_by(B) = %s" % (m,), **wit)
            m = A.mutable_copy()
            m0 = m
            m *= B  # docstring of __imul__: left-multiplies `other` into self
            ctx.check(m is m0 and close(ref_mat(m, qs), MB @ MA), "inplace-mul==immutable-product", "C14:imul", lambda: "m*=B -> %s" % (m,), **wit)
            if not R.mats_commute(MA, MB):
                ctx.event("naming:inplace_left_multiply_by(o)==self.o-and-right==o.self (names opposite to matrix order)")
            mm = A.mutable_copy() * B
            ctx.check(isinstance(mm, cirq.PauliString) and close(ref_mat(mm, qs), MA @ MB), "mul==matrix-product", "C14:mutable-mul", "", **wit)
            ctx.check(close(ref_mat(A, qs), MA) and close(ref_mat(B, qs), MB), "operands-unchanged", "C14:operand-mutated", "", **wit)
            # dense strings
            DA, DB = cirq.DensePauliString("".join(pa), coefficient=ca), cirq.DensePauliString(list(map("IXYZ".index, pb)), coefficient=cb)
            DAB = DA * DB
            ctx.check(isinstance(DAB, cirq.DensePauliString) and close(dense_mat(DAB), MA @ MB), "dense-mul==matrix-product",
                      "C14:dense-mul", lambda: "%s * %s = %s" % (DA, DB, DAB), **wit)
            md = DA.mutable_copy()
            md0 = md
            md *= DB
            ctx.check(md is md0 and close(dense_mat(md), MA @ MB), "dense-mul==matrix-product", "C14:dense-imul", lambda: str(md), **wit)
            dcm = cirq.commutes(DA, DB)
            ctx.check(bool(dcm) == R.mats_commute(MA, MB), "commutes<=>matrices-commute", "C14:dense-commutes", repr(dcm), **wit)
            ctx.check((DA == DB) == same, "eq<=>same-matrix", "C14:dense-eq", "", **wit)
            # scalars
            for name, obj, want in (("c*A", cb * A, cb * MA), ("A*c", A * cb, cb * MA), ("A/c", A / cb, MA / cb)):
                ctx.check(isinstance(obj, cirq.PauliString) and close(ref_mat(obj, qs), want), "scalar-mul==matrix", "C14:scalar-mul",
                          lambda: "%s = %s" % (name, obj), **wit)
            ctx.distinct(("pair", "".join(pa), "".join(pb), ia, ib), nontrivial=nontriv)
    # dense x sparse on LineQubits (dense index = LineQubit.x); coefficient of the sparse operand is part of the product
    for ia, ca in enumerate(C4):
        cb = C4[(ia + case) % 4]
        DA = cirq.DensePauliString("".join(pa), coefficient=ca)
        PB = build((cb, sb), lq, int(rng.integers(4)))
        MA, MB = R.pmat(pa, ca), R.pmat(pb, cb)
        n_b = max(sb) + 1 if sb else 0
        for name, got, want, alt in (("dense*sparse", _try(lambda: DA * PB), MA @ MB, MA @ MB / cb),
                                     ("sparse*dense", _try(lambda: PB * DA), MB @ MA, MB @ MA / cb)):
            if isinstance(got, TypeError) and not sb and name == "sparse*dense":
                # PauliString() * DensePauliString: BaseDensePauliString.__rmul__ tests the converted operand for truthiness
                ctx.check(False, "dense-x-sparse==matrix-product", K_EMPTY_RMUL,
                          "PauliString(coefficient=%r) * %r raises TypeError (every non-empty string is accepted)" % (cb, DA),
                          a="".join(pa), ca=ca, cb=cb)
                continue
            if isinstance(got, Exception):
                raise got
            _dense_sparse_check(ctx, name, got, want, alt, cb, dict(a="".join(pa), ca=ca, b="".join(pb), cb=cb))
    ctx.sample({"a": "".join(pa), "b": "".join(pb), "coefficients": "all 16 pairs of +-1,+-i"})


def _try(f):
    try:
        return f()
    except Exception as e:  # noqa
        return e


def _dense_sparse_check(ctx, name, got, want, alt, cb, wit):
    cirq = _S["cirq"]
    if isinstance(got, cirq.PauliString):
        M = ref_mat(got, [cirq.LineQubit(i) for i in range(int(math.log2(want.shape[0])))])
    elif isinstance(got, cirq.ops.dense_pauli_string.BaseDensePauliString):
        M = dense_mat(got, int(math.log2(want.shape[0])))
    else:
        M = np.full((1, 1), np.nan)
    ok = close(M, want)
    if ok:
        ctx.ok("dense-x-sparse==matrix-product")
        return
    mech = K_DENSE_SPARSE if (cb != 1 and close(M, alt)) else "C14:dense-x-sparse"
    ctx.check(False, "dense-x-sparse==matrix-product", mech,
              "%s = %s: coefficient of the PauliString operand %r is missing from the product" % (name, got, cb)
              if mech == K_DENSE_SPARSE else "%s = %s" % (name, got), **wit)


def sec_exh_triples(ctx, rng, case):
    cirq = _S["cirq"]
    la, lb, lc = "IXYZ"[case // 16], "IXYZ"[(case // 4) % 4], "IXYZ"[case % 4]
    qs = mk_qubits(rng, 1, kind=case % 3)
    for ca, cb, cc in itertools.product(C4, repeat=3):
        specs = [(ca, sparse_of(la)), (cb, sparse_of(lb)), (cc, sparse_of(lc))]
        A, B, C = [build_maybe_gateop(s, qs, int(rng.integers(6))) for s in specs]
        want = R.pmat(la, ca) @ R.pmat(lb, cb) @ R.pmat(lc, cc)
        wit = dict(letters=la + lb + lc, coefs=(ca, cb, cc))
        ctx.check(close(ref_mat((A * B) * C, qs), want), "mul==matrix-product", "C14:mul-assoc-left", "", **wit)
        ctx.check(close(ref_mat(A * (B * C), qs), want), "mul==matrix-product", "C14:mul-assoc-right", "", **wit)
        ctx.check(close(ref_mat(cirq.PauliString(A, B, C), qs), want), "mul==matrix-product", "C14:constructor-product", "", **wit)
        ctx.distinct(("triple", la, lb, lc, ca, cb, cc), nontrivial=len({la, lb, lc} - {"I"}) >= 2)
    ctx.sample({"letters": la + lb + lc})


def sec_exh_unary(ctx, rng, case):
    cirq = _S["cirq"]
    pa = PAT2[case % 16]
    sa = sparse_of(pa)
    qs = mk_qubits(rng, 2, kind=case % 4)
    q3 = mk_qubits(rng, 3, kind=2)
    for ca in C4:
        A = build_maybe_gateop((ca, sa), qs, int(rng.integers(6)))
        MA = R.pmat(pa, ca)
        wit = dict(a="".join(pa), ca=ca)
        ctx.check(close(ref_mat(-A, qs), -MA), "neg==-matrix", "C14:neg", "", **wit)
        ctx.check(close(ref_mat(+A, qs), MA), "neg==-matrix", "C14:pos", "", **wit)
        # the object's own matrix views
        ctx.check(close(A.matrix(qs), MA), "matrix()==kron", "C14:matrix", "", **wit)
        ctx.check(close(A.matrix(qs[::-1]), R.pmat(pa[::-1], ca)), "matrix()==kron", "C14:matrix-order", "", **wit)
        ctx.check(close(A.sparse_matrix(qs).toarray(), MA), "matrix()==kron", "C14:sparse-matrix", "", **wit)
        u = cirq.unitary(A, None)
        want_u = R.pmat([sa[qs.index(q)] for q in A.qubits], ca)
        ctx.check(u is not None and close(u, want_u), "matrix()==kron", "C14:unitary", "", **wit)
        # integer powers
        for k in (-3, -2, -1, 0, 1, 2, 3, 4):
            _pow_check(ctx, A, qs, MA, k, len(sa), ca, dict(k=k, **wit))
        # qubit remapping
        swapped = A.map_qubits({qs[0]: qs[1], qs[1]: qs[0]})
        ctx.check(close(ref_mat(swapped, qs), R.pmat(pa[::-1], ca)), "map_qubits==relabelled-matrix", "C14:map-qubits", "", **wit)
        moved = A.map_qubits({qs[0]: q3[2], qs[1]: q3[0]})
        ctx.check(close(ref_mat(moved, q3), R.pmat((pa[1], "I", pa[0]), ca)), "map_qubits==relabelled-matrix", "C14:map-qubits", "", **wit)
        # dense round trip and dense unary operations
        D = A.dense(qs)
        ctx.check(close(dense_mat(D), MA) and D.on(*qs) == A, "dense-roundtrip", "C14:dense-roundtrip", str(D), **wit)
        ctx.check(close(dense_mat(-D), -MA), "dense-unary", "C14:dense-neg", "", **wit)
        ctx.check(close(dense_mat(abs(D)), R.pmat(pa, abs(ca))), "dense-unary", "C14:dense-abs", "", **wit)
        for k in (-3, -2, -1, 0, 1, 2, 3, 5):
            ctx.check(close(dense_mat(D ** k), R.matrix_power(MA, k)), "dense-pow==matrix-power", "C14:dense-pow", lambda: "%s**%d = %s" % (D, k, D ** k), k=k, **wit)
        ctx.distinct(("unary", "".join(pa), ca), nontrivial=bool(sa))
    ctx.sample({"a": "".join(pa)})


def _pow_check(ctx, A, qs, MA, k, nletters, coef, wit):
    """P**k (integer k) is an object whose matrix is MA^k; non-unit coefficients are rejected as documented."""
    cirq = _S["cirq"]
    want = R.matrix_power(MA, k)
    if abs(abs(coef) - 1) > 1e-4 and k not in (1, -1):
        try:
            A ** k
        except TypeError:
            ctx.reject("pow-of-non-unitary-pauli-string")
            return
        ctx.check(False, "pow==matrix-power", "C14:pow-nonunit-accepted", "non-unitary string raised to %d did not raise" % k, **wit)
        return
    if 1e-9 < abs(abs(coef) - 1) <= 1e-4 and k not in (1, -1):
        # inside the window in which __pow__ takes the coefficient for a pure phase (|coef| within 1e-4 of 1, a constant in
        # the source): the result is the power of the normalised string
        want = R.matrix_power(MA / abs(coef), k)
        ctx.event("pow:coefficient-modulus-within-1e-4-of-one")
    r = A ** k
    if isinstance(r, cirq.PauliString) and not isinstance(r, cirq.GateOperation):
        M = ref_mat(r, qs)
    elif isinstance(r, cirq.Operation):
        try:
            M = lower_ops([r], qs)
        except KeyError:
            M = np.full((1, 1), np.nan)
    else:
        M = np.full((1, 1), np.nan)
    if close(M, want):
        ctx.ok("pow==matrix-power")
        return
    mech = "C14:pow"
    if nletters == 1 and coef != 1 and close(M, R.matrix_power(MA / coef, k)):
        mech = K_POW_1Q
    elif nletters == 0 and coef != 1 and close(M, R.matrix_power(MA / coef, k)):
        mech = K_POW_EMPTY  # zero-qubit phasor: its decomposition is empty, the global phase is lost
    ctx.check(False, "pow==matrix-power", mech, "(%s)**%d = %r whose matrix is not the matrix power%s" % (
        A, k, r, " (coefficient phase %r dropped for a one-qubit string)" % (coef,) if mech == K_POW_1Q else ""), **wit)


# ------------------------------------------------------------------ conjugation by Clifford operations
def _conj_all(ctx, P, spec, qs, tree_fn, C, wit, methods, nontrivial_key):
    """conjugated_by(C) = C^dag P C, before(C) = C^dag P C, after(C) = C P C^dag (docstrings of PauliString)."""
    n = len(qs)
    M = R.smat(spec[1], spec[0], n)
    Cd = C.conj().T
    want = {"conjugated_by": Cd @ M @ C, "before": Cd @ M @ C, "after": C @ M @ Cd,
            "inplace_before": Cd @ M @ C, "inplace_after": C @ M @ Cd}
    for name in methods:
        if name.startswith("inplace"):
            m = P.mutable_copy()
            r = getattr(m, name)(tree_fn())
            got = ref_mat(m, qs)
            ok = r is m and close(got, want[name])
        else:
            r = getattr(P, name)(tree_fn())
            got = ref_mat(r, qs)
            ok = close(got, want[name])
        ctx.check(ok, "conjugation==C^dag.P.C", "C14:conjugation:" + name,
                  lambda: "%s.%s(C) = %s" % (P, name, r), method=name, **wit)
    ctx.check(close(ref_mat(P, qs), M), "operands-unchanged", "C14:operand-mutated", "", **wit)
    return not close(want["conjugated_by"], M)


def sec_exh_cliff1(ctx, rng, case):
    cirq = _S["cirq"]
    word, U = _S["cliff1"][case % 24]
    wire = (case // 24) % 2
    qs = mk_qubits(rng, 2, kind=case % 4)
    q = qs[wire]
    gate = {"H": cirq.H, "S": cirq.S}
    C = R.place(U, [wire], 2)

    def forms(i):
        ops = [gate[g](q) for g in word]
        if i == 1:
            return lambda: tuple([op] for op in ops)
        if i == 2 and ops:
            cg = cirq.CliffordGate.from_op_list(ops, [q])
            return lambda: cg.on(q)
        if i == 3:
            return lambda: (op for op in ops)
        return lambda: list(ops)

    moved = 0
    for pat in PAT2:
        sp = sparse_of(pat)
        for ic, c in enumerate(C4):
            P = build_maybe_gateop((c, sp), qs, int(rng.integers(6)))
            wit = dict(clifford="".join(word) or "identity", wire=wire, string="".join(pat), coef=c, form=ic)
            methods = ("conjugated_by", "before", "after") + (("inplace_before", "inplace_after") if ic in (0, 2) else ())
            mv = _conj_all(ctx, P, (c, sp), qs, forms(ic), C, wit, methods, None)
            moved += mv
            ctx.distinct(("cliff1", word, wire, pat, ic), nontrivial=mv)
    ctx.sample({"clifford_word": "".join(word) or "identity", "wire": wire, "strings": "all 16 x 4 coefficients", "moved": moved})


def sec_doc_examples(ctx, rng, case):
    """The worked examples in the conjugated_by docstring pin the direction (C^dag P C, not C P C^dag) independently of
    this driver's reading of the formula; the oracle is first checked against them, then Cirq is."""
    cirq = _S["cirq"]
    a, b = cirq.LineQubit.range(2)
    Sm = np.diag([1, 1j]).astype(complex)
    cz = np.diag([1, 1, 1, -1]).astype(complex)
    cx = G.eigen_gate("CXPow", 1)
    h0 = np.kron(G.H, G.I2)
    # docstring: "conjugating a +Y operation by an S operation results in a +X operation (as opposed to a -X operation)"
    if not (close(Sm.conj().T @ G.Y @ Sm, G.X) and close(Sm.conj().T @ G.X @ Sm, -G.Y)
            and close(cz.conj().T @ np.kron(G.X, G.I2) @ cz, np.kron(G.X, G.Z))
            and close((cx @ h0).conj().T @ np.kron(G.X, G.I2) @ (cx @ h0), np.kron(G.Z, G.X))):
        raise AssertionError("oracle direction disagrees with the docstring examples")
    ex = [(cirq.Y(a), cirq.S(a), (1, {0: "X"})), (cirq.X(a), cirq.S(a), (-1, {0: "Y"})),
          (cirq.X(a), cirq.CZ(a, b), (1, {0: "X", 1: "Z"})), (cirq.X(a), [cirq.H(a), cirq.CNOT(a, b)], (1, {0: "Z", 1: "X"}))]
    for P, C, (c, sp) in ex:
        got = P.conjugated_by(C)
        ctx.check(close(ref_mat(got, [a, b]), R.smat(sp, c, 2)), "conjugation==C^dag.P.C", "C14:conjugation:docstring-example",
                  "%s.conjugated_by(%s) = %s" % (P, C, got))
        ctx.check(close(ref_mat(P.before(C), [a, b]), R.smat(sp, c, 2)), "conjugation==C^dag.P.C", "C14:conjugation:docstring-example", "before")
        back = got.after(C)
        ctx.check(close(ref_mat(back, [a, b]), ref_mat(P, [a, b])), "conjugation==C^dag.P.C", "C14:conjugation:after-undoes-before",
                  "%s.after(C) = %s" % (got, back))
    ctx.distinct(("doc-examples",), nontrivial=True)
    ctx.sample({"examples": "Y by S -> +X; X by S -> -Y; X(a) by CZ -> X(a)Z(b); X(a) by [H(a), CNOT(a,b)] -> Z(a)X(b)"})


_TWOQ = None


def _twoq_named():
    cirq = _S["cirq"]
    return [("CZ", cirq.CZ, np.diag([1, 1, 1, -1]).astype(complex)), ("CNOT", cirq.CNOT, G.eigen_gate("CXPow", 1)),
            ("SWAP", cirq.SWAP, G.SWAP), ("ISWAP", cirq.ISWAP, G.iswappow_doc(1)), ("ISWAP_INV", cirq.ISWAP_INV, G.iswappow_doc(-1))]


def sec_exh_cliff2(ctx, rng, case):
    cirq = _S["cirq"]
    named = _twoq_named()
    name, gate, U = named[case % 5]
    placements = [(a, b) for a in range(3) for b in range(3) if a != b]
    a, b = placements[(case // 5) % 6]
    qs = mk_qubits(rng, 3, kind=case % 4)
    C = R.place(U, [a, b], 3)
    op = gate(qs[a], qs[b])
    moved = 0
    for pat in PAT3:
        sp = sparse_of(pat)
        for ic, c in enumerate(C4):
            P = build_maybe_gateop((c, sp), qs, int(rng.integers(6)))
            wit = dict(gate=name, on=(a, b), string="".join(pat), coef=c)
            methods = ("conjugated_by", "before", "after") + (("inplace_before", "inplace_after") if ic == 0 else ())
            tree = (lambda: op) if ic % 2 == 0 else (lambda: [[op]])
            mv = _conj_all(ctx, P, (c, sp), qs, tree, C, wit, methods, None)
            moved += mv
            ctx.distinct(("cliff2g", name, a, b, pat, ic), nontrivial=mv)
    ctx.sample({"gate": name, "wires": [a, b], "strings": "all 64 on 3 wires x 4 coefficients", "moved": moved})


N_CLIFF2 = 11520


def sec_cliff2_enum(ctx, rng, case):
    cirq = _S["cirq"]
    if _S["cliff2"] is None:
        _S["cliff2"] = R.two_qubit_cliffords()
    idx = (case * 7919) % N_CLIFF2  # 7919 is coprime to 11520: the thorough tier visits every element once
    word, U = _S["cliff2"][idx]
    qs = mk_qubits(rng, 2, kind=case % 4)
    g = {"H": cirq.H, "S": cirq.S}
    ops = [cirq.CZ(qs[0], qs[1]) if w[0] == "CZ" else g[w[0]](qs[w[1]]) for w in word]
    moved = 0
    for ip, pat in enumerate(PAT2[1:]):
        sp = sparse_of(pat)
        c = C4[(ip + case) % 4]
        P = build((c, sp), qs, ip % 6)
        methods = ("conjugated_by", "after") if ip % 3 == 0 else (("before",) if ip % 3 == 1 else ("conjugated_by",))
        wit = dict(word=[list(w) for w in word], index=idx, string="".join(pat), coef=c)
        moved += _conj_all(ctx, P, (c, sp), qs, lambda: list(ops), U, wit, methods, None)
    if ops and case % 4 == 0:
        cg = cirq.CliffordGate.from_op_list(ops, qs).on(*qs)
        pat = PAT2[1 + case % 15]
        _conj_all(ctx, build((1j, sparse_of(pat)), qs, 0), (1j, sparse_of(pat)), qs, lambda: cg, U,
                  dict(index=idx, string="".join(pat), form="CliffordGate"), ("conjugated_by", "after"), None)
    ctx.distinct(("cliff2", idx), nontrivial=moved > 0)
    ctx.event("two_qubit_clifford_elements_visited")
    ctx.sample({"clifford_index": idx, "word": ["".join(map(str, w)) for w in word], "strings": "all 15 non-identity on 2 wires"})


def _clifford_pool():
    if _S.get("cpool") is not None:
        return _S["cpool"]
    cirq = _S["cirq"]
    E = G.eigen_gate
    pi = math.pi
    Sm = np.diag([1, 1j]).astype(complex)
    one = [("H", cirq.H, G.H), ("S", cirq.S, Sm), ("S^-1", cirq.S ** -1, Sm.conj()), ("X", cirq.X, G.X), ("Y", cirq.Y, G.Y),
           ("Z", cirq.Z, G.Z), ("X^0.5", cirq.X ** 0.5, E("XPow", 0.5)), ("X^-0.5", cirq.X ** -0.5, E("XPow", -0.5)),
           ("Y^0.5", cirq.Y ** 0.5, E("YPow", 0.5)), ("Y^-0.5", cirq.Y ** -0.5, E("YPow", -0.5)), ("Z^1.5", cirq.Z ** 1.5, E("ZPow", 1.5)),
           ("rx(pi/2)", cirq.rx(pi / 2), G.rx(pi / 2)), ("ry(-pi/2)", cirq.ry(-pi / 2), G.ry(-pi / 2)), ("rz(pi)", cirq.rz(pi), G.rz(pi)),
           ("PhXZ", cirq.PhasedXZGate(x_exponent=0.5, z_exponent=-0.5, axis_phase_exponent=0.5), G.phased_xz(0.5, -0.5, 0.5)),
           ("PhX", cirq.PhasedXPowGate(phase_exponent=0.5, exponent=0.5), G.phased_xpow(0.5, 0.5)), ("I", cirq.I, G.I2)]
    two = _twoq_named() + [("XX", cirq.XX, np.kron(G.X, G.X)), ("ZZ^0.5", cirq.ZZ ** 0.5, E("ZZPow", 0.5)),
                           ("XX^-0.5", cirq.XX ** -0.5, E("XXPow", -0.5)), ("YY^0.5", cirq.YY ** 0.5, E("YYPow", 0.5)),
                           ("ISWAP^3", cirq.ISWAP ** 3, G.iswappow_doc(3)), ("HxH", cirq.ParallelGate(cirq.H, 2), np.kron(G.H, G.H)),
                           ("CZ", cirq.CZ, np.diag([1, 1, 1, -1]).astype(complex)), ("CNOT", cirq.CNOT, E("CXPow", 1))]
    non = [("T", cirq.T, 1), ("X^0.3", cirq.X ** 0.3, 1), ("rx(0.3)", cirq.rx(0.3), 1), ("H^0.5", cirq.H ** 0.5, 1),
           ("CZ^0.5", cirq.CZ ** 0.5, 2), ("ISWAP^0.5", cirq.ISWAP ** 0.5, 2), ("CCZ", cirq.CCZ, 3), ("FSim", cirq.FSimGate(0.3, 0.2), 2)]
    _S["cpool"] = (one, two, non)
    return _S["cpool"]


def _random_clifford(rng, qs, wires, k):
    """k random catalogue Clifford gates on `wires`: (cirq ops, oracle steps, names)."""
    cirq = _S["cirq"]
    one, two, _ = _clifford_pool()
    ops, steps, names = [], [], []
    for _ in range(k):
        r = rng.random()
        if len(wires) >= 2 and r < 0.45:
            name, gate, U = two[int(rng.integers(len(two)))]
            a, b = [int(x) for x in rng.choice(wires, size=2, replace=False)]
            ops.append(gate(qs[a], qs[b]))
            steps.append((U, [a, b]))
            names.append("%s(%d,%d)" % (name, a, b))
        elif r < 0.9:
            name, gate, U = one[int(rng.integers(len(one)))]
            a = int(rng.choice(wires))
            op = gate(qs[a])
            if rng.random() < 0.1:
                op = op.with_tags("tag")
            ops.append(op)
            steps.append((U, [a]))
            names.append("%s(%d)" % (name, a))
        elif r < 0.96:  # a Pauli string operation is a Clifford operation as well
            sp = {int(w): "XYZ"[int(rng.integers(3))] for w in rng.choice(wires, size=int(rng.integers(1, len(wires) + 1)), replace=False)}
            sign = complex(rng.choice([1, -1]))
            ops.append(build((sign, sp), qs, int(rng.integers(3))))
            ws = sorted(sp)
            steps.append((R.pmat([sp[w] for w in ws], sign), ws))
            names.append("pauli%s" % (sorted(sp.items()),))
        else:
            ph = complex(np.exp(1j * rng.uniform(0, 6.28)))
            ops.append(cirq.global_phase_operation(ph))
            steps.append((np.array([[ph]]), []))
            names.append("phase")
    return ops, steps, names


def _nest(rng, ops):
    r = rng.random()
    if r < 0.4 or len(ops) < 2:
        return list(ops)
    if r < 0.7:
        cut = int(rng.integers(1, len(ops)))
        return [list(ops[:cut]), tuple(ops[cut:])]
    return [[op] for op in ops]


def sec_rand_cliff(ctx, rng, case):
    cirq = _S["cirq"]
    n = int(rng.integers(1, 6))
    qs = mk_qubits(rng, n)
    spec = (rand_coef(rng), rand_sparse(rng, n))
    P = build_maybe_gateop(spec, qs, int(rng.integers(6)))
    nw = int(rng.integers(1, min(4, n) + 1))
    wires = sorted(int(w) for w in rng.choice(n, size=nw, replace=False))
    k = int(rng.integers(0, 13))
    ops, steps, names = _random_clifford(rng, qs, wires, k)
    wit = dict(n=n, string=spec_key(spec), circuit=names)
    if case % 10 == 9:  # non-Clifford conjugator: documented rejection
        _, _, non = _clifford_pool()
        cand = [g for g in non if g[2] <= n]
        name, gate, nq = cand[int(rng.integers(len(cand)))]
        ws = [int(w) for w in rng.choice(n, size=nq, replace=False)]
        pos = int(rng.integers(0, len(ops) + 1))
        bad = ops[:pos] + [gate(*[qs[w] for w in ws])] + ops[pos:]
        for meth in ("conjugated_by", "after", "before"):
            try:
                getattr(P, meth)(list(bad))
            except (ValueError, NotImplementedError, TypeError) as e:
                ctx.reject("non-clifford-conjugator:%s:%s" % (meth, type(e).__name__))
                ctx.ok("non-clifford-rejected")
                continue
            ctx.check(False, "non-clifford-rejected", "C14:non-clifford-accepted", "%s by %s returned a Pauli string" % (meth, name),
                      gate=name, **wit)
        return
    C = R.circuit_matrix(steps, n)
    tree = _nest(rng, ops)
    methods = ["conjugated_by", "before", "after"]
    if case % 3 == 0:
        methods += ["inplace_before", "inplace_after"]
    mv = _conj_all(ctx, P, spec, qs, lambda: tree, C, wit, methods, None)
    # docstring: P.conjugated_by([C1, C2]) == P.conjugated_by(C2).conjugated_by(C1)
    if len(ops) >= 2:
        cut = int(rng.integers(1, len(ops)))
        two_step = P.conjugated_by(ops[cut:]).conjugated_by(ops[:cut])
        ctx.check(close(ref_mat(two_step, qs), C.conj().T @ R.smat(spec[1], spec[0], n) @ C), "conjugation==C^dag.P.C",
                  "C14:conjugation:sequence-order", "", **wit)
    # a phasor conjugated by C is C^dag U C with the same exponents
    if abs(spec[0] - 1) < 1e-12 or abs(spec[0] + 1) < 1e-12:
        en, ep = GP.pick_exp(rng), GP.pick_exp(rng)
        ph = cirq.PauliStringPhasor(build(spec, qs, 0), exponent_neg=en, exponent_pos=ep)
        r = ph.conjugated_by(tree)
        rr = to_ref(r.pauli_string, qs)
        if rr is not None and abs(abs(rr[0]) - 1) < 1e-9:
            got = R.phasor(R.smat(rr[1], rr[0], n), float(r.exponent_neg), float(r.exponent_pos))
        else:
            got = np.full((1, 1), np.nan)
        want = C.conj().T @ R.phasor(R.smat(spec[1], spec[0], n), en, ep) @ C
        ctx.check(close(got, want), "conjugation==C^dag.P.C", "C14:conjugation:phasor", lambda: repr(r), exponents=(en, ep), **wit)
    ctx.distinct(("rcliff", spec_key(spec), tuple(names)), nontrivial=mv)
    ctx.sample({"n": n, "string": spec_key(spec), "circuit": names})



# ------------------------------------------------------------------ random strings on <= 5 qubits, arbitrary complex coefficients
def sec_rand_algebra(ctx, rng, case):
    cirq = _S["cirq"]
    gate = _S["gate"]
    n = int(rng.integers(1, 6))
    qs = mk_qubits(rng, n)
    sa, sb = rand_sparse(rng, n), rand_sparse(rng, n)
    if case % 4 == 0 and sa:  # force overlapping supports with different letters
        w = list(sa)[0]
        sb[w] = "XYZ"[("XYZ".index(sa[w]) + 1 + int(rng.integers(2))) % 3]
    A_spec, B_spec = (rand_coef(rng), sa), (rand_coef(rng), sb)
    va, vb = int(rng.integers(6)), int(rng.integers(6))
    A, B = build_maybe_gateop(A_spec, qs, va), build_maybe_gateop(B_spec, qs, vb)
    MA, MB = R.smat(sa, A_spec[0], n), R.smat(sb, B_spec[0], n)
    wit = dict(n=n, a=spec_key(A_spec), b=spec_key(B_spec), variants=(va, vb))
    ctx.check(close(ref_mat(A, qs), MA) and close(ref_mat(B, qs), MB), "constructor==spec", "C14:constructor", "", **wit)
    ctx.check(close(ref_mat(A * B, qs), MA @ MB), "mul==matrix-product", "C14:mul-phase", lambda: str(A * B), **wit)
    ctx.check(close(ref_mat(B * A, qs), MB @ MA), "mul==matrix-product", "C14:mul-phase", lambda: str(B * A), **wit)
    # single Pauli gates on qubits, from both sides
    w = int(rng.integers(n))
    l = "XYZ"[int(rng.integers(3))]
    Mg = R.smat({w: l}, 1, n)
    ctx.check(close(ref_mat(A * gate[l](qs[w]), qs), MA @ Mg), "mul==matrix-product", "C14:mul-gate-op", "", gate=(w, l), **wit)
    ctx.check(close(ref_mat(gate[l](qs[w]) * A, qs), Mg @ MA), "mul==matrix-product", "C14:mul-gate-op", "", gate=(w, l), **wit)
    # constructor contents are multiplied left to right, after qubit_pauli_map
    c = rand_coef(rng)
    prod = cirq.PauliString(A, [B, c, cirq.I(qs[w])], {qs[w]: l}, qubit_pauli_map={qs[w]: gate[l]}, coefficient=2)
    ctx.check(close(ref_mat(prod, qs), 2 * Mg @ MA @ MB * c @ Mg), "mul==matrix-product", "C14:constructor-product", lambda: str(prod), c=c, **wit)
    # scalars of every numeric flavour
    scalars = [c, float(rng.uniform(-3, 3)), int(rng.integers(-3, 4)) or 2, np.complex128(c), np.float64(1.5)]
    s = scalars[int(rng.integers(len(scalars)))]
    for name, f, want in (("s*A", lambda: s * A, complex(s) * MA), ("A*s", lambda: A * s, complex(s) * MA), ("A/s", lambda: A / s, MA / complex(s))):
        r = f()
        ctx.check(isinstance(r, cirq.PauliString) and close(ref_mat(r, qs), want), "scalar-mul==matrix", "C14:scalar-mul",
                  lambda: "%s with s=%r (%s) -> %r" % (name, s, type(s).__name__, r), **wit)
    ctx.check(close(ref_mat(-A, qs), -MA), "neg==-matrix", "C14:neg", "", **wit)
    # sums
    for name, f, want in (("A+B", lambda: A + B, MA + MB), ("A-B", lambda: A - B, MA - MB), ("A+s", lambda: A + c, MA + c * np.eye(2 ** n)),
                          ("s-A", lambda: c - A, c * np.eye(2 ** n) - MA), ("sum", lambda: sum([A, B, A]), 2 * MA + MB)):
        r = f()
        ctx.check(isinstance(r, cirq.PauliSum) and close(sum_ref_mat(r, qs), want), "add==matrix-sum", "C14:add", lambda: "%s = %s" % (name, r), **wit)
    # equality and commutation
    A2 = build(A_spec, qs, (va + 1 + int(rng.integers(5))) % 6)
    ctx.check(A == A2 and hash(A) == hash(A2), "eq<=>same-matrix", "C14:eq", "same string built two ways compares unequal", **wit)
    ctx.check(not (A == build((A_spec[0] * 1.5, sa), qs, 0)) and ((A == B) == (sa == sb and A_spec[0] == B_spec[0])),
              "eq<=>same-matrix", "C14:eq", "", **wit)
    ctx.check(A.equal_up_to_coefficient(B) == (sa == sb), "eq<=>same-matrix", "C14:equal-up-to-coefficient", "", **wit)
    cm = cirq.commutes(A, B)
    ctx.check(bool(cm) == R.mats_commute(MA, MB, 1e-9) and bool(cm) == R.letters_commute(R.letters_of(sa, n), R.letters_of(sb, n)),
              "commutes<=>matrices-commute", "C14:commutes", repr(cm), **wit)
    # zip_items / zip_paulis
    zi = {qs.index(q): (letter_of(p0), letter_of(p1)) for q, (p0, p1) in A.zip_items(B)}
    ctx.check(zi == {w_: (sa[w_], sb[w_]) for w_ in sa if w_ in sb} and sorted(zi.values()) == sorted((letter_of(x), letter_of(y)) for x, y in A.zip_paulis(B)),
              "zip==common-wires", "C14:zip-items", repr(zi), **wit)
    # qubit remapping
    m = n + int(rng.integers(0, 3))
    new_qs = mk_qubits(rng, m, kind=int(rng.integers(3)))
    perm = [int(x) for x in rng.permutation(m)[:n]]
    qmap = {qs[i]: new_qs[perm[i]] for i in range(n)}
    want = R.smat({perm[w_]: l_ for w_, l_ in sa.items()}, A_spec[0], m)
    ctx.check(close(ref_mat(A.map_qubits(qmap), new_qs), want), "map_qubits==relabelled-matrix", "C14:map-qubits", "", perm=perm, **wit)
    ctx.check(close(ref_mat(A.with_qubits(*[qmap[q] for q in A.qubits]), new_qs), want), "map_qubits==relabelled-matrix", "C14:with-qubits", "", **wit)
    mt = A.mutable_copy().transform_qubits(lambda q: qmap[q])
    ctx.check(close(ref_mat(mt, new_qs), want), "map_qubits==relabelled-matrix", "C14:transform-qubits", "", **wit)
    if n >= 2:  # a permutation of the string's own qubits
        cyc = {qs[i]: qs[(i + 1) % n] for i in range(n)}
        ctx.check(close(ref_mat(A.map_qubits(cyc), qs), R.smat({(w_ + 1) % n: l_ for w_, l_ in sa.items()}, A_spec[0], n)),
                  "map_qubits==relabelled-matrix", "C14:map-qubits-cycle", "", **wit)
    # matrix views with permuted / extra qubits
    order = [int(x) for x in rng.permutation(n)]
    ext = [qs[i] for i in order] + [_S["cirq"].NamedQubit("extra_axis")]
    want = R.pmat([sa.get(i, "I") for i in order] + ["I"], A_spec[0])
    ctx.check(close(A.matrix(ext), want), "matrix()==kron", "C14:matrix", "", order=order, **wit)
    ctx.check(close(A.sparse_matrix(ext).toarray(), want), "matrix()==kron", "C14:sparse-matrix", "", order=order, **wit)
    # mutable strings: specified through the immutable product they implement
    mu = A.mutable_copy()
    mu.inplace_left_multiply_by(B)
    ctx.check(close(ref_mat(mu, qs), MA @ MB) and mu == A * B, "inplace-mul==immutable-product", "C14:inplace-left-mul", lambda: str(mu), **wit)
    mu = A.mutable_copy()
    mu.inplace_right_multiply_by([B, c])
    ctx.check(close(ref_mat(mu, qs), c * MB @ MA), "inplace-mul==immutable-product", "C14:inplace-right-mul", lambda: str(mu), **wit)
    # a collection operand [B, C, ...] stands for the product B*C*... (the strings inside generally do not commute), for
    # every in-place entry point and every collection type
    c_spec = (rand_coef(rng), rand_sparse(rng, n))
    Cs = build(c_spec, qs, int(rng.integers(6)))
    MC = R.smat(c_spec[1], c_spec[0], n)
    coll = [lambda: [B, Cs], lambda: (B, Cs), lambda: iter([B, Cs]), lambda: [[B], [Cs]], lambda: [B, {qs[w_]: l_ for w_, l_ in c_spec[1].items()}, c_spec[0]]]
    mkc = coll[int(rng.integers(len(coll)))]
    for name, apply, want in (("inplace_left_multiply_by", lambda m_: m_.inplace_left_multiply_by(mkc()), MA @ MB @ MC),
                              ("inplace_right_multiply_by", lambda m_: m_.inplace_right_multiply_by(mkc()), MB @ MC @ MA),
                              ("*=", lambda m_: m_.__imul__(mkc()), MB @ MC @ MA)):
        mu = A.mutable_copy()
        apply(mu)
        ctx.check(close(ref_mat(mu, qs), want), "inplace-mul==immutable-product", "C14:inplace-mul-collection:" + name,
                  lambda: "%s with a collection of two strings = %s" % (name, mu), c2=spec_key(c_spec), **wit)
    mu = cirq.MutablePauliString(A, B)
    ctx.check(close(ref_mat(mu, qs), MA @ MB) and close(ref_mat(mu.frozen(), qs), MA @ MB) and close(ref_mat(mu.mutable_copy(), qs), MA @ MB),
              "inplace-mul==immutable-product", "C14:mutable-constructor", "", **wit)
    ctx.check(close(ref_mat(-mu, qs), -MA @ MB) and close(ref_mat(mu, qs), MA @ MB), "neg==-matrix", "C14:mutable-neg", "", **wit)
    # dense view
    D = A.dense(qs)
    ctx.check(close(dense_mat(D), MA) and D.on(*qs) == A and close(ref_mat(D.sparse(qs), qs), MA), "dense-roundtrip", "C14:dense-roundtrip", "", **wit)
    # basis change to Z
    okz = True
    for op in A.to_z_basis_ops():
        (q,) = op.qubits
        u = cirq.unitary(op)
        okz = okz and close(u @ G.PAULI[sa[qs.index(q)]] @ u.conj().T, G.Z)
    ctx.check(okz, "to_z_basis", "C14:to-z-basis", "", **wit)
    # integer powers
    k = int(rng.integers(-3, 5))
    unit_spec = (rand_unit_coef(rng), sa) if case % 2 == 0 else A_spec
    U = build_maybe_gateop(unit_spec, qs, va)
    _pow_check(ctx, U, qs, R.smat(sa, unit_spec[0], n), k, len(sa), unit_spec[0], dict(k=k, **wit))
    ctx.check(close(ref_mat(A, qs), MA) and close(ref_mat(B, qs), MB), "operands-unchanged", "C14:operand-mutated", "", **wit)
    ctx.distinct(("alg", spec_key(A_spec), spec_key(B_spec)), nontrivial=overlap_nontrivial(sa, sb))
    ctx.sample({"n": n, "a": spec_key(A_spec), "b": spec_key(B_spec)})


# ------------------------------------------------------------------ dense strings
def sec_dense(ctx, rng, case):
    cirq = _S["cirq"]
    na, nb = int(rng.integers(0, 6)), int(rng.integers(0, 6))
    la = ["IXYZ"[int(x)] for x in rng.integers(4, size=na)]
    lb = ["IXYZ"[int(x)] for x in rng.integers(4, size=nb)]
    ca, cb = rand_coef(rng), rand_coef(rng)
    mutable_a, mutable_b = bool(rng.integers(2)), bool(rng.integers(2))
    mk = lambda mut, ls, c, form: (cirq.MutableDensePauliString if mut else cirq.DensePauliString)(  # noqa
        "".join(ls) if form == 0 else ([_S["gate"][x] for x in ls] if form == 1 else np.array(["IXYZ".index(x) for x in ls], dtype=np.uint8)),
        coefficient=c)
    A, B = mk(mutable_a, la, ca, int(rng.integers(3))), mk(mutable_b, lb, cb, int(rng.integers(3)))
    n = max(na, nb)
    MA, MB = R.pmat(la + ["I"] * (n - na), ca), R.pmat(lb + ["I"] * (n - nb), cb)
    wit = dict(a="".join(la), ca=ca, b="".join(lb), cb=cb, mutable=(mutable_a, mutable_b))
    ctx.check(close(dense_mat(A, n), MA) and len(A) == na, "constructor==spec", "C14:dense-constructor", "", **wit)
    AB = A * B
    ctx.check(close(dense_mat(AB, n), MA @ MB) and len(AB) == n, "dense-mul==matrix-product", "C14:dense-mul", lambda: "%s * %s = %s" % (A, B, AB), **wit)
    ctx.check(isinstance(AB, cirq.MutableDensePauliString) == (mutable_a or mutable_b), "dense-mul==matrix-product", "C14:dense-mul-type", type(AB).__name__, **wit)
    if na >= nb:
        m = A.mutable_copy()
        m0 = m
        m *= B
        ctx.check(m is m0 and close(dense_mat(m, n), MA @ MB), "dense-mul==matrix-product", "C14:dense-imul", lambda: str(m), **wit)
    else:
        m = A.mutable_copy()
        try:
            m *= B
            ctx.check(False, "dense-mul==matrix-product", "C14:dense-imul-longer-accepted", "", **wit)
        except ValueError as e:
            if "smaller" not in str(e):
                raise
            ctx.reject("dense-imul-longer-operand")
    s = rand_coef(rng) if rng.random() < 0.7 else float(rng.integers(1, 4))
    for name, r, want in (("A*s", A * s, s * MA), ("s*A", s * A, s * MA), ("A/s", A / s, MA / s), ("-A", -A, -MA), ("+A", +A, MA),
                          ("abs", abs(A), R.pmat(la + ["I"] * (n - na), abs(ca)))):
        ctx.check(type(r) is type(A) and close(dense_mat(r, n), want), "dense-unary", "C14:dense-" + name, lambda: "%s -> %s" % (name, r), s=s, **wit)
    mi = A.mutable_copy()
    mi *= s
    mi /= 2
    ctx.check(close(dense_mat(mi, n), s * MA / 2), "dense-unary", "C14:dense-imul-scalar", "", s=s, **wit)
    k = int(rng.integers(-3, 5))
    if not (abs(ca) < 1e-12 and k < 0):
        ctx.check(close(dense_mat(A ** k, n), R.matrix_power(MA, k)), "dense-pow==matrix-power", "C14:dense-pow", lambda: "%s**%d = %s" % (A, k, A ** k), k=k, **wit)
    T = A.tensor_product(B)
    ctx.check(close(dense_mat(T), R.pmat(la + lb, ca * cb)) and type(T) is type(A), "dense-tensor==kron", "C14:dense-tensor", lambda: str(T), **wit)
    cm = cirq.commutes(A, B)
    ctx.check(bool(cm) == R.mats_commute(MA, MB, 1e-9), "commutes<=>matrices-commute", "C14:dense-commutes", repr(cm), **wit)
    # on / sparse / dense round trip
    qs = mk_qubits(rng, na)
    P = A.on(*qs)
    ctx.check(isinstance(P, cirq.PauliString) and close(ref_mat(P, qs), R.pmat(la, ca)) and close(ref_mat(A.sparse(qs), qs), R.pmat(la, ca)),
              "dense-on==sparse", "C14:dense-on", "", **wit)
    dq = A.sparse()
    ctx.check(close(ref_mat(dq, [cirq.LineQubit(i) for i in range(na)]), R.pmat(la, ca)), "dense-on==sparse", "C14:dense-sparse-default", "", **wit)
    ctx.check(P.dense(qs) == A.frozen(), "dense-roundtrip", "C14:dense-roundtrip", "", **wit)
    try:
        A.on(*mk_qubits(rng, na + 1))
        ctx.check(False, "dense-on==sparse", "C14:dense-on-wrong-count-accepted", "", **wit)
    except ValueError:
        ctx.reject("dense-on-wrong-qubit-count")
    # one_hot / eye
    if na:
        i = int(rng.integers(na))
        l = "IXYZ"[int(rng.integers(4))]
        cls = cirq.MutableDensePauliString if mutable_a else cirq.DensePauliString
        oh = cls.one_hot(index=i, length=na, pauli=[l, _S["gate"][l], "IXYZ".index(l)][int(rng.integers(3))])
        ctx.check(type(oh) is cls and close(dense_mat(oh), R.pmat(["I"] * i + [l] + ["I"] * (na - i - 1))), "dense-factories", "C14:dense-one-hot", str(oh), **wit)
        ey = cls.eye(na)
        ctx.check(type(ey) is cls and close(dense_mat(ey), np.eye(2 ** na)), "dense-factories", "C14:dense-eye", str(ey), **wit)
        # getitem: int -> gate, slice -> coefficient-free sub-string
        ctx.check(letter_of(A[i]) == la[i] and letter_of(A[-1]) == la[-1], "dense-getitem", "C14:dense-getitem", "", **wit)
        lo, hi = sorted(int(x) for x in rng.integers(0, na + 1, size=2))
        sl = A[lo:hi]
        ctx.check(type(sl) is type(A) and dense_ref(sl) == (1 + 0j, la[lo:hi]) and [letter_of(g) for g in A] == la, "dense-getitem", "C14:dense-slice", str(sl), **wit)
        # copy / frozen / mutable_copy / setitem never alias an immutable string
        mc = A.mutable_copy()
        new_l = "IXYZ"[int(rng.integers(4))]
        r = mc.__setitem__(i, new_l)
        exp = list(la)
        exp[i] = new_l
        ctx.check(r is mc and dense_ref(mc) == (complex(ca), exp) and dense_ref(A.frozen()) == (complex(ca), la), "dense-setitem", "C14:dense-setitem", str(mc), **wit)
        if hi > lo:
            repl = ["IXYZ"[int(x)] for x in rng.integers(4, size=hi - lo)]
            mc[lo:hi] = "".join(repl) if rng.random() < 0.5 else cirq.DensePauliString("".join(repl))
            exp[lo:hi] = repl
            ctx.check(dense_ref(mc) == (complex(ca), exp), "dense-setitem", "C14:dense-setitem-slice", str(mc), **wit)
            try:
                mc[lo:hi] = cirq.DensePauliString("".join(repl), coefficient=-1)
                ctx.check(False, "dense-setitem", "C14:dense-setitem-coefficient-accepted", "", **wit)
            except ValueError:
                ctx.reject("dense-slice-assign-with-coefficient")
        fz = mc.frozen()
        cp = mc.copy()
        before = dense_ref(fz)
        mc[i] = "IXYZ"[("IXYZ".index(exp[i]) + 1) % 4]
        mc *= -1
        ctx.check(dense_ref(fz) == before and dense_ref(cp) == before and isinstance(fz, cirq.DensePauliString) and isinstance(cp, cirq.MutableDensePauliString),
                  "dense-copy-independent", "C14:dense-copy-aliases", "", **wit)
        c2 = rand_coef(rng)
        cc = A.copy(coefficient=c2)
        ctx.check(close(dense_mat(cc), R.pmat(la, c2)) and close(dense_mat(A), R.pmat(la, ca)), "dense-copy-independent", "C14:dense-copy-coefficient", "", **wit)
    # dense x sparse (LineQubit index = dense index)
    nl = int(rng.integers(1, 6))
    lq = [cirq.LineQubit(i) for i in range(nl)]
    sp, cp_ = rand_sparse(rng, nl), rand_coef(rng)
    PS = build((cp_, sp), lq, int(rng.integers(4)))
    n2 = max(na, (max(sp) + 1) if sp else 0)
    if sp:
        MA2, MP = R.pmat(la + ["I"] * (n2 - na), ca), R.smat(sp, cp_, n2)
        _dense_sparse_check(ctx, "dense*sparse", A * PS, MA2 @ MP, MA2 @ MP / cp_, cp_, dict(sparse=spec_key((cp_, sp)), **wit))
        _dense_sparse_check(ctx, "sparse*dense", PS * A, MP @ MA2, MP @ MA2 / cp_, cp_, dict(sparse=spec_key((cp_, sp)), **wit))
    ctx.distinct(("dense", "".join(la), "".join(lb), spec_key((ca, {})), spec_key((cb, {}))),
                 nontrivial=any(x != "I" and y != "I" and x != y for x, y in zip(la, lb)))
    ctx.sample({"a": "".join(la), "ca": ca, "b": "".join(lb), "cb": cb})


# ------------------------------------------------------------------ Pauli sums
def _rand_terms(rng, n, kmax=6, real=False):
    k = int(rng.integers(1, kmax + 1))
    terms = []
    for _ in range(k):
        c = rand_coef(rng)
        if real:
            c = complex(float(rng.choice([1, -1])) * abs(c))
        terms.append((c, rand_sparse(rng, n)))
    return terms


def _build_sum(rng, terms, qs):
    cirq = _S["cirq"]
    strings = [build(t, qs, int(rng.integers(6))) for t in terms]
    r = rng.random()
    if r < 0.35:
        return cirq.PauliSum.from_pauli_strings(strings), strings
    if r < 0.7 or len(strings) < 2:
        acc = strings[0] + strings[1] if len(strings) > 1 else cirq.PauliSum.from_pauli_strings(strings[0])
        for s in strings[2:]:
            acc = acc + s
        return acc, strings
    acc = cirq.PauliSum()
    for s in strings:
        acc += s
    return acc, strings


def sec_pauli_sum(ctx, rng, case):
    cirq = _S["cirq"]
    n = int(rng.integers(1, 5))
    qs = mk_qubits(rng, n)
    ta, tb = _rand_terms(rng, n), _rand_terms(rng, n, kmax=4)
    SA, strA = _build_sum(rng, ta, qs)
    SB, strB = _build_sum(rng, tb, qs)
    MA, MB = R.sum_mat(ta, n), R.sum_mat(tb, n)
    I = np.eye(2 ** n)
    wit = dict(n=n, a=[spec_key(t) for t in ta], b=[spec_key(t) for t in tb])
    mon = "pauli-sum-arith==matrix"
    ctx.check(isinstance(SA, cirq.PauliSum) and close(sum_ref_mat(SA, qs), MA), mon, "C14:psum-build", lambda: str(SA), **wit)
    # the object's own dense and sparse matrix on an explicit qubit order (with one extra qubit)
    order = [int(x) for x in rng.permutation(n)]
    ext = [qs[i] for i in order] + [_S["cirq"].NamedQubit("extra_axis")]
    wantm = sum((R.pmat([s.get(i, "I") for i in order] + ["I"], c) for c, s in ta), np.zeros((2 ** (n + 1),) * 2, dtype=complex))
    ctx.check(close(SA.matrix(ext), wantm), "psum-matrix()==sum-of-krons", "C14:psum-matrix", "", order=order, **wit)
    ctx.check(close(SA.sparse_matrix(ext).toarray(), wantm), "psum-matrix()==sum-of-krons", "C14:psum-sparse-matrix", "", order=order, **wit)
    sq = list(SA.qubits)
    ctx.check(sq == sorted(sq) and close(SA.matrix(), sum_ref_mat(SA, sq)), "psum-matrix()==sum-of-krons", "C14:psum-matrix-default-order", "", **wit)
    c = rand_coef(rng)
    P = strB[0]
    MP = R.smat(tb[0][1], tb[0][0], n)
    laws = [
        ("A+B", lambda: SA + SB, MA + MB), ("A-B", lambda: SA - SB, MA - MB), ("A*B", lambda: SA * SB, MA @ MB),
        ("-A", lambda: -SA, -MA), ("c*A", lambda: c * SA, c * MA), ("A*c", lambda: SA * c, c * MA), ("A/c", lambda: SA / c, MA / c),
        ("A+c", lambda: SA + c, MA + c * I), ("c+A", lambda: c + SA, MA + c * I), ("c-A", lambda: c - SA, c * I - MA),
        ("A+P", lambda: SA + P, MA + MP), ("P+A", lambda: P + SA, MA + MP), ("A-P", lambda: SA - P, MA - MP), ("P-A", lambda: P - SA, MP - MA),
        ("A*P", lambda: SA * P, MA @ MP), ("P*A", lambda: P * SA, MP @ MA),
    ]
    for name, f, want in laws:
        r = f()
        ctx.check(isinstance(r, cirq.PauliSum) and close(sum_ref_mat(r, qs), want), mon, "C14:psum-" + name, lambda: "%s = %s" % (name, r), c=c, **wit)
    # a single-qubit gate operation is a PauliSumLike term
    w, l = int(rng.integers(n)), "XYZ"[int(rng.integers(3))]
    r = SA + _S["gate"][l](qs[w])
    ctx.check(close(sum_ref_mat(r, qs), MA + R.smat({w: l}, 1, n)), mon, "C14:psum-add-gate-op", "", **wit)
    # in-place forms mutate the receiver and only it
    acc = SA.copy()
    acc0 = acc
    acc += SB
    acc -= P
    acc *= c
    acc *= SB
    acc *= P
    ctx.check(acc is acc0 and close(sum_ref_mat(acc, qs), c * (MA + MB - MP) @ MB @ MP), mon, "C14:psum-inplace", lambda: str(acc), c=c, **wit)
    ctx.check(close(sum_ref_mat(SA, qs), MA) and close(sum_ref_mat(SB, qs), MB), "operands-unchanged", "C14:psum-operand-mutated", "", **wit)
    # one object through a history of in-place edits, asked for its qubits / default-order matrix in between: every answer
    # describes the terms the object holds at that moment (nothing remembered from before an edit)
    H, MH, log = SA.copy(), MA.copy(), []
    for _ in range(int(rng.integers(2, 7))):
        kind = int(rng.integers(7))
        if kind == 0:
            H += SB; MH = MH + MB; log.append("+=B")
        elif kind == 1:
            H -= P; MH = MH - MP; log.append("-=P")
        elif kind == 2:
            H *= P; MH = MH @ MP; log.append("*=P")
        elif kind == 3:
            H *= SB; MH = MH @ MB; log.append("*=B")
        elif kind == 4:
            H *= c; MH = MH * c; log.append("*=c")
        elif kind == 5:
            H /= c; MH = MH / c; log.append("/=c")
        else:
            w2, l2 = int(rng.integers(n)), "XYZ"[int(rng.integers(3))]
            H *= _S["gate"][l2](qs[w2]); MH = MH @ R.smat({w2: l2}, 1, n); log.append("*=%s%d" % (l2, w2))
        tnow = sum_ref(H, qs)
        if tnow is None or not close(R.sum_mat(tnow, n), MH):
            ctx.check(False, "psum-history", "C14:psum-history-terms", "terms after %s differ from the matrix algebra" % log, history=list(log), **wit)
            break
        used = sorted({w_ for _, s_ in tnow for w_ in s_}, key=lambda w_: qs[w_])
        want_q = sorted(qs[w_] for w_ in used)
        got_q = list(H.qubits)
        ok = got_q == want_q
        if ok:
            rel = {w_: want_q.index(qs[w_]) for w_ in used}
            wantd = R.sum_mat([(cf, {rel[w_]: l_ for w_, l_ in s_.items()}) for cf, s_ in tnow], len(want_q))
            gotd = H.matrix()
            ok = gotd.shape == wantd.shape and close(gotd, wantd)
        ctx.check(ok, "psum-history", "C14:psum-history-stale-answer",
                  lambda: "after %s the sum %s reports qubits %r (terms act on %r) or a default-order matrix that is not the sum of its terms" % (log, H, got_q, want_q),
                  history=list(log), **wit)
        if not ok:
            break
    # integer powers
    k = int(rng.integers(0, 4))
    r = SA ** k
    ctx.check(isinstance(r, cirq.PauliSum) and close(sum_ref_mat(r, qs), np.linalg.matrix_power(MA, k)), "psum-pow==matrix-power", "C14:psum-pow",
              lambda: "A**%d = %s" % (k, r), k=k, **wit)
    try:
        SA ** -1
        ctx.check(False, "psum-pow==matrix-power", "C14:psum-negative-pow-accepted", "", **wit)
    except TypeError:
        ctx.reject("psum-negative-power")
    # from_pauli_strings / wrap / equality of differently built sums
    F = cirq.PauliSum.from_pauli_strings(list(reversed(strA)))
    ctx.check(close(sum_ref_mat(F, qs), MA) and cirq.approx_eq(F, SA, atol=1e-9), mon, "C14:psum-from-pauli-strings", "", **wit)
    W = cirq.PauliSum.wrap(P)
    ctx.check(isinstance(W, cirq.PauliSum) and close(sum_ref_mat(W, qs), MP) and cirq.PauliSum.wrap(SA) is SA, mon, "C14:psum-wrap", "", **wit)
    ctx.check(close(sum_ref_mat(cirq.PauliSum.wrap(c), qs), c * I), mon, "C14:psum-wrap-scalar", "", **wit)
    # with_qubits maps sorted(self.qubits) onto the new qubits
    old = list(SA.qubits)
    m = len(old)
    pool = mk_qubits(rng, m + 1, kind=int(rng.integers(3)))
    new = [pool[int(i)] for i in rng.permutation(m + 1)[:m]]
    r = SA.with_qubits(*new)
    relabel = {qs.index(o): i for i, o in enumerate(old)}
    terms_now = sum_ref(SA, qs)
    want = R.sum_mat([(cf, {relabel[w_]: l_ for w_, l_ in s.items()}) for cf, s in terms_now], m) if m else R.sum_mat(terms_now, 0)
    ctx.check(close(sum_ref_mat(r, new), want), "psum-with_qubits==relabelled-matrix", "C14:psum-with-qubits", "", **wit)
    try:
        SA.with_qubits(*pool[:m + 1])
        ctx.check(False, "psum-with_qubits==relabelled-matrix", "C14:psum-with-qubits-count-accepted", "", **wit)
    except ValueError:
        ctx.reject("psum-with-qubits-wrong-count")
    ctx.distinct(("psum", tuple(spec_key(t) for t in ta), tuple(spec_key(t) for t in tb)), nontrivial=len(ta) + len(tb) > 2)
    ctx.sample({"n": n, "a": [spec_key(t) for t in ta], "b": [spec_key(t) for t in tb]})


def _rand_bool(rng, names, depth):
    """(own tree, sympy expression) over the variable names."""
    import sympy

    if depth == 0 or rng.random() < 0.25:
        v = names[int(rng.integers(len(names)))]
        return ("var", v), sympy.Symbol(v)
    op = ["and", "or", "xor", "not"][int(rng.integers(4))]
    if op == "not":
        t, e = _rand_bool(rng, names, depth - 1)
        return ("not", t), sympy.Not(e)
    k = int(rng.integers(2, 4))
    subs = [_rand_bool(rng, names, depth - 1) for _ in range(k)]
    ctor = {"and": sympy.And, "or": sympy.Or, "xor": sympy.Xor}[op]
    return (op,) + tuple(s[0] for s in subs), ctor(*[s[1] for s in subs])


def _eval_bool(t, env):
    if t[0] == "var":
        return env[t[1]]
    if t[0] == "not":
        return not _eval_bool(t[1], env)
    vals = [_eval_bool(s, env) for s in t[1:]]
    return {"and": all(vals), "or": any(vals), "xor": sum(vals) % 2 == 1}[t[0]]


def sec_boolean(ctx, rng, case):
    """PauliSum.from_boolean_expression: the Hamiltonian is diagonal with the truth table on the diagonal."""
    cirq = _S["cirq"]
    import sympy

    n = int(rng.integers(1, 5))
    names = ["x%d" % i for i in range(n)]
    qs = mk_qubits(rng, n)
    tree, expr = _rand_bool(rng, names, int(rng.integers(1, 4)))
    if not isinstance(expr, (sympy.Symbol, sympy.And, sympy.Or, sympy.Xor, sympy.Not)):
        ctx.reject("boolean-expression-simplified-to-constant")
        return
    ps = cirq.PauliSum.from_boolean_expression(expr, {nm: q for nm, q in zip(names, qs)})
    diag = []
    for bits in itertools.product([0, 1], repeat=n):
        diag.append(1.0 if _eval_bool(tree, {nm: bool(b) for nm, b in zip(names, bits)}) else 0.0)
    ctx.check(close(sum_ref_mat(ps, qs), np.diag(diag)), "boolean-hamiltonian==truth-table", "C14:psum-boolean", lambda: "%s -> %s" % (expr, ps), expr=str(expr))
    ctx.distinct(("bool", str(expr)), nontrivial=0 < sum(diag) < len(diag))
    ctx.sample({"expr": str(expr)})


# ------------------------------------------------------------------ expectation values
def _rand_state(rng, m):
    r = rng.random()
    if r < 0.2:  # product state
        v = np.ones(1, dtype=complex)
        for _ in range(m):
            v = np.kron(v, L.random_state(rng, 2))
        return v
    if r < 0.3:  # computational basis state
        v = np.zeros(2 ** m, dtype=complex)
        v[int(rng.integers(2 ** m))] = 1
        return v
    return L.random_state(rng, 2 ** m)


def sec_expect(ctx, rng, case):
    cirq = _S["cirq"]
    n = int(rng.integers(1, 5))          # qubits the observable may touch
    m = n + int(rng.integers(0, 3))      # qubits of the state
    extra = int(rng.integers(0, 3))      # qubits in the map that are in neither
    qs = mk_qubits(rng, n + extra if n + extra <= 10 else n)
    axes = [int(x) for x in rng.permutation(m)]
    # every observable qubit gets an axis; extra map entries point at remaining (or shared) axes
    qubit_map = {qs[i]: axes[i] for i in range(n)}
    for j in range(n, len(qs)):
        qubit_map[qs[j]] = int(rng.integers(m))
    terms = _rand_terms(rng, n, kmax=5, real=True)
    is_sum = case % 2 == 1
    if not is_sum:
        terms = terms[:1]
        obs = build_maybe_gateop(terms[0], qs[:n], int(rng.integers(6)))
    else:
        obs, _ = _build_sum(rng, terms, qs[:n])
    Mfull = sum((R.smat({axes[w]: l for w, l in s.items()}, c, m) for c, s in terms), np.zeros((2 ** m, 2 ** m), dtype=complex))
    dtype = np.complex64 if case % 5 == 4 else np.complex128
    tol = 5e-5 * max(1.0, float(np.abs(Mfull).max())) if dtype == np.complex64 else 1e-6 * max(1.0, float(np.abs(Mfull).max()))
    kw = dict(atol=1e-4) if dtype == np.complex64 else {}
    if case % 7 == 6:
        kw = dict(check_preconditions=False)
    wit = dict(n=n, m=m, axes=axes, map_extra=len(qs) - n, terms=[spec_key(t) for t in terms], dtype=np.dtype(dtype).name, is_sum=is_sum)
    # pure state
    psi = _rand_state(rng, m)
    want = R.expect_sv(psi, Mfull)
    arr = psi.astype(dtype)
    if case % 3 == 0:
        arr = arr.reshape((2,) * m)
    got = obs.expectation_from_state_vector(arr, qubit_map, **kw)
    ctx.check(abs(complex(got) - want) <= tol, "expectation==<psi|P|psi>", "C14:expectation-state-vector",
              lambda: "got %r, <psi|P|psi> = %r" % (got, want), **wit)
    # mixed state
    rho = L.random_rho(rng, 2 ** m, rank=int(rng.integers(1, 2 ** m + 1)))
    want = R.expect_dm(rho, Mfull)
    arr = rho.astype(dtype)
    if case % 3 == 1:
        arr = arr.reshape((2, 2) * m)
    got = obs.expectation_from_density_matrix(arr, qubit_map, **kw)
    ctx.check(abs(complex(got) - want) <= tol, "expectation==tr(rho.P)", "C14:expectation-density-matrix",
              lambda: "got %r, tr(rho P) = %r" % (got, want), **wit)
    # non-Hermitian observables are rejected as documented
    if case % 11 == 0:
        bad = build((0.5 + 0.5j, terms[0][1]), qs[:n], 0)
        bad = bad if not is_sum else bad + obs
        for f, a in ((bad.expectation_from_state_vector, psi), (bad.expectation_from_density_matrix, rho)):
            try:
                f(a, qubit_map)
                ctx.check(False, "non-hermitian-rejected", "C14:expectation-non-hermitian-accepted", "", **wit)
            except NotImplementedError:
                ctx.reject("expectation-of-non-hermitian")
                ctx.ok("non-hermitian-rejected")
    ident = all(not s for _, s in terms)
    ctx.distinct(("expect", tuple(axes), tuple(spec_key(t) for t in terms)), nontrivial=not ident)
    ctx.sample({"axes": axes, "m": m, "terms": [spec_key(t) for t in terms]})


def _sim_pool():
    if _S["specs1"] is None:
        specs = [s for s in GP.build_specs() if set(s.shape) == {2} and 1 <= s.n <= 2 and "matrix" not in s.tags and "id" not in s.tags]
        _S["specs1"] = specs
    return _S["specs1"]


def sec_simulate(ctx, rng, case):
    """Simulator / DensityMatrixSimulator.simulate_expectation_values against <psi|P|psi> of the catalogue-built final state."""
    cirq = _S["cirq"]
    n = int(rng.integers(1, 5))
    qs = mk_qubits(rng, n)
    specs = _sim_pool()
    ops, steps, names = [], [], []
    for w in range(n):  # every qubit appears in the circuit (observables must act on circuit qubits)
        cand = [s for s in specs if s.n == 1]
        s = cand[int(rng.integers(len(cand)))]
        p = s.sample(rng)
        ops.append(s.make(p)(qs[w]))
        steps.append((s.ref(p), [w]))
        names.append(s.name)
    for _ in range(int(rng.integers(0, 9))):
        cand = [s for s in specs if s.n <= n]
        s = cand[int(rng.integers(len(cand)))]
        ws = [int(x) for x in rng.choice(n, size=s.n, replace=False)]
        p = s.sample(rng)
        ops.append(s.make(p)(*[qs[w] for w in ws]))
        steps.append((s.ref(p), ws))
        names.append("%s%s" % (s.name, ws))
    circuit = cirq.Circuit(ops) if case % 2 else cirq.Circuit(ops, strategy=cirq.InsertStrategy.NEW)
    order = [int(x) for x in rng.permutation(n)]      # axis a of the simulator's state is qubit qs[order[a]]
    pos = {w: a for a, w in enumerate(order)}
    init = int(rng.integers(2 ** n)) if case % 3 == 0 else 0
    U = R.circuit_matrix([(mm, [pos[w] for w in ws]) for mm, ws in steps], n)
    psi = U[:, init]
    obs_terms = [_rand_terms(rng, n, kmax=3, real=True) for _ in range(int(rng.integers(1, 4)))]
    observables = []
    for t in obs_terms:
        observables.append(build_maybe_gateop(t[0], qs, int(rng.integers(6))) if len(t) == 1 else _build_sum(rng, t, qs)[0])
    wants = [R.expect_sv(psi, sum((R.smat({pos[w]: l for w, l in s.items()}, c, n) for c, s in t), np.zeros((2 ** n,) * 2, dtype=complex)))
             for t in obs_terms]
    which = case % 4
    if which == 0:
        sim, tol = cirq.Simulator(dtype=np.complex128), 1e-6
    elif which in (1, 2):
        sim, tol = cirq.Simulator(), 2e-5 * math.sqrt(2 ** n) * 4
    else:
        sim, tol = cirq.DensityMatrixSimulator(dtype=np.complex128), 1e-6
    arg = observables if (len(observables) > 1 or case % 2) else observables[0]
    got = sim.simulate_expectation_values(circuit, arg, qubit_order=[qs[w] for w in order], initial_state=init)
    scale = max(1.0, max(sum(abs(c) for c, _ in t) for t in obs_terms))
    ok = len(got) == len(wants) and all(abs(complex(g) - w) <= tol * scale for g, w in zip(got, wants))
    ctx.check(ok, "simulate_expectation_values", "C14:simulate-expectation-values:" + type(sim).__name__,
              lambda: "got %r want %r" % (got, wants), circuit=names, order=order, init=init, obs=[[spec_key(x) for x in t] for t in obs_terms])
    if case % 9 == 0:  # terminal measurement: documented ValueError unless permitted
        cm = circuit + cirq.Circuit(cirq.measure(*qs, key="m"))
        try:
            sim.simulate_expectation_values(cm, arg, qubit_order=[qs[w] for w in order], initial_state=init)
            ctx.check(False, "simulate_expectation_values", "C14:terminal-measurement-accepted", "")
        except ValueError as e:
            if "terminal measurements" not in str(e):
                raise
            ctx.reject("expectation-with-terminal-measurement")
    ctx.distinct(("sim", tuple(names), tuple(order), init, tuple(tuple(spec_key(x) for x in t) for t in obs_terms)),
                 nontrivial=any(s for t in obs_terms for _, s in t))
    ctx.sample({"circuit": names, "order": order, "init": init, "observables": [[spec_key(x) for x in t] for t in obs_terms]})


# ------------------------------------------------------------------ phasors, exponentials, interaction gate
def _phasor_judge(ctx, got, Pm, id_wires, n, en, ep, monitor, what, wit):
    """got vs the documented closed form; a mismatch explained by the identity qubits entering the parity is the known defect."""
    want = R.phasor(Pm, en, ep)
    if close(got, want):
        ctx.ok(monitor)
        return True
    mech = "C14:phasor-unitary"
    if id_wires:
        alt = R.phasor(Pm @ R.smat({w: "Z" for w in id_wires}, 1, n), en, ep)
        if close(got, alt):
            mech = K_PHASOR_ID
    ctx.check(False, monitor, mech, "%s differs from exp(i pi e_pos) P+ + exp(i pi e_neg) P-%s" % (
        what, " (explained by the identity-acted qubits %s being XORed into the parity)" % (id_wires,) if mech == K_PHASOR_ID else ""), **wit)
    return False


def sec_phasor(ctx, rng, case):
    cirq = _S["cirq"]
    n = int(rng.integers(1, 5))
    qs = mk_qubits(rng, n)
    en, ep = GP.pick_exp(rng), (GP.pick_exp(rng) if rng.random() < 0.6 else 0.0)
    sign = complex(rng.choice([1, -1]))
    mode = case % 4
    if mode == 3:   # qubits is a proper superset of the string's qubits (extra qubits acted on by identity)
        sp = rand_sparse(rng, n, min_len=0)
        if len(sp) == n and n > 1:
            del sp[int(rng.integers(n))]
    else:
        sp = {w: "XYZ"[int(rng.integers(3))] for w in range(n)}
    Pm = R.smat(sp, sign, n)
    id_wires = [w for w in range(n) if w not in sp]
    wit = dict(n=n, string=spec_key((sign, sp)), exponent_neg=en, exponent_pos=ep, mode=mode)
    P = build((sign, sp), qs, int(rng.integers(6)))
    if mode in (0, 1):
        op = cirq.PauliStringPhasor(P, exponent_neg=en, exponent_pos=ep)
    elif mode == 2:
        gate = cirq.PauliStringPhasorGate(cirq.DensePauliString(R.letters_of(sp, n), coefficient=sign), exponent_neg=en, exponent_pos=ep)
        ctx.check(close(cirq.unitary(gate), R.phasor(Pm, en, ep)), "phasor-unitary==closed-form", "C14:phasor-gate-unitary", lambda: repr(gate), **wit)
        op = gate.on(*qs)
    else:
        op = cirq.PauliStringPhasor(P, qubits=qs, exponent_neg=en, exponent_pos=ep)
    oq = list(op.qubits)
    pos = [qs.index(q) for q in oq]
    # the phasor's own description agrees with what was asked for (coefficient -1 swaps the roles of the exponents)
    rr = to_ref(op.pauli_string, qs)
    desc_ok = rr is not None and abs(abs(rr[0]) - 1) < 1e-12 and close(
        R.phasor(R.smat(rr[1], rr[0], n), float(op.exponent_neg), float(op.exponent_pos)), R.phasor(Pm, en, ep))
    ctx.check(desc_ok, "phasor-description", "C14:phasor-description", lambda: repr(op), **wit)
    m = len(oq)
    sub = {pos.index(w): l for w, l in sp.items()}
    Psub = R.smat(sub, sign, m)
    ids = [i for i in range(m) if i not in sub]
    u = cirq.unitary(op)
    _phasor_judge(ctx, u, Psub, ids, m, en, ep, "phasor-unitary==closed-form", "cirq.unitary(%r)" % (op,), wit)
    dec = cirq.decompose_once(op, None)
    if dec is not None and m > 0:
        _phasor_judge(ctx, lower_ops(dec, oq), Psub, ids, m, en, ep, "phasor-decomposition==closed-form", "decomposition of %r" % (op,), wit)
    # powers of the phasor scale both exponents
    t = GP.pick_exp(rng)
    pw = op ** t
    # (exponents are kept modulo 2 in (-1, 1], so the power is taken of the canonical exponents the object reports)
    Qsub = R.smat(sub, 1, m)
    _phasor_judge(ctx, cirq.unitary(pw), Qsub, ids, m, float(op.exponent_neg) * t, float(op.exponent_pos) * t, "phasor-unitary==closed-form",
                  "(%r)**%r" % (op, t), dict(t=t, **wit))
    # exponentiation of strings into rotations:  exp(i a P) through base**(i a' P) and numpy.exp
    if len(sp) >= 1 and not ids:
        a = float(rng.uniform(-3, 3))
        Pu = build((1, sp), qs, int(rng.integers(6)))
        base = float(rng.choice([math.e, 2.0, 10.0, 0.5]))
        r = base ** (1j * a * Pu) if case % 3 else np.exp(1j * a * Pu)
        th = a * (math.log(base) if case % 3 else 1.0)
        want = R.exp_i_theta_pauli(R.smat(sp, 1, n), th)
        got = lower_ops([r], qs) if set(r.qubits) <= set(qs) else np.full((1, 1), np.nan)
        ctx.check(close(got, want), "exp(i.a.P)==cos+i.sin.P", "C14:rpow-exponential", lambda: "%r" % (r,), a=a, base=base, **wit)
        if case % 5 == 0:
            try:
                base ** ((0.3 + 1j * a) * Pu)
                ctx.check(False, "exp(i.a.P)==cos+i.sin.P", "C14:rpow-non-hermitian-accepted", "", **wit)
            except NotImplementedError:
                ctx.reject("exponential-of-non-antihermitian-string")
    # coefficients other than +-1 are rejected as documented
    if case % 6 == 0:
        try:
            cirq.PauliStringPhasor(build((1j, sp), qs, 0), exponent_neg=en)
            ctx.check(False, "phasor-description", "C14:phasor-bad-coefficient-accepted", "", **wit)
        except ValueError:
            ctx.reject("phasor-coefficient-not-pm1")
    ctx.distinct(("phasor", spec_key((sign, sp)), round(en, 6), round(ep, 6), mode), nontrivial=bool(sp) and abs((en - ep) % 2) > 1e-6)
    ctx.sample({"string": spec_key((sign, sp)), "exponent_neg": en, "exponent_pos": ep, "mode": mode})


def _commuting_terms(rng, n, anti):
    for _ in range(200):
        k = int(rng.integers(1, 5))
        if rng.random() < 0.5:   # one basis letter per wire: trivially commuting
            basis = ["XYZ"[int(rng.integers(3))] for _ in range(n)]
            sps = []
            for _ in range(k):
                sps.append({w: basis[w] for w in range(n) if rng.random() < 0.6})
        else:
            sps = [rand_sparse(rng, n) for _ in range(k)]
        uniq = []
        for s in sps:
            if s not in uniq:
                uniq.append(s)
        if all(R.letters_commute(R.letters_of(a, n), R.letters_of(b, n)) for a in uniq for b in uniq):
            out = []
            for s in uniq:
                a = float(rng.choice([1.0, -1.0, 0.5, 2.0])) if rng.random() < 0.4 else float(rng.uniform(-2, 2))
                if abs(a) < 1e-3:
                    a = 0.75
                out.append((complex(0, a) if anti else complex(a), s))
            return out
    return [(1j if anti else 1 + 0j, {0: "Z"})]


def sec_pse(ctx, rng, case):
    """PauliSumExponential: the product of its rotation factors equals exp(i t sum) up to global phase."""
    cirq = _S["cirq"]
    n = int(rng.integers(1, 5))
    qs = mk_qubits(rng, n)
    anti = case % 4 == 3
    terms = _commuting_terms(rng, n, anti)
    t = GP.pick_ang(rng) if rng.random() < 0.5 else float(rng.uniform(-2, 2))
    psum, _ = _build_sum(rng, terms, qs)
    arg = psum if len(terms) > 1 or case % 2 else build(terms[0], qs, 0)
    pse = cirq.PauliSumExponential(arg, exponent=t)
    H = R.sum_mat(terms, n)
    # Hermitian: exp(i t H).  anti-Hermitian H = i K: exp(t H) = exp(i t K) (as __str__ documents)
    K = H / 1j if anti else H
    want = L.expm_herm(K, 1j * t)
    wit = dict(n=n, terms=[spec_key(x) for x in terms], exponent=t, anti_hermitian=anti)
    prod = np.eye(2 ** n, dtype=complex)
    desc_ok = True
    factors = list(pse)
    for f in factors:
        rr = to_ref(f.pauli_string, qs)
        if rr is None or abs(abs(rr[0]) - 1) > 1e-12 or not isinstance(f, cirq.PauliStringPhasor):
            desc_ok = False
            break
        prod = R.phasor(R.smat(rr[1], rr[0], n), float(f.exponent_neg), float(f.exponent_pos)) @ prod
    ctx.check(desc_ok and L.phase_equal(prod, want, 1e-6), "pse-factors==exp(i.t.sum)", "C14:pse-rotation-factors",
              lambda: "factors %r" % (factors,), **wit)
    # the same through the factors' own unitaries, embedded by the reference model
    ctx.check(L.phase_equal(lower_ops(factors, qs), want, 1e-6), "pse-factors==exp(i.t.sum)", "C14:pse-factor-unitaries", "", **wit)
    # integer power and qubit replacement
    k = int(rng.integers(-2, 4))
    fk = list(pse ** k)
    ctx.check(L.phase_equal(lower_ops(fk, qs), L.expm_herm(K, 1j * t * k), 1e-6), "pse-factors==exp(i.t.sum)", "C14:pse-pow", "", k=k, **wit)
    # matrix() / cirq.unitary on the operator's own qubit order
    pq = list(pse.qubits)
    order = [qs.index(q) for q in pq]
    Hq = R.sum_mat([(c, {order.index(w): l for w, l in s.items()}) for c, s in terms], len(pq))
    wantq = L.expm_herm(Hq / 1j if anti else Hq, 1j * t)
    # (matrix() is known to form the Kronecker product of the factor matrices, see K_PSE_MATRIX: with several factors on
    # three or four qubits each that product has 16**k rows and the call dies in a MemoryError - 64 GiB was asked for in the
    # seed-17 sweep.  The call is only made while that product stays small.)
    kron_dim = 1
    for f in factors:
        kron_dim *= 2 ** len(f.qubits)
    if kron_dim > 2048:
        ctx.event("pse-matrix:not-called(kronecker-dimension>2048)")
        got = None
    else:
        got = pse.matrix()
    if got is None:
        pass
    elif L.phase_equal(got, wantq, 1e-6):
        ctx.ok("pse-matrix()==exp(i.t.sum)")
    else:
        # known-wrong behaviour: Kronecker product of the factors' own matrices instead of their operator product
        alt = np.ones((1, 1), dtype=complex)
        for f in factors:
            fq = list(f.qubits)
            rr = to_ref(f.pauli_string, fq)
            alt = np.kron(alt, R.phasor(R.smat(rr[1], rr[0], len(fq)), float(f.exponent_neg), float(f.exponent_pos)))
        mech = K_PSE_MATRIX if L.phase_equal(got, alt, 1e-6) else "C14:pse-matrix"
        ctx.check(False, "pse-matrix()==exp(i.t.sum)", mech,
                  "PauliSumExponential.matrix() has shape %s for an operator on %d qubits %s; it is not exp(i t sum) on .qubits%s" % (
                      got.shape, len(pq), pq, " (it is the Kronecker product of the factor matrices, each in its own qubit order)" if mech == K_PSE_MATRIX else ""), **wit)
    # non-commuting sums are rejected as documented
    if case % 8 == 0 and n >= 1:
        try:
            cirq.PauliSumExponential(cirq.X(qs[0]) + cirq.Z(qs[0]), 0.3)
            ctx.check(False, "pse-factors==exp(i.t.sum)", "C14:pse-non-commuting-accepted", "")
        except ValueError:
            ctx.reject("pse-non-commuting-sum")
    ctx.distinct(("pse", tuple(spec_key(x) for x in terms), round(t, 6)), nontrivial=any(s for _, s in terms) and abs(math.sin(t)) > 1e-6)
    ctx.sample({"terms": [spec_key(x) for x in terms], "exponent": t})


def sec_pauli_combination(ctx, rng, case):
    """single-qubit combinations a_I I + a_X X + a_Y Y + a_Z Z raised to a non-negative integer power: the coefficient
    routine (cirq.pow_pauli_combination) and LinearCombinationOfGates ** n against the matrix power"""
    cirq = _S["cirq"]
    vals = [0.0, 1.0, -1.0, 1j, -1j, 0.5, 2.0, 1 + 1j, 1e-9, 1e-12j]
    style = int(rng.integers(3))
    if style == 0:
        a = [complex(vals[int(i)]) for i in rng.integers(len(vals), size=4)]
    elif style == 1:
        a = [complex(rng.normal(), rng.normal()) for _ in range(4)]
    else:
        # (a_I + v)**n == (a_I - v)**n without v being small: v = a_I * i * tan(pi k / n) along one axis
        n0 = int(rng.choice([2, 3, 4, 6, 8]))
        k0 = int(rng.integers(1, n0))
        ai0 = complex(rng.choice([1.0, -0.5, 1j, 2.0]))
        t_ = math.tan(math.pi * k0 / n0) if abs(math.cos(math.pi * k0 / n0)) > 1e-9 else 1.0
        a = [ai0, 0j, 0j, 0j]
        a[1 + int(rng.integers(3))] = ai0 * 1j * t_
    n = int(rng.integers(0, 9)) if style != 2 else int(rng.choice([2, 3, 4, 6, 8]))
    M = a[0] * _PM["I"] + a[1] * _PM["X"] + a[2] * _PM["Y"] + a[3] * _PM["Z"]
    want = np.linalg.matrix_power(M, n)
    scale = max(1.0, float(np.abs(want).max()))
    b = cirq.pow_pauli_combination(a[0], a[1], a[2], a[3], n)
    got = sum(complex(c) * _PM[l] for c, l in zip(b, "IXYZ"))
    wit = dict(coefficients=[repr(x) for x in a], exponent=n)
    ctx.check(close(got / scale, want / scale), "pauli-combination-pow==matrix-power", "C14:pow_pauli_combination",
              lambda: "pow_pauli_combination gives %r, the matrix power is\n%r" % (b, want), **wit)
    lc = cirq.LinearCombinationOfGates({cirq.I: a[0], cirq.X: a[1], cirq.Y: a[2], cirq.Z: a[3]})
    if not len(lc) or not len(lc ** n):
        ctx.reject("empty-linear-combination")  # no term left: the number of qubits is not known (documented ValueError)
        return
    gm = (lc ** n).matrix()
    ctx.check(close(np.asarray(gm) / scale, want / scale), "pauli-combination-pow==matrix-power", "C14:linear-combination-of-gates-pow",
              lambda: "(%s)**%d has matrix\n%r, the matrix power is\n%r" % (lc, n, gm, want), **wit)
    ctx.distinct(("paulicomb", tuple(np.round(a, 6)), n), nontrivial=n >= 2)
    ctx.sample(wit)


def sec_interaction(ctx, rng, case):
    cirq = _S["cirq"]
    i0, i1 = int(rng.integers(3)), int(rng.integers(3))
    inv0, inv1 = bool(rng.integers(2)), bool(rng.integers(2))
    t = GP.pick_exp(rng)
    g = cirq.PauliInteractionGate(_S["gate"]["XYZ"[i0]], inv0, _S["gate"]["XYZ"[i1]], inv1, exponent=t)
    # "a CZ conjugated by single-qubit Cliffords": phases the tensor product of the two conditions,
    # CZ itself (Z, not inverted) conditions on the -1 eigenvector
    P0 = (G.I2 + (1 if inv0 else -1) * G.PAULI["XYZ"[i0]]) / 2
    P1 = (G.I2 + (1 if inv1 else -1) * G.PAULI["XYZ"[i1]]) / 2
    want = np.eye(4) + (np.exp(1j * math.pi * t) - 1) * np.kron(P0, P1)
    wit = dict(p0="XYZ"[i0], inv0=inv0, p1="XYZ"[i1], inv1=inv1, t=t)
    ctx.check(close(cirq.unitary(g), want), "interaction-gate==closed-form", "C14:pauli-interaction-unitary", "", **wit)
    qs = mk_qubits(rng, 2)
    ctx.check(close(lower_ops(cirq.decompose_once(g(*qs)), qs), want), "interaction-gate==closed-form", "C14:pauli-interaction-decomposition", "", **wit)
    ctx.check(close(cirq.unitary(g ** 0.5), np.eye(4) + (np.exp(1j * math.pi * t / 2) - 1) * np.kron(P0, P1)), "interaction-gate==closed-form",
              "C14:pauli-interaction-pow", "", **wit)
    if case % 5 == 0:
        ctx.check(close(cirq.unitary(cirq.PauliInteractionGate.CZ), np.diag([1, 1, 1, -1])) and
                  close(cirq.unitary(cirq.PauliInteractionGate.CNOT), G.eigen_gate("CXPow", 1)), "interaction-gate==closed-form",
                  "C14:pauli-interaction-constants", "")
    ctx.distinct(("pig", i0, inv0, i1, inv1, round(t, 6)), nontrivial=abs(t % 2) > 1e-6)
    ctx.sample(wit)


# ------------------------------------------------------------------ projectors
def sec_projector(ctx, rng, case):
    cirq = _S["cirq"]
    n = int(rng.integers(1, 5))
    m = n + int(rng.integers(0, 2))
    qs = mk_qubits(rng, m)
    nterms = int(rng.integers(1, 4))
    terms = []
    for _ in range(nterms):
        d = {w: int(rng.integers(2)) for w in range(n) if rng.random() < 0.6}
        terms.append((rand_coef(rng) if rng.random() < 0.5 else complex(float(rng.uniform(-2, 2))), d))

    def pmat_(d, c, order):
        out = np.eye(1, dtype=complex)
        for w in order:
            out = np.kron(out, np.diag([1.0, 0.0]) if d.get(w) == 0 else (np.diag([0.0, 1.0]) if d.get(w) == 1 else np.eye(2)))
        return c * out

    order = [int(x) for x in rng.permutation(m)]
    strings = [cirq.ProjectorString({qs[w]: b for w, b in d.items()}, c) for c, d in terms]
    wit = dict(m=m, terms=[(c, sorted(d.items())) for c, d in terms], order=order)
    c0, d0 = terms[0]
    got = strings[0].matrix([qs[w] for w in order]).toarray()
    ctx.check(close(got, pmat_(d0, c0, order)), "projector-matrix", "C14:projector-string-matrix", "", **wit)
    psum = cirq.ProjectorSum.from_projector_strings(strings) if case % 2 else sum(strings[1:], cirq.ProjectorSum.from_projector_strings(strings[0]))
    Mw = sum((pmat_(d, c, order) for c, d in terms), np.zeros((2 ** m,) * 2, dtype=complex))
    if len(psum) == 0:  # all terms cancelled: the empty sum is the zero operator (matrix() returns the number 0)
        gm = np.zeros_like(Mw)
    else:
        gm = psum.matrix([qs[w] for w in order])
        gm = gm.toarray() if hasattr(gm, "toarray") else np.asarray(gm)
    ctx.check(close(gm, Mw), "projector-matrix", "C14:projector-sum-matrix", "", **wit)
    s = rand_coef(rng)
    for name, obj, want in (("s*S", s * psum, s * Mw), ("S*s", psum * s, s * Mw), ("-S", -psum, -Mw), ("S/s", psum / s, Mw / s),
                            ("S+S0", psum + strings[0], Mw + pmat_(d0, c0, order)), ("S-S0", psum - strings[0], Mw - pmat_(d0, c0, order))):
        if len(obj) == 0:
            gm2 = np.zeros_like(Mw)
        else:
            gm2 = obj.matrix([qs[w] for w in order])
            gm2 = gm2.toarray() if hasattr(gm2, "toarray") else np.asarray(gm2)
        ctx.check(close(gm2, want), "projector-matrix", "C14:projector-sum-" + name, "", s=s, **wit)
    # expectations with a full qid_map onto permuted axes
    qid_map = {qs[w]: a for a, w in enumerate(order)}
    psi = _rand_state(rng, m)
    rho = L.random_rho(rng, 2 ** m)
    tol = 1e-6 * max(1.0, float(np.abs(Mw).max()))
    arr = psi if case % 2 else psi.reshape((2,) * m)
    ctx.check(abs(complex(strings[0].expectation_from_state_vector(arr, qid_map)) - R.expect_sv(psi, pmat_(d0, c0, order))) <= tol,
              "projector-expectation", "C14:projector-string-expectation-sv", "", **wit)
    ctx.check(abs(complex(psum.expectation_from_state_vector(arr, qid_map)) - R.expect_sv(psi, Mw)) <= tol,
              "projector-expectation", "C14:projector-sum-expectation-sv", "", **wit)
    arr = rho if case % 3 else rho.reshape((2, 2) * m)
    ctx.check(abs(complex(strings[0].expectation_from_density_matrix(arr, qid_map)) - R.expect_dm(rho, pmat_(d0, c0, order))) <= tol,
              "projector-expectation", "C14:projector-string-expectation-dm", "", **wit)
    ctx.check(abs(complex(psum.expectation_from_density_matrix(arr, qid_map)) - R.expect_dm(rho, Mw)) <= tol,
              "projector-expectation", "C14:projector-sum-expectation-dm", "", **wit)
    ctx.distinct(("proj", tuple((spec_key((c, {})), tuple(sorted(d.items()))) for c, d in terms), tuple(order)), nontrivial=any(d for _, d in terms))
    ctx.sample({"terms": [(c, sorted(d.items())) for c, d in terms], "order": order})


def teardown(ctx):
    s = ctx.sections

    def full(name):
        return name in s and not s[name]["truncated"]

    ctx.extra["exhaustive_small_pauli_pairs"] = bool(full("exh_pairs") and full("exh_triples") and full("exh_unary"))
    ctx.extra["exhaustive_single_qubit_cliffords"] = bool(full("exh_cliff1") and full("exh_cliff2"))
    ctx.extra["exhaustive_two_qubit_cliffords"] = bool(ctx.tier == "thorough" and full("cliff2_enum"))
    ctx.extra["exhaustive"] = bool(ctx.extra["exhaustive_small_pauli_pairs"] and ctx.extra["exhaustive_single_qubit_cliffords"])

# ------------------------------------------------------------------------------------------------ sampled observables
_PM = {"I": np.eye(2, dtype=complex), "X": np.array([[0, 1], [1, 0]], dtype=complex),
       "Y": np.array([[0, -1j], [1j, 0]], dtype=complex), "Z": np.array([[1, 0], [0, -1]], dtype=complex)}


def _kron_all(ms):
    out = np.eye(1, dtype=complex)
    for m in ms:
        out = np.kron(out, m)
    return out


def sec_observables(ctx, rng, case):
    """cirq.work.measure_observables on a noiseless sampler: for a state that is an eigenstate of every requested Pauli
    string each shot is deterministic, so the reported mean must be exactly <psi|P|psi> (numpy), for every grouping, with
    and without readout symmetrisation, and with variance 0."""
    cirq = _S["cirq"]
    from cirq.work import observable_measurement as OM

    n = int(rng.integers(1, 5))
    qs = [cirq.LineQubit(i) for i in range(n)] if rng.random() < 0.6 else [cirq.GridQubit(0, i) for i in range(n)]
    kind = "product" if (n == 1 or rng.random() < 0.65) else "ghz"
    H = np.array([[1, 1], [1, -1]], dtype=complex) / math.sqrt(2)
    S = np.diag([1, 1j]).astype(complex)
    ops, psi = [], None
    if kind == "product":
        bases = [str(rng.choice(["X", "Y", "Z"])) for _ in range(n)]
        signs = [int(rng.choice([1, -1])) for _ in range(n)]
        vecs = []
        for q, b, sg in zip(qs, bases, signs):
            v = np.array([1, 0], dtype=complex)
            if sg < 0:
                ops.append(cirq.X(q))
                v = _PM["X"] @ v
            if b in ("X", "Y"):
                ops.append(cirq.H(q))
                v = H @ v
            if b == "Y":
                ops.append(cirq.S(q))
                v = S @ v
            vecs.append(v)
        psi = vecs[0]
        for v in vecs[1:]:
            psi = np.kron(psi, v)
        allowed = [("I", b) for b in bases]
    else:
        # GHZ state with local Clifford frame changes; observables are drawn from all Pauli strings and kept when the
        # numpy state is an eigenvector
        ops.append(cirq.H(qs[0]))
        for i in range(1, n):
            ops.append(cirq.CNOT(qs[0], qs[i]))
        psi = np.zeros(2 ** n, dtype=complex)
        psi[0] = psi[-1] = 1 / math.sqrt(2)
        for i, q in enumerate(qs):
            r = rng.random()
            loc = None
            if r < 0.25:
                ops.append(cirq.S(q))
                loc = S
            elif r < 0.5:
                ops.append(cirq.H(q))
                loc = H
            if loc is not None:
                psi = _kron_all([loc if j == i else _PM["I"] for j in range(n)]) @ psi
        allowed = [("I", "X", "Y", "Z")] * n
    circuit = cirq.Circuit(ops)
    want, observables, strings = [], [], []
    target = int(rng.integers(1, 6))
    for _ in range(60):
        if len(observables) >= target:
            break
        letters = [str(a[int(rng.integers(len(a)))]) for a in allowed]
        if all(c == "I" for c in letters) or any("".join(letters) == l_ for l_, _ in strings):
            continue
        ev = complex(np.vdot(psi, _kron_all([_PM[c] for c in letters]) @ psi))
        if abs(abs(ev) - 1) > 1e-9:
            continue  # not an eigenstate: the sampled mean would be statistical
        coef = float(rng.choice([1.0, 1.0, -1.0, 0.5, -2.25]))
        pstr = cirq.PauliString({q: {"X": cirq.X, "Y": cirq.Y, "Z": cirq.Z}[c] for q, c in zip(qs, letters) if c != "I"}, coefficient=coef)
        observables.append(pstr)
        strings.append(("".join(letters), coef))
        want.append(coef * ev.real)
    if not observables:
        ctx.reject("no-eigen-observable")
        return
    sym = bool(rng.random() < 0.5)
    reps = int(rng.choice([1, 2, 7, 16]))
    one_each = rng.random() < 0.4
    # own grouping: every observable measured alone (the group key is the setting with the coefficient stripped, as documented)
    grouper = (lambda settings: {type(s_)(s_.init_state, s_.observable.with_coefficient(1.0)): [s_] for s_ in settings}) if one_each else "greedy"
    wit = dict(kind=kind, n=n, observables=strings, readout_symmetrization=sym, repetitions=reps,
               grouper="one-group-per-observable" if one_each else "greedy", circuit=repr(circuit)[:600])
    res = OM.measure_observables(circuit, observables, cirq.Simulator(seed=int(rng.integers(1 << 30))),
                                 stopping_criteria=OM.RepetitionsStoppingCriteria(total_repetitions=reps),
                                 readout_symmetrization=sym, grouper=grouper)
    ctx.check(len(res) == len(observables), "sampled-observable==<psi|P|psi>", "C14:measure-observables-count", "", **wit)
    by_obs = {}
    for r_ in res:  # (the order of the returned list follows the groups, not the input)
        by_obs.setdefault(r_.setting.observable, []).append(r_)
    for pstr, w_, (letters, coef) in zip(observables, want, strings):
        hits = by_obs.get(pstr, [])
        if not ctx.check(len(hits) == 1, "sampled-observable==<psi|P|psi>", "C14:measure-observables-missing-result",
                         "%d results for %s*%s" % (len(hits), coef, letters), **wit):
            continue
        r_ = hits[0]
        ctx.check(abs(r_.mean - w_) <= 1e-9, "sampled-observable==<psi|P|psi>", "C14:measure-observables-mean",
                  "measure_observables reports %r for %s*%s on an eigenstate, exact value %r" % (r_.mean, coef, letters, w_), observable=letters, **wit)
        ctx.check(r_.variance <= 1e-9 or r_.repetitions <= 1, "sampled-observable==<psi|P|psi>", "C14:measure-observables-variance",
                  "variance %r of a deterministic outcome" % (r_.variance,), observable=letters, **wit)
    # the sampler's own convenience method: a list of values per parameter assignment, observables in the order given
    # (single strings and sums of the eigen-observables), exact on an eigenstate for any number of samples
    sums = []
    if len(observables) >= 2 and rng.random() < 0.6:
        a_, b_ = (int(x) for x in rng.choice(len(observables), size=2, replace=False))
        sums.append((observables[a_] + observables[b_] * 0.5, want[a_] + 0.5 * want[b_]))
    obs_list = list(observables) + [s_ for s_, _ in sums]
    want_list = list(want) + [w_ for _, w_ in sums]
    ns = int(rng.choice([1, 3, 10]))
    vals = cirq.Simulator(seed=int(rng.integers(1 << 30))).sample_expectation_values(circuit, obs_list, num_samples=ns)
    ok = len(vals) == 1 and len(vals[0]) == len(obs_list) and all(abs(v_ - w_) <= 1e-9 for v_, w_ in zip(vals[0], want_list))
    ctx.check(ok, "sampled-observable==<psi|P|psi>", "C14:sample_expectation_values",
              lambda: "sample_expectation_values = %r, exact values %r" % (vals, want_list), num_samples=ns, **wit)
    ctx.distinct((kind, tuple(strings), sym, reps, wit["grouper"]), nontrivial=True)
    ctx.sample({"kind": kind, "observables": strings, "sym": sym, "means": [float(r_.mean) for r_ in res]})


# (name, function, quick cases, thorough cases, share of the time budget); the weights follow the measured cost
# per case so that the exhaustive sections are never truncated (measured on an idle machine: quick ~18 s, thorough ~400 s of work per shard); the exhaustive sections come
# first with large weights: they use only what they need and the remainder rolls over to the random sections
SECTIONS = [
    ("exh_pairs", sec_exh_pairs, 256, 256, 30.0),
    ("exh_triples", sec_exh_triples, 64, 64, 8.0),
    ("exh_unary", sec_exh_unary, 16, 16, 4.0),
    ("doc_examples", sec_doc_examples, 1, 1, 1.0),
    ("exh_cliff1", sec_exh_cliff1, 48, 48, 40.0),
    ("exh_cliff2", sec_exh_cliff2, 30, 30, 50.0),
    ("cliff2_enum", sec_cliff2_enum, 280, N_CLIFF2, 20.0),
    ("rand_cliff", sec_rand_cliff, 1400, 25000, 16.0),
    ("rand_algebra", sec_rand_algebra, 2800, 40000, 5.0),
    ("dense", sec_dense, 2100, 25000, 5.0),
    ("pauli_sum", sec_pauli_sum, 1400, 20000, 4.5),
    ("boolean", sec_boolean, 420, 5000, 0.5),
    ("expect", sec_expect, 2800, 36000, 4.0),
    ("simulate", sec_simulate, 560, 8000, 2.0),
    ("phasor", sec_phasor, 1400, 20000, 3.0),
    ("pse", sec_pse, 840, 12000, 3.0),
    ("pauli_combination", sec_pauli_combination, 700, 10000, 0.3),
    ("interaction", sec_interaction, 280, 4000, 0.3),
    ("projector", sec_projector, 840, 12000, 1.0),
    ("observables", sec_observables, 700, 10000, 3.0),
]
