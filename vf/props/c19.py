"""C19 - exported OpenQASM describes the same computation as the circuit.

Monitor: the text returned by Circuit.to_qasm / cirq.qasm / QasmOutput.__str__ / save / save_qasm for generated
circuits.  Oracle: vf.refmodel.qasm_reader (own parser, qelib1.inc transcribed as macros over U/CX, own dense
branching simulator) against a reference computed from the catalogue matrices (vf.refmodel.gates via
vf.workloads.gatepool) with vf.refmodel.linalg - Cirq's unitaries / simulators are never consulted."""
from __future__ import annotations

import math
import os
import re
import tempfile
import warnings

import numpy as np

from vf.refmodel import gates as G
from vf.refmodel import linalg as L
from vf.refmodel import qasm_reader as R
from vf.workloads import gatepool as GP

LEVEL = "exploration"
RULE = ("circuits of 1-5 qubits drawn from the qubit families of the gate pool (special-value exponent grid + uniform "
        "reals, MatrixGate 1q/2q/3q, three-qubit gates and powers, controlled(), global shifts), measurements with "
        "invert masks / multi-qubit / invalid-identifier / repeated keys, resets, classical controls (KeyCondition, "
        "sympy Eq), every qubit order, precision in {3,6,10,15}, versions 2.0 and 3.0, five export entry points; a "
        "case is non-trivial when its reference unitary differs from the identity up to phase by > 1e-6 or it "
        "contains a measurement; distinct by (section, version, precision, order, ops with rounded parameters)")
ASSUMPTIONS = [
    "qelib1.inc as transcribed in vf/refmodel/qasm_reader.py (self-tested against the gates its comments name) and the "
    "OpenQASM 3 stdgates.inc gate list (p x y z h s sdg t tdg sx rx ry rz cx cy cz cp crx cry crz ch swap ccx cswap cu "
    "CX phase cphase id u1 u2 u3) are the standard libraries",
    "creg integers read bit 0 as the low-order bit (OpenQASM specification)",
    "Cirq semantics taken from the documentation: KeyCondition fires when any bit of the latest record is non-zero; "
    "sympy Eq(key, c) compares the big-endian integer of the latest record; invert_mask flips the recorded bit only",
    "unitary tolerance 1e-6 at precision >= 10, 2*pi*10^-p per printed angle below; distributions TV <= 1e-5 (twice "
    "the unitary tolerance below precision 10)",
]
MIN_EVAL = {"text-parses": 300, "unitary==reference": 150, "distribution==reference": 60, "creg-mapping": 60,
            "rejection-raises": 20}
MUST_REACH = [
    "cirq/protocols/qasm.py:QasmArgs.format_field",
    "cirq/circuits/qasm_output.py:QasmOutput._write_operations",
    "cirq/circuits/qasm_output.py:QasmOutput._write_operations.<locals>.keep",
    "cirq/circuits/qasm_output.py:QasmOutput._write_operations.<locals>.fallback",
    "cirq/circuits/qasm_output.py:QasmOutput._write_operations.<locals>.on_stuck",
    "cirq/circuits/qasm_output.py:QasmUGate.from_matrix",
    "cirq/circuits/qasm_output.py:QasmUGate._qasm_",
    "cirq/circuits/qasm_output.py:QasmTwoQubitGate._decompose_",
    "cirq/circuits/qasm_output.py:QasmOutput._generate_measurement_ids",
    "cirq/circuits/qasm_output.py:QasmOutput._generate_cregs",
    "cirq/circuits/qasm_output.py:QasmOutput.save",
    "cirq/value/condition.py:KeyCondition._qasm_",
    "cirq/value/condition.py:SympyCondition.qasm",
    "cirq/circuits/circuit.py:AbstractCircuit.to_qasm", "cirq/circuits/circuit.py:AbstractCircuit._qasm_",
    "cirq/circuits/circuit.py:AbstractCircuit.save_qasm", "cirq/circuits/qasm_output.py:QasmOutput.__str__",
    "cirq/linalg/decompositions.py:kak_decomposition",
    "cirq/linalg/decompositions.py:deconstruct_single_qubit_matrix_into_angles",
    "cirq/ops/measurement_gate.py:MeasurementGate._qasm_",
    "cirq/ops/controlled_operation.py:ControlledOperation._qasm_",
    "cirq/ops/classically_controlled_operation.py:ClassicallyControlledOperation._qasm_",
    "cirq/ops/common_gates.py:XPowGate._qasm_", "cirq/ops/common_gates.py:YPowGate._qasm_",
    "cirq/ops/common_gates.py:ZPowGate._qasm_", "cirq/ops/common_gates.py:HPowGate._qasm_",
    "cirq/ops/common_gates.py:CZPowGate._qasm_", "cirq/ops/common_gates.py:CXPowGate._qasm_",
    "cirq/ops/swap_gates.py:SwapPowGate._qasm_", "cirq/ops/three_qubit_gates.py:CCXPowGate._qasm_",
    "cirq/ops/three_qubit_gates.py:CCZPowGate._qasm_", "cirq/ops/three_qubit_gates.py:CSwapGate._qasm_",
    "cirq/ops/matrix_gates.py:MatrixGate._qasm_", "cirq/ops/phased_x_gate.py:PhasedXPowGate._qasm_",
    "cirq/ops/phased_x_z_gate.py:PhasedXZGate._qasm_", "cirq/ops/identity.py:IdentityGate._qasm_",
    "cirq/ops/common_channels.py:ResetChannel._qasm_",
]

# mechanism keys of genuine-defect candidates (explained-by classification, never keyed on seeds)
K_D6 = "C19:sympy-eq-multibit-endianness"
K_D7 = "C19:control-key-not-valid-identifier"
K_SXDG3 = "C19:qasm3-sxdg-not-in-stdgates"
K_MULTI = "C19:classical-control-multi-statement-subop"
K_NODECOMP = "C19:classical-control-subop-not-decomposed"
K_EMPTY = "C19:classical-control-empty-subop-dangling-if"
K_DIAG3 = "C19:three-qubit-diagonal-decompose-reorders-qubits"
K_CTRLSNAP = "C19:multi-controlled-rotation-snapped-to-identity"

STRICT_STDGATES = True      # `sxdg` is not part of OpenQASM 3 stdgates.inc
PRECISIONS = [3, 6, 10, 10, 10, 10, 15]
_S = {}
_VALID_ID = re.compile(r"[a-z][A-Za-z0-9_]*\Z")


def setup(ctx):
    warnings.simplefilter("ignore")
    R.self_test()
    specs = [s for s in GP.build_specs() if "qudit" not in s.tags] + GP.build_custom_specs()
    _S["specs"] = specs
    _S["by_name"] = {s.name: s for s in specs}
    _S["small"] = [s for s in specs if 1 <= s.n <= 2]
    _S["nfail"] = {}


# ------------------------------------------------------------------------------------------------ helpers
def _fail(ctx, monitor, mech, msg, **wit):
    """One oracle evaluation that failed; at most 4 stored witnesses per mechanism and process so that a frequent
    known mechanism can never crowd a new one out of the (bounded) violation list."""
    ctx.ok(monitor)
    n = _S["nfail"].get(mech, 0)
    _S["nfail"][mech] = n + 1
    if n < 4:
        ctx.fail(mech, msg, **wit)
    else:
        ctx.event("repeat:" + mech)


def _pkey(p):
    out = []
    for x in p:
        if isinstance(x, np.ndarray):
            out.append(round(float(np.abs(x.ravel()[:4]).sum()), 6))
        elif isinstance(x, float):
            out.append(round(x, 9))
        else:
            out.append(x)
    return tuple(out)


def _natural_key(name):
    m = re.match(r"([A-Za-z_]*)(\d*)\Z", name)
    return (m.group(1), int(m.group(2)) if m.group(2) else -1)


def make_qubits(rng, n):
    """n distinct qubits of one kind + the index order the documentation promises for the default (sorted) order."""
    import cirq

    kind = int(rng.integers(3))
    if kind == 0:
        xs = [int(x) for x in rng.choice(np.arange(-2, 12), size=n, replace=False)]
        qs = [cirq.LineQubit(x) for x in xs]
        keys = xs
    elif kind == 1:
        cells = [(r, c) for r in range(3) for c in range(3)]
        pick = [cells[int(i)] for i in rng.choice(len(cells), size=n, replace=False)]
        qs = [cirq.GridQubit(r, c) for r, c in pick]
        keys = pick
    else:
        pool = ["alice", "bob", "carol", "dave", "eve", "q1", "q2", "q10", "q11", "q20"]  # disjoint from the key pools
        names = [pool[int(i)] for i in rng.choice(len(pool), size=n, replace=False)]
        qs = [cirq.NamedQubit(s) for s in names]
        keys = [_natural_key(s) for s in names]
    default = sorted(range(n), key=lambda i: keys[i])
    return qs, default, ["line", "grid", "named"][kind]


def choose_order(rng, qs, default, used):
    """-> (qubit_order argument or None, list of abstract wire indices in declared order)."""
    import cirq

    n = len(qs)
    dflt_used = [i for i in default if i in used]
    r = rng.random()
    if r < 0.4 or not used:
        return None, dflt_used, "default"
    if r < 0.8:
        perm = [int(i) for i in rng.permutation(n)]
        if rng.random() < 0.7:
            perm = [i for i in perm if i in used]   # exactly the circuit's qubits
        # else: the explicit list also names qubits the circuit does not use -> declared too
        return [qs[i] for i in perm], perm, "list"
    usedl = [i for i in default if i in used]
    k = int(rng.integers(0, len(usedl) + 1))
    prefix = [usedl[int(i)] for i in rng.permutation(len(usedl))[:k]]
    rest = [i for i in usedl if i not in prefix]
    return cirq.QubitOrder.explicit([qs[i] for i in prefix], fallback=cirq.QubitOrder.DEFAULT), prefix + rest, "explicit+fallback"


def export(rng, circuit, qorder, precision, version, force=None):
    """Obtain the text through one of the public entry points.

    The exporter's own refusal of a classically controlled operation whose sub-operation has no direct QASM
    form ("Cannot output operation as QASM: cirq.ClassicallyControlledOperation(...)") is a rejection, not an
    alteration: the case is counted as an expected rejection."""
    from vf.worker import Reject

    try:
        return _export_impl(rng, circuit, qorder, precision, version, force)
    except ValueError as e:
        if str(e).startswith("Cannot output operation as QASM: cirq.ClassicallyControlledOperation("):
            raise Reject("classically-controlled-subop-without-qasm-form")
        raise


def _export_impl(rng, circuit, qorder, precision, version, force=None):
    import cirq

    header = None
    hr = rng.random()
    if hr < 0.15:
        header = "multi\nline header;  \n\n  */ \"quoted\" // nested\nqreg fake[3];"
    elif hr < 0.25:
        header = ""
    how = force or ["to_qasm", "to_qasm", "to_qasm", "cirq.qasm", "QasmOutput.str", "QasmOutput.save", "save_qasm"][int(rng.integers(7))]
    if how == "cirq.qasm" and qorder is not None:
        how = "to_qasm"
    if how == "save_qasm" and version != "2.0":
        how = "QasmOutput.save"
    if how == "to_qasm":
        kw = {}
        if header is not None:
            kw["header"] = header
        if qorder is not None:
            kw["qubit_order"] = qorder
        if precision != 10 or rng.random() < 0.5:
            kw["precision"] = precision
        if version != "2.0" or rng.random() < 0.5:
            kw["version"] = version
        return circuit.to_qasm(**kw), how
    if how == "cirq.qasm":
        if precision == 10 and version == "2.0" and rng.random() < 0.5:
            return cirq.qasm(circuit), how
        return cirq.qasm(circuit, args=cirq.QasmArgs(precision=precision, version=version)), how
    order = cirq.QubitOrder.as_qubit_order(cirq.QubitOrder.DEFAULT if qorder is None else qorder)
    qubits = order.order_for(circuit.all_qubits())
    if how == "QasmOutput.str":
        return str(cirq.QasmOutput(circuit.all_operations(), qubits, header=header or "", precision=precision, version=version)), how
    fd, path = tempfile.mkstemp(prefix="vf-c19-", suffix=".qasm")
    os.close(fd)
    try:
        if how == "save_qasm":
            kw = {"precision": precision}
            if header is not None:
                kw["header"] = header
            if qorder is not None:
                kw["qubit_order"] = qorder
            circuit.save_qasm(path, **kw)
        else:
            cirq.QasmOutput(circuit.all_operations(), qubits, header=header or "", precision=precision, version=version).save(path)
        with open(path) as f:
            return f.read(), how
    finally:
        os.unlink(path)


def read_text(ctx, text, version, wit):
    """Parse the emitted text (a parse error is a violation).  -> Program or None."""
    try:
        prog = R.parse(text)
    except R.QasmError as e:
        if e.kind == "undefined-gate" and e.name == "sxdg" and version == "3.0" and STRICT_STDGATES:
            try:
                prog = R.parse(text, lenient_gates=True)
            except R.QasmError as e2:
                _fail(ctx, "text-parses", "C19:parse-error:" + e2.kind, str(e2), text=text[:3000], **wit)
                return None
            _fail(ctx, "text-parses", K_SXDG3, "OPENQASM 3.0 text applies `sxdg`, which stdgates.inc does not define: %s" % e,
                  text=text[:1500], **wit)
            ctx.event("read-leniently-with-sxdg")
            return prog
        _fail(ctx, "text-parses", "C19:parse-error:" + e.kind, str(e), text=text[:3000], **wit)
        return None
    ctx.ok("text-parses")
    want_v = version
    if not prog.version.startswith(want_v[0]):
        _fail(ctx, "version-header", "C19:version-header", "asked for %s, text says OPENQASM %s" % (version, prog.version), **wit)
    else:
        ctx.ok("version-header")
    return prog


def tolerance(precision, prog):
    """1e-6 at precision >= 10.  Below: every printed angle is off by at most 10^-p half turns (0.5 from rounding, up to 1
    where an exponent within 10^-p of a special value is snapped to it; `u2` carries one implicit angle) = pi*10^-p rad,
    which moves matrix entries by at most that much; a factor 2 for the phase alignment."""
    if precision >= 10:
        return 1e-6
    n = prog.n_params + prog.gate_names_used.get("u2", 0)
    return max(1e-6, 2 * math.pi * 10.0 ** (-precision) * max(1, n))


# ------------------------------------------------------------------------------------------------ abstract programs
def gen_gate(rng, n, specs, p_ctrl=0.22, max_q=None):
    """One abstract gate application on n wires: (spec, params, wires, control values) + its catalogue matrix."""
    cands = [s for s in specs if s.n <= (max_q or n) and s.n <= n]
    spec = cands[int(rng.integers(len(cands)))]
    p = spec.sample(rng)
    k = spec.n
    nctrl = 0
    if rng.random() < p_ctrl and k + 1 <= n and not ("custom" in spec.tags and k >= 2):
        # (a controlled unknown two-qubit unitary has three qubits: the exporter's fall-back only covers one and two, and
        # refuses it with its documented ValueError)
        nctrl = 1 if (k + 2 > n or rng.random() < 0.75 or "custom" in spec.tags) else 2
    wires = [int(w) for w in rng.choice(n, size=k + nctrl, replace=False)] if k + nctrl else []
    cvals = tuple(int(rng.random() < 0.85) for _ in range(nctrl))
    m = np.asarray(spec.ref(p), dtype=complex)
    if nctrl:
        m = L.controlled(m, (2,) * nctrl, [cvals])
    return {"t": "g", "spec": spec.name, "params": p, "wires": wires, "cvals": cvals, "matrix": m,
            "style": int(rng.integers(3)), "tag": bool(rng.random() < 0.1)}


def cirq_gate_op(step, qs):
    import cirq

    spec = _S["by_name"][step["spec"]]
    g = spec.make(step["params"])
    nctrl = len(step["cvals"])
    qubits = [qs[w] for w in step["wires"]]
    if nctrl == 0:
        op = g.on(*qubits)
    else:
        cv = list(step["cvals"])
        if step["style"] == 0 and all(cv):
            op = g.controlled(num_controls=nctrl).on(*qubits)
        elif step["style"] == 1:
            op = g.on(*qubits[nctrl:]).controlled_by(*qubits[:nctrl], control_values=cv)
        else:
            op = g.controlled(num_controls=nctrl, control_values=cv).on(*qubits)
    if step["tag"]:
        op = op.with_tags("vf-tag")
    return op


def op_fingerprint(step):
    if step["t"] == "g":
        return ("g", step["spec"], _pkey(step["params"]), tuple(step["wires"]), step["cvals"])
    if step["t"] == "m":
        return ("m", step["key"], tuple(step["wires"]), tuple(step["invert"]))
    if step["t"] == "r":
        return ("r", step["wire"])
    return ("c", tuple(step["conds"]), op_fingerprint(step["op"]))


def describe(step):
    if step["t"] == "g":
        return {"gate": step["spec"], "params": list(step["params"]), "wires": step["wires"], "control_values": list(step["cvals"])}
    if step["t"] == "m":
        return {"measure": step["wires"], "key": step["key"], "invert_mask": list(step["invert"])}
    if step["t"] == "r":
        return {"reset": step["wire"]}
    return {"if": [list(c) for c in step["conds"]], "then": describe(step["op"])}


def ref_unitary(steps, order):
    """Product of the catalogue matrices embedded on the declared order (first declared qubit most significant)."""
    pos = {w: i for i, w in enumerate(order)}
    n = len(order)
    dims = [2] * n
    u = np.eye(2 ** n, dtype=complex)
    for s in steps:
        m = s["matrix"]
        if not s["wires"]:
            u = u * complex(np.asarray(m).reshape(()))
        else:
            u = L.embed(m, [pos[w] for w in s["wires"]], dims) @ u
    return u


# ---- own branching reference for programs with measurements / resets / classical control
def big_endian_int(bits):
    v = 0
    for b in bits:
        v = 2 * v + int(b)
    return v


def cond_holds(cond, records):
    if cond[0] == "key":
        return any(records[cond[1]])
    if cond[0] == "eq":
        return big_endian_int(records[cond[1]]) == cond[2]
    raise AssertionError(cond)


def ref_distribution(steps, n, keys):
    """{(latest record of keys[0], latest record of keys[1], ...): probability} by enumerating every branch."""
    dims = [2] * n
    psi0 = np.zeros(2 ** n, dtype=complex)
    psi0[0] = 1
    branches = [(psi0, {})]
    P = [np.diag([1.0, 0.0]).astype(complex), np.diag([0.0, 1.0]).astype(complex)]

    def apply(step, psi, rec):
        t = step["t"]
        if t == "g":
            if not step["wires"]:
                return [(psi * complex(np.asarray(step["matrix"]).reshape(())), rec)]
            return [(L.apply_to_state(psi, step["matrix"], step["wires"], dims), rec)]
        if t == "r":
            out = []
            for b in (0, 1):
                v = L.apply_to_state(psi, P[b], [step["wire"]], dims)
                if np.vdot(v, v).real > 1e-15:
                    if b:
                        v = L.apply_to_state(v, G.X, [step["wire"]], dims)
                    out.append((v, rec))
            return out
        if t == "m":
            cur = [(psi, ())]
            inv = list(step["invert"]) + [False] * (len(step["wires"]) - len(step["invert"]))
            for w, iv in zip(step["wires"], inv):
                nxt = []
                for v, bits in cur:
                    for b in (0, 1):
                        v2 = L.apply_to_state(v, P[b], [w], dims)
                        if np.vdot(v2, v2).real > 1e-15:
                            nxt.append((v2, bits + (b ^ int(bool(iv)),)))
                cur = nxt
            out = []
            for v, bits in cur:
                r2 = dict(rec)
                r2[step["key"]] = bits
                out.append((v, r2))
            return out
        if t == "c":
            if all(cond_holds(c, rec) for c in step["conds"]):
                return apply(step["op"], psi, rec)
            return [(psi, rec)]
        raise AssertionError(t)

    for step in steps:
        nxt = []
        for psi, rec in branches:
            nxt.extend(apply(step, psi, rec))
        branches = nxt
        if len(branches) > 6000:
            raise OverflowError("too many branches")
    dist = {}
    for psi, rec in branches:
        k = tuple(tuple(rec[key]) for key in keys)
        dist[k] = dist.get(k, 0.0) + float(np.vdot(psi, psi).real)
    return dist


def key_id_expected(key):
    """What the documentation of QasmOutput promises: `m_<key>` when that is a valid id, else a generated id whose
    declaration carries the comment `// Measurement: <key>`."""
    return "m_" + key if _VALID_ID.match("m_" + key) else None


def map_cregs(ctx, prog, keys, widths, wit):
    """Semantic mapping key -> creg: every key gets a distinct creg of the right width."""
    mapping, used = {}, set()
    ok = True
    why = ""
    for k in keys:
        direct = key_id_expected(k)
        cands = []
        if direct is not None and direct in prog.cregs:
            cands = [direct]
        else:
            want = "Measurement: " + " ".join(k.split("\n"))
            cands = [c for c in prog.cregs if prog.creg_comment.get(c) == want and c not in used]
        cands = [c for c in cands if c not in used and prog.cregs[c] == widths[k]]
        if not cands:
            ok, why = False, "no creg of width %d identifiable for key %r (cregs %r, comments %r)" % (
                widths[k], k, dict(prog.cregs), prog.creg_comment)
            break
        mapping[k] = cands[0]
        used.add(cands[0])
    if ok and len(prog.cregs) != len(keys):
        ok, why = False, "%d cregs declared for %d keys" % (len(prog.cregs), len(keys))
    if not ok:
        _fail(ctx, "creg-mapping", "C19:creg-mapping", why, **wit)
        return None
    ctx.ok("creg-mapping")
    return mapping


def reader_dist_by_key(prog, mapping, keys, const_map=None):
    names = list(prog.cregs)
    idx = [names.index(mapping[k]) for k in keys]
    out = {}
    for cl, p in R.distribution(prog, const_map=const_map).items():
        kk = tuple(cl[i] for i in idx)
        out[kk] = out.get(kk, 0.0) + p
    return out


def bit_reverse_const(name, width, n):
    if n >= 2 ** width:
        return n
    return int(format(n, "0%db" % width)[::-1], 2)


# ------------------------------------------------------------------------------------------------ sections
def _adjacent(a, b):
    """Documented adjacency of LineQubit / GridQubit (unit Manhattan distance); None for qubits without the notion."""
    import cirq

    if isinstance(a, cirq.LineQubit) and isinstance(b, cirq.LineQubit):
        return abs(a.x - b.x) == 1
    if isinstance(a, cirq.GridQubit) and isinstance(b, cirq.GridQubit):
        return abs(a.row - b.row) + abs(a.col - b.col) == 1
    return None


def _diag3_as_decomposed(step, qs):
    """Known-wrong behaviour (classification only): the decomposition of ThreeQubitDiagonalGate swaps (b,c) when b is
    not adjacent to a, else (a,b) when b is not adjacent to c, but keeps the angle order."""
    if step["spec"] != "ThreeQubitDiagonal":
        return step
    k = len(step["cvals"])
    a, b, c = step["wires"][k:]
    if _adjacent(qs[a], qs[b]) is None:
        return step
    if not _adjacent(qs[b], qs[a]):
        b, c = c, b
    elif not _adjacent(qs[b], qs[c]):
        a, b = b, a
    s2 = dict(step)
    s2["wires"] = list(step["wires"][:k]) + [a, b, c]
    return s2


def _explained_by_ctrl_snap(steps, qs, ops, order, got, tol):
    """Classification only (consults Cirq): substitute, for every controlled step, the matrix of Cirq's own one-level
    decomposition of that operation; the known inaccuracy moves it by < 5e-4.  True when the text then matches."""
    import cirq

    alt, changed = [], False
    for s, op in zip(steps, ops):
        if s["cvals"]:
            try:
                m = cirq.Circuit(cirq.decompose_once(op)).unitary(qubit_order=list(op.qubits))
                if L.phase_diff(m, s["matrix"]) <= 1e-7:
                    # the snapping can sit one level further down (a controlled two-qubit gate first decomposes into
                    # exactly controlled pieces, each of which then goes through _decompose_abc)
                    m = cirq.Circuit(cirq.decompose(op)).unitary(qubit_order=list(op.qubits))
            except Exception:
                return False
            dm = L.phase_diff(m, s["matrix"])
            if dm > 5e-4:
                return False
            if dm > 1e-7:
                s = dict(s)
                s["matrix"] = L.phase_align(m, s["matrix"])
                changed = True
        alt.append(s)
    return changed and L.phase_diff(got, ref_unitary(alt, order)) <= tol


def _unitary_case(ctx, rng, case, steps, n, section, force_version=None, force_precision=None):
    import cirq

    qs, default, qkind = make_qubits(rng, n)
    ops = [cirq_gate_op(s, qs) for s in steps]
    strat = [cirq.InsertStrategy.EARLIEST, cirq.InsertStrategy.NEW, cirq.InsertStrategy.NEW_THEN_INLINE][int(rng.integers(3))]
    circuit = cirq.Circuit(ops, strategy=strat)
    used = set(w for s in steps for w in s["wires"])
    qorder, order, okind = choose_order(rng, qs, default, used)
    version = force_version or ("2.0" if rng.random() < 0.6 else "3.0")
    precision = force_precision or PRECISIONS[int(rng.integers(len(PRECISIONS)))]
    wit = dict(program=[describe(s) for s in steps], qubits=[repr(q) for q in qs], declared_order=order, order_kind=okind,
               version=version, precision=precision)
    text, how = export(rng, circuit, qorder, precision, version)
    wit["entry_point"] = how
    ctx.event("entry:" + how)
    prog = read_text(ctx, text, version, wit)
    want = ref_unitary(steps, order)
    nontrivial = L.phase_diff(want, np.eye(want.shape[0])) > 1e-6
    ctx.distinct((section, version, precision, tuple(order), tuple(op_fingerprint(s) for s in steps)), nontrivial=nontrivial)
    ctx.sample({"program": wit["program"], "order": order, "version": version, "precision": precision, "entry": how,
                "text_head": text[:400]})
    if prog is None:
        return
    if prog.nqubits != len(order):
        _fail(ctx, "register-size", "C19:register-size", "declared %d qubits, circuit order has %d" % (prog.nqubits, len(order)),
              text=text[:1500], **wit)
        return
    ctx.ok("register-size")
    if not prog.is_unitary or prog.cregs:
        _fail(ctx, "unitary==reference", "C19:unexpected-nonunitary-statement", "measure/reset/if in the text of a unitary circuit",
              text=text[:1500], **wit)
        return
    got = R.unitary(prog)
    tol = tolerance(precision, prog)
    d = L.phase_diff(got, want)
    if d <= tol:
        ctx.ok("unitary==reference")
    elif any(s["spec"] == "ThreeQubitDiagonal" for s in steps) and L.phase_diff(
            got, ref_unitary([_diag3_as_decomposed(s, qs) for s in steps], order)) <= tol:
        _fail(ctx, "unitary==reference", K_DIAG3, "text unitary differs from the catalogue product by %.3g; explained by "
              "ThreeQubitDiagonalGate._decompose_ reordering its qubits for adjacency without permuting the angles" % d,
              text=text[:3000], **wit)
    elif d <= 1e-3 and _explained_by_ctrl_snap(steps, qs, ops, order, got, tol):
        _fail(ctx, "unitary==reference", K_CTRLSNAP, "text unitary differs from the catalogue product by %.3g (tol %.1g); "
              "explained by the multi-controlled decomposition snapping a near-identity rotation (|m00| within 1e-9 of 1 "
              "in _decompose_abc) to the identity" % (d, tol), text=text[:3000], **wit)
    else:
        names = sorted(set(s["spec"] for s in steps))
        mech = "C19:unitary-mismatch:" + (names[0] if len(names) == 1 else "circuit")
        _fail(ctx, "unitary==reference", mech, "text unitary differs from the catalogue product by %.3g (tol %.1g) up to phase"
              % (d, tol), text=text[:3000], **wit)
    for nm in prog.gate_names_used:
        ctx.event("mnemonic:" + nm, prog.gate_names_used[nm])


def sec_unitary(ctx, rng, case):
    """Random circuits over the whole qubit gate pool."""
    n = int(rng.integers(1, 6)) if rng.random() < 0.8 else int(rng.integers(1, 4))
    depth = int(rng.integers(1, 7))
    steps = [gen_gate(rng, n, _S["specs"]) for _ in range(depth)]
    if rng.random() < 0.25 and steps:  # repeated gates
        steps.append(dict(steps[int(rng.integers(len(steps)))]))
    _unitary_case(ctx, rng, case, steps, n, "unitary")


_MNEMONIC_EXPS = [0.5, -0.5, 0.25, -0.25, 1.0, -1.0, 0.0, 2.0, 3.0, 1.5, -1.5, 1 / 3]


def _near(rng, e):
    r = rng.random()
    if r < 0.55:
        return e
    if r < 0.9:
        return e + float(rng.choice([-1, 1])) * float(rng.choice([1e-4, 3e-4, 1e-3]))
    return e + float(rng.choice([-1, 1])) * 1e-9


def sec_mnemonic(ctx, rng, case):
    """Single gates on and near the exponents that select a special mnemonic, every family in turn."""
    fams = ["XPow", "YPow", "ZPow", "HPow", "CZPow", "CXPow", "SwapPow", "CCXPow", "CCZPow", "PhasedXPow", "ISwapPow",
            "XXPow", "YYPow", "ZZPow", "CSWAP", "Matrix2", "Matrix2x2", "PhasedXZ", "Identity2", "Identity2x2", "GlobalPhase"]
    name = fams[case % len(fams)]
    spec = _S["by_name"][name]
    e = _near(rng, float(_MNEMONIC_EXPS[int(rng.integers(len(_MNEMONIC_EXPS)))]))
    shift = float(rng.choice([0.0, 0.0, 0.0, -0.5, 0.5, 0.25]))
    if spec.eigen:
        p = (e, shift)
    elif name == "PhasedXPow":
        p = (float(rng.choice([0.0, 0.25, 0.5, -0.5, 1.0])) if rng.random() < 0.5 else float(rng.uniform(-1, 1)), e, shift)
    else:
        p = spec.sample(rng)
    k = spec.n
    n = max(1, k + int(rng.integers(0, 3)))
    nctrl = 0
    if k + 1 <= n and rng.random() < 0.45:
        nctrl = 1
    wires = [int(w) for w in rng.choice(n, size=k + nctrl, replace=False)] if k + nctrl else []
    cvals = (1,) * nctrl if rng.random() < 0.85 else (0,) * nctrl
    m = np.asarray(spec.ref(p), dtype=complex)
    if nctrl:
        m = L.controlled(m, (2,) * nctrl, [cvals])
    step = {"t": "g", "spec": name, "params": p, "wires": wires, "cvals": cvals, "matrix": m, "style": int(rng.integers(3)),
            "tag": False}
    steps = [step]
    if rng.random() < 0.3:
        steps.append(dict(step))
    if not wires and rng.random() < 0.5:  # keep at least one qubit in most global-phase cases
        steps.append(gen_gate(rng, n, _S["small"], p_ctrl=0))
    _unitary_case(ctx, rng, case, steps, n, "mnemonic")


KEYS_VALID = ["a", "b", "c", "k0", "A", "x_y", "result", "q", "if", "0"]
KEYS_INVALID = ["a b", "x-y", "k.1", "ü", "m(0)", "line\nbreak", "1+1"]


def gen_measure(rng, n, key, width=None):
    k = width or int(rng.integers(1, min(n, 3) + 1))
    wires = [int(w) for w in rng.choice(n, size=k, replace=False)]
    r = rng.random()
    if r < 0.35:
        inv = ()
    elif r < 0.8:
        inv = tuple(bool(rng.integers(2)) for _ in range(k))
    else:
        inv = tuple(bool(rng.integers(2)) for _ in range(int(rng.integers(1, k + 1))))
    return {"t": "m", "key": key, "wires": wires, "invert": inv}


def cirq_measure(step, qs, default_key=False):
    import cirq

    kw = {}
    if step["invert"]:
        kw["invert_mask"] = tuple(step["invert"])
    if not default_key:
        kw["key"] = step["key"]
    return cirq.measure(*[qs[w] for w in step["wires"]], **kw)


def prep_layer(rng, n):
    steps = []
    for w in range(n):
        r = rng.random()
        if r < 0.4:
            steps.append(_mk("HPow", (1.0, 0.0), [w]))
        elif r < 0.7:
            steps.append(_mk("ry", (float(rng.uniform(0.3, 2.8)),), [w]))
        elif r < 0.85:
            steps.append(_mk("XPow", (1.0, 0.0), [w]))
    if n >= 2 and rng.random() < 0.7:
        a, b = [int(x) for x in rng.choice(n, size=2, replace=False)]
        steps.append(_mk("CXPow", (1.0, 0.0), [a, b]))
    return steps


def _mk(name, params, wires, cvals=()):
    spec = _S["by_name"][name]
    m = np.asarray(spec.ref(params), dtype=complex)
    if cvals:
        m = L.controlled(m, (2,) * len(cvals), [tuple(cvals)])
    return {"t": "g", "spec": name, "params": params, "wires": list(wires), "cvals": tuple(cvals), "matrix": m, "style": 2, "tag": False}


def build_circuit(rng, steps, qs, default_keys=()):
    """Abstract program -> cirq.Circuit through public constructors only."""
    import cirq
    import sympy

    def conv(step):
        if step["t"] == "g":
            return cirq_gate_op(step, qs)
        if step["t"] == "m":
            return cirq_measure(step, qs, default_key=step["key"] in default_keys)
        if step["t"] == "r":
            return cirq.reset(qs[step["wire"]]) if step.get("style", 0) == 0 else cirq.ResetChannel().on(qs[step["wire"]])
        conds = []
        for c in step["conds"]:
            if c[0] == "key":
                conds.append(c[1] if step.get("style", 0) == 0 else cirq.KeyCondition(cirq.MeasurementKey(c[1])))
            else:
                conds.append(sympy.Eq(sympy.Symbol(c[1]), c[2]))
        return conv(step["op"]).with_classical_controls(*conds)

    return [conv(s) for s in steps]


def _dist_case(ctx, rng, case, steps, n, section, version=None, precision=None, known=None, default_keys=(), strategy=None,
               faulty_steps=None):
    """Export, read, map cregs, compare exact distributions.  `known`: list of (mech, explain(prog, text) -> dist|None)
    tried in order when the comparison (or the parse) fails."""
    import cirq

    qs, default, qkind = make_qubits(rng, n)
    ops = build_circuit(rng, steps, qs, default_keys)
    if strategy is None:
        strategy = [cirq.InsertStrategy.EARLIEST, cirq.InsertStrategy.NEW_THEN_INLINE][int(rng.integers(2))]
    circuit = cirq.Circuit(ops, strategy=strategy)

    def wires_of(s):
        if s["t"] == "c":
            return wires_of(s["op"])
        return [s["wire"]] if s["t"] == "r" else s["wires"]

    used = set(w for s in steps for w in wires_of(s))
    qorder, order, okind = choose_order(rng, qs, default, used)
    version = version or ("2.0" if rng.random() < 0.55 else "3.0")
    precision = precision or PRECISIONS[int(rng.integers(len(PRECISIONS)))]
    keys, widths = [], {}
    for s in steps:
        if s["t"] == "m":
            if s["key"] not in widths:
                keys.append(s["key"])
                widths[s["key"]] = len(s["wires"])
    # default keys are spelled by Cirq from the qubits' str(); obtain the spelling through the public key protocol
    keymap = {}
    for s, op in zip(steps, ops):
        if s["t"] == "m" and s["key"] in default_keys:
            keymap[s["key"]] = cirq.measurement_key_name(op)
    real_keys = [keymap.get(k, k) for k in keys]
    if len(set(real_keys)) != len(real_keys):
        ctx.reject("harness:default-key-collides-with-explicit-key")
        return
    real_widths = {keymap.get(k, k): w for k, w in widths.items()}
    wit = dict(program=[describe(s) for s in steps], qubits=[repr(q) for q in qs], declared_order=order, order_kind=okind,
               version=version, precision=precision)
    ctx.distinct((section, version, precision, tuple(order), tuple(op_fingerprint(s) for s in steps)), nontrivial=bool(keys))
    text, how = export(rng, circuit, qorder, precision, version)
    wit["entry_point"] = how
    ctx.event("entry:" + how)
    ctx.sample({"program": wit["program"], "order": order, "version": version, "precision": precision, "entry": how,
                "text_head": text[:500]})
    pos = {w: i for i, w in enumerate(order)}

    def relabel(s):
        s2 = dict(s)
        if s["t"] == "c":
            s2["op"] = relabel(s["op"])
        elif s["t"] == "r":
            s2["wire"] = pos[s["wire"]]
        else:
            s2["wires"] = [pos[w] for w in s["wires"]]
        return s2

    try:
        want = ref_distribution([relabel(s) for s in steps], len(order), keys)
    except OverflowError:
        ctx.reject("harness:too-many-branches")
        return
    # ---- parse
    try:
        prog = R.parse(text)
        parse_err = None
    except R.QasmError as e:
        prog, parse_err = None, e
    if parse_err is not None and not (parse_err.kind == "undefined-gate" and parse_err.name == "sxdg"):
        for mech, explain in (known or []):
            try:
                alt = explain(None, text)
            except R.QasmError:
                alt = None
            ptol = 1e-5 if precision >= 10 else max(1e-5, 4 * math.pi * 10.0 ** (-precision) * max(1, 3 * text.count(";")))
            if alt is not None and L.tv_distance(alt, want) <= ptol:
                _fail(ctx, "text-parses", mech, "emitted text is not valid OpenQASM: %s" % parse_err, text=text[:2500], **wit)
                return
        _fail(ctx, "text-parses", "C19:parse-error:" + parse_err.kind, str(parse_err), text=text[:3000], **wit)
        return
    prog = read_text(ctx, text, version, wit)
    if prog is None:
        return
    if prog.nqubits != len(order):
        _fail(ctx, "register-size", "C19:register-size", "declared %d qubits, circuit order has %d" % (prog.nqubits, len(order)),
              text=text[:1500], **wit)
        return
    ctx.ok("register-size")
    mapping = map_cregs(ctx, prog, real_keys, real_widths, dict(text=text[:2500], **wit))
    if mapping is None:
        return
    got = reader_dist_by_key(prog, mapping, real_keys)
    tol = max(1e-5, 2 * tolerance(precision, prog)) if precision < 10 else 1e-5  # TV <= 2 * operator error
    tv = L.tv_distance(got, want)
    if tv <= tol:
        ctx.ok("distribution==reference")
        return
    for mech, explain in (known or []):
        try:
            alt = explain(prog, text)
        except R.QasmError:
            alt = None
        if alt is not None and L.tv_distance(alt, want) <= tol:
            _fail(ctx, "distribution==reference", mech, "creg distribution of the text differs from the circuit's record "
                  "distribution (TV %.3g); explained by the known mechanism" % tv, text=text[:2500],
                  got={str(k): v for k, v in got.items()}, want={str(k): v for k, v in want.items()}, **wit)
            return
    if faulty_steps is not None:
        for mech, fsteps in faulty_steps:
            alt = ref_distribution([relabel(s) for s in fsteps], len(order), keys)
            if L.tv_distance(got, alt) <= tol:
                _fail(ctx, "distribution==reference", mech, "creg distribution of the text differs from the circuit's record "
                      "distribution (TV %.3g); explained by the known mechanism" % tv, text=text[:2500],
                      got={str(k): v for k, v in got.items()}, want={str(k): v for k, v in want.items()}, **wit)
                return
    kinds = sorted(set(s["t"] for s in steps))
    _fail(ctx, "distribution==reference", "C19:distribution-mismatch:" + "".join(kinds),
          "creg distribution of the text differs from the circuit's record distribution (TV %.3g, tol %.1g)" % (tv, tol),
          text=text[:3000], got={str(k): v for k, v in got.items()}, want={str(k): v for k, v in want.items()}, **wit)


def sec_measure(ctx, rng, case):
    """Gates + measurements (invert masks, multi-qubit keys, invalid-identifier keys, default keys, repeated keys) + resets."""
    n = int(rng.integers(1, 5))
    steps = prep_layer(rng, n)
    nmeas = int(rng.integers(1, 4))
    pool = list(KEYS_VALID) + list(KEYS_INVALID)
    order = [pool[int(i)] for i in rng.permutation(len(pool))]
    bits = 0
    used_keys = {}
    default_keys = set()
    for i in range(nmeas):
        repeatable = [k for k in used_keys if k not in default_keys]
        if repeatable and rng.random() < 0.2:
            key = repeatable[int(rng.integers(len(repeatable)))]
            m = gen_measure(rng, n, key, width=used_keys[key])
        else:
            key = order[i]
            m = gen_measure(rng, n, key)
            if not default_keys and rng.random() < 0.12:
                default_keys.add(key)  # cirq.measure(...) without key=: the key is spelled from the qubits
        if bits + len(m["wires"]) > 7:
            break
        bits += len(m["wires"])
        used_keys[key] = len(m["wires"])
        steps.append(m)
        r = rng.random()
        if r < 0.35:
            steps.append(gen_gate(rng, n, _S["small"], p_ctrl=0.1))
        elif r < 0.5:
            steps.append({"t": "r", "wire": int(rng.integers(n)), "style": int(rng.integers(2))})
    if not any(s["t"] == "m" for s in steps):
        steps.append(gen_measure(rng, n, "a"))
    _dist_case(ctx, rng, case, steps, n, "measure", default_keys=default_keys)


_CC_SINGLE = ["XPow", "YPow", "ZPow", "rx", "ry", "rz", "PhasedXPow", "PhasedXZ", "Matrix2", "CXPow1", "CZPow1", "SwapPow1", "CCXPow1",
              "CSWAP", "X", "Y", "Z", "H", "cX", "cH", "reset"]


def gen_cc_subop(rng, n, avoid=()):
    """A sub-operation whose QASM form is ONE statement."""
    for _ in range(50):
        name = _CC_SINGLE[int(rng.integers(len(_CC_SINGLE)))]
        if name == "reset":
            return {"t": "r", "wire": int(rng.integers(n)), "style": 0}
        cvals = ()
        if name in ("X", "Y", "Z", "H"):
            spec, p = {"X": "XPow", "Y": "YPow", "Z": "ZPow", "H": "HPow"}[name], (1.0, 0.0)
        elif name in ("cX", "cH"):
            spec, p, cvals = {"cX": "XPow", "cH": "HPow"}[name], (1.0, 0.0), (1,)
        elif name.endswith("1"):
            spec, p = name[:-1], (1.0, 0.0)
        else:
            spec = name
            p = _S["by_name"][spec].sample(rng)
        k = _S["by_name"][spec].n + len(cvals)
        if k > n:
            continue
        wires = [int(w) for w in rng.choice(n, size=k, replace=False)]
        return _mk(spec, p, wires, cvals)
    return _mk("XPow", (1.0, 0.0), [0])


def final_layer(rng, n, steps, key="fin"):
    if rng.random() < 0.5:
        for w in range(n):
            if rng.random() < 0.5:
                steps.append(_mk("HPow", (1.0, 0.0), [w]))
    steps.append({"t": "m", "key": key, "wires": list(range(n)), "invert": ()})


def sec_control(ctx, rng, case):
    """Classical control that must export cleanly: single-bit keys with KeyCondition / sympy Eq(key, 0|1|2), multi-bit
    KeyCondition and several conditions in 3.0; sub-operations with a one-statement QASM form."""
    n = int(rng.integers(2, 5))
    version = "2.0" if rng.random() < 0.5 else "3.0"
    steps = prep_layer(rng, n)
    keys = ["a", "b", "k0", "x_y"]
    widths = {}
    nk = int(rng.integers(1, 3))
    for i in range(nk):
        w = 1
        if version == "3.0" and rng.random() < 0.4:
            w = int(rng.integers(2, min(n, 3) + 1))
        m = gen_measure(rng, n, keys[i], width=w)
        widths[keys[i]] = w
        steps.append(m)
        if rng.random() < 0.3:
            steps.append(gen_gate(rng, n, _S["small"], p_ctrl=0))
    ncc = int(rng.integers(1, 4))
    for _ in range(ncc):
        key = keys[int(rng.integers(nk))]
        if widths[key] == 1 and rng.random() < 0.5:
            conds = [("eq", key, int(rng.choice([0, 1, 1, 1, 2])))]
        else:
            conds = [("key", key)]
        if version == "3.0" and nk > 1 and rng.random() < 0.35:
            other = [k for k in keys[:nk] if k != key][0]
            conds.append(("key", other) if widths[other] > 1 or rng.random() < 0.5 else ("eq", other, int(rng.integers(2))))
        steps.append({"t": "c", "conds": [tuple(c) for c in conds], "op": gen_cc_subop(rng, n), "style": int(rng.integers(2))})
        if rng.random() < 0.25:  # re-measure the same key (same width): the condition must read the latest record
            steps.append(gen_measure(rng, n, key, width=widths[key]))
    final_layer(rng, n, steps)
    _dist_case(ctx, rng, case, steps, n, "control", version=version)


def sec_control_multibit(ctx, rng, case):
    """sympy Eq(key, c) on multi-qubit keys, asymmetric and symmetric constants (known candidate D6 when the bit reversal
    of c over the register width differs from c)."""
    n = int(rng.integers(3, 5))
    version = "2.0" if rng.random() < 0.5 else "3.0"
    steps = prep_layer(rng, n)
    w = int(rng.integers(2, 4))
    steps.append(gen_measure(rng, n, "a", width=min(w, n)))
    w = len(steps[-1]["wires"])
    for _ in range(int(rng.integers(1, 3))):
        c = int(rng.integers(0, 2 ** w + 1))
        steps.append({"t": "c", "conds": [("eq", "a", c)], "op": gen_cc_subop(rng, n), "style": 0})
    final_layer(rng, n, steps)
    keys = ["a", "fin"]

    def explain(prog, text):
        if prog is None:
            return None
        mapping = {"a": "m_a", "fin": "m_fin"}
        if any(v not in prog.cregs for v in mapping.values()):
            return None
        return reader_dist_by_key(prog, mapping, keys, const_map=bit_reverse_const)

    _dist_case(ctx, rng, case, steps, n, "control_multibit", version=version, known=[(K_D6, explain)])


_DECL_RE = re.compile(r"^(?:creg\s+(\w+)\[\d+\]|bit\[\d+\]\s+(\w+));\s*//\s*Measurement:\s*(.*?)\s*$", re.M)


def sec_control_badkey(ctx, rng, case):
    """Classical control on keys that are not valid QASM identifiers (known candidate D7 for sympy conditions; the
    KeyCondition form goes through the id map and must work)."""
    n = int(rng.integers(2, 5))
    version = "2.0" if rng.random() < 0.5 else "3.0"
    steps = prep_layer(rng, n)
    key = KEYS_INVALID[int(rng.integers(len(KEYS_INVALID)))]
    if key == "line\nbreak":
        key = "a b"
    w = 1 if (version == "2.0" or rng.random() < 0.6) else 2
    steps.append(gen_measure(rng, n, key, width=min(w, n)))
    w = len(steps[-1]["wires"])
    use_sympy = rng.random() < 0.6
    if use_sympy:
        c = int(rng.choice([0, 1])) if w == 1 else int(rng.choice([0, 3]))  # palindromic constants: D6 not involved
        conds = [("eq", key, c)]
    else:
        conds = [("key", key)]
    steps.append({"t": "c", "conds": conds, "op": gen_cc_subop(rng, n), "style": int(rng.integers(2))})
    final_layer(rng, n, steps)
    keys = [key, "fin"]

    def explain(prog, text):
        # classification only: put the declared register id where the raw key was printed, then read again
        ids = {}
        for m in _DECL_RE.finditer(text):
            ids[m.group(3)] = m.group(1) or m.group(2)
        if key not in ids:
            return None
        frag = "if (m_%s==" % key
        if frag not in text:
            return None
        p2 = R.parse(text.replace(frag, "if (%s==" % ids[key]), lenient_gates=True)
        mapping = {key: ids[key], "fin": "m_fin"}
        if any(v not in p2.cregs for v in mapping.values()):
            return None
        return reader_dist_by_key(p2, mapping, keys)

    _dist_case(ctx, rng, case, steps, n, "control_badkey", version=version, known=[(K_D7, explain)] if use_sympy else None)


def _propagate_if(text):
    """Classification only: give every statement of the block that follows an `if (...)` line the same prefix."""
    out, prefix = [], None
    for line in text.split("\n"):
        s = line.strip()
        if s.startswith("if ("):
            depth, j = 0, None
            for i, ch in enumerate(s):
                if ch == "(":
                    depth += 1
                elif ch == ")":
                    depth -= 1
                    if depth == 0:
                        j = i
                        break
            prefix = s[:j + 1] + " "
            out.append(line)
        elif prefix is not None and s and not s.startswith("//"):
            out.append(prefix + s)
        else:
            prefix = None
            out.append(line)
    return "\n".join(out)


def sec_control_subop(ctx, rng, case):
    """Classically controlled sub-operations whose QASM form is several statements, needs decomposition, or is empty."""
    import cirq

    n = int(rng.integers(3, 5))
    version = "2.0" if rng.random() < 0.6 else "3.0"
    kind = case % 3
    steps = prep_layer(rng, n)
    steps.append(gen_measure(rng, n, "a", width=1))
    cond = [("key", "a")] if rng.random() < 0.5 else [("eq", "a", int(rng.integers(2)))]
    keys = ["a", "fin"]
    if kind == 0:  # several statements: H**t (ry rx ry), CCZ (h ccx h), two-qubit identity (id id)
        pick = int(rng.integers(3))
        if pick == 0:
            e = float(rng.choice([0.5, -0.5, 0.25, 1 / 3, 1.5]))
            sub = _mk("HPow", (e, 0.0), [int(rng.integers(n))])
        elif pick == 1:
            sub = _mk("CCZPow", (1.0, 0.0), [int(w) for w in rng.choice(n, size=3, replace=False)])
        else:
            sub = _mk("Identity2x2", (), [int(w) for w in rng.choice(n, size=2, replace=False)])
        steps.append({"t": "c", "conds": cond, "op": sub, "style": 0})
        final_layer(rng, n, steps)

        def explain(prog, text):
            p2 = R.parse(_propagate_if(text), lenient_gates=True)
            mapping = {"a": "m_a", "fin": "m_fin"}
            if any(v not in p2.cregs for v in mapping.values()):
                return None
            return reader_dist_by_key(p2, mapping, keys)

        _dist_case(ctx, rng, case, steps, n, "control_subop", version=version, known=[(K_MULTI, explain)])
    elif kind == 1:  # no direct QASM form: must be decomposed (ClassicallyControlledOperation has a decomposition)
        pick = int(rng.integers(4))
        if pick == 0:
            sub = _mk("CZPow", (float(rng.choice([0.5, 0.25, -0.5])), 0.0), [int(w) for w in rng.choice(n, size=2, replace=False)])
        elif pick == 1:
            sub = _mk("SwapPow", (0.5, 0.0), [int(w) for w in rng.choice(n, size=2, replace=False)])
        elif pick == 2:
            sub = _mk("ISwapPow", (1.0, 0.0), [int(w) for w in rng.choice(n, size=2, replace=False)])
        else:
            sub = _mk("CCXPow", (0.5, 0.0), [int(w) for w in rng.choice(n, size=3, replace=False)])
        steps.append({"t": "c", "conds": cond, "op": sub, "style": 0})
        final_layer(rng, n, steps)
        try:
            _dist_case(ctx, rng, case, steps, n, "control_subop", version=version)
        except TypeError as e:
            if "cirq.qasm does not expect qubits or args" in str(e):
                _fail(ctx, "no-undocumented-exception", K_NODECOMP,
                      "to_qasm raised TypeError instead of decomposing a classically controlled operation without a direct "
                      "QASM form: %s" % e, program=[describe(s) for s in steps], version=version)
            else:
                raise
    else:  # empty QASM form (global phase): nothing may be emitted for it
        phase = float(rng.uniform(0.3, 2.8))
        gp = _mk("GlobalPhase", (phase,), [])
        nxt = gen_cc_subop(rng, n)
        while nxt["t"] != "g":
            nxt = gen_cc_subop(rng, n)
        tail = []
        final_layer(rng, n, tail)
        # known-wrong reading: nothing is printed for the phase, so its `if (...)` prefix captures the next statement
        faulty = list(steps) + [{"t": "c", "conds": cond, "op": nxt, "style": 0}] + tail
        steps = list(steps) + [{"t": "c", "conds": cond, "op": gp, "style": 0}, nxt] + tail
        _dist_case(ctx, rng, case, steps, n, "control_subop", version=version, strategy=cirq.InsertStrategy.NEW,
                   faulty_steps=[(K_EMPTY, faulty)])


def sec_reject(ctx, rng, case):
    """Constructs documented as not exportable must raise (expected rejections), never produce text."""
    import cirq
    import sympy

    q = cirq.LineQubit.range(3)
    kind = case % 9
    version, kw = "2.0", {}
    want = (ValueError,)
    pat = None
    if kind == 0:
        p = float(rng.uniform(0.05, 0.4))
        c = cirq.Circuit(cirq.H(q[0]), cirq.measure(q[0], key="a", confusion_map={(0,): np.array([[1 - p, p], [p, 1 - p]])}))
        pat, name = "Cannot output operation as QASM", "confusion-map"
    elif kind == 1:
        t = cirq.LineQid(0, dimension=3)
        c = cirq.Circuit(cirq.measure(t, key="a"))
        pat, name = "Cannot output operation as QASM", "qudit-measurement"
    elif kind == 2:
        c = cirq.Circuit(cirq.measure(q[0], key="a"), cirq.measure(q[1], key="b"), cirq.X(q[2]).with_classical_controls("a", "b"))
        pat, name = "does not support multiple conditions", "multiple-conditions-2.0"
    elif kind == 3:
        a = sympy.Symbol("a")
        expr = [a > 0, sympy.Ne(a, 1), a >= 1, sympy.Eq(a, sympy.Symbol("b"))][int(rng.integers(4))]
        ms = [cirq.measure(q[0], key="a"), cirq.measure(q[1], key="b")]
        c = cirq.Circuit(ms, cirq.X(q[2]).with_classical_controls(expr))
        if rng.random() < 0.5:
            kw["version"] = "3.0"
        pat, name = "QASM is defined only for SympyConditions of type key == constant", "non-eq-sympy"
    elif kind == 4:
        c = cirq.Circuit(cirq.measure(q[0], q[1], key="a"), cirq.X(q[2]).with_classical_controls("a"))
        pat, name = "QASM is defined only for single-bit classical conditions", "multibit-keycondition-2.0"
    elif kind == 5:
        c = cirq.Circuit(cirq.X(q[0]))
        kw["version"] = ["1.0", "2", "3", "4.0"][int(rng.integers(4))]
        pat, name = "output is not supported", "unsupported-version"
    elif kind == 6:
        ch = [cirq.depolarize(0.1), cirq.amplitude_damp(0.2), cirq.bit_flip(0.3), cirq.phase_damp(0.1)][int(rng.integers(4))]
        c = cirq.Circuit(cirq.H(q[0]), ch.on(q[0]))
        pat, name = "Cannot output operation as QASM", "noise-channel"
    elif kind == 7:
        c = cirq.Circuit(cirq.measure(q[0], q[1], key="a"),
                         cirq.X(q[2]).with_classical_controls(cirq.BitMaskKeyCondition("a", bitmask=int(rng.integers(1, 4)))))
        want, name = (ValueError, NotImplementedError), "bitmask-condition"
        if rng.random() < 0.5:
            kw["version"] = "3.0"
    else:
        t = cirq.LineQid(0, dimension=3)
        g = [cirq.XPowGate(dimension=3), cirq.ZPowGate(dimension=3, exponent=0.3), cirq.IdentityGate(qid_shape=(3,)),
             cirq.MatrixGate(L.haar_unitary(rng, 3), qid_shape=(3,))][int(rng.integers(4))]
        c = cirq.Circuit(g.on(t))
        name = "qudit-gate"
        try:
            c.to_qasm()
        except ValueError:
            ctx.reject("qudit-gate")
            ctx.ok("rejection-raises")
        else:
            # not promised by any docstring either way: recorded, not judged
            ctx.event("qudit-gate-exported-as-qubit-gate:" + type(g).__name__)
        ctx.distinct(("reject", name, repr(g)[:60]))
        return
    ctx.distinct(("reject", name, tuple(sorted(kw.items())), repr(c)[:80]))
    ctx.sample({"construct": name, "kwargs": kw})
    try:
        text = c.to_qasm(**kw)
    except want as e:
        if pat is None or pat in str(e):
            ctx.reject(name)
            ctx.ok("rejection-raises")
        else:
            _fail(ctx, "rejection-raises", "C19:rejection-message:" + name, "raised %s with an unexpected message: %s"
                  % (type(e).__name__, e), construct=name)
        return
    _fail(ctx, "rejection-raises", "C19:unexportable-construct-exported:" + name,
          "a construct documented as not exportable produced text", construct=name, text=text[:1200])


def sec_creg_widths(ctx, rng, case):
    """one key measured several times with different numbers of qubits (the exporter sizes the register by the widest):
    every written bit exists, the register has the widest width, and each statement writes qubit i of the instance to bit i"""
    import cirq

    n = int(rng.integers(2, 6))
    qs, default, qkind = make_qubits(rng, n)
    keys = ["a", "b", "m0"][: int(rng.integers(1, 4))]
    steps = []
    for key in keys:
        for _ in range(int(rng.integers(1, 4))):
            steps.append(gen_measure(rng, n, key, width=int(rng.integers(1, min(n, 4) + 1))))
    order_ = [int(i) for i in rng.permutation(len(steps))]
    steps = [steps[i] for i in order_]
    # a few gates in between (keeps measurements in separate moments as well as in shared ones)
    mixed = []
    for st in steps:
        if rng.random() < 0.5:
            mixed.append(gen_gate(rng, n, _S["small"], p_ctrl=0.0))
        mixed.append(st)
    ops = build_circuit(rng, mixed, qs)
    circuit = cirq.Circuit(ops, strategy=cirq.InsertStrategy.NEW if rng.random() < 0.5 else cirq.InsertStrategy.EARLIEST)
    used = set(w for st in mixed for w in st["wires"])
    qorder, order, okind = choose_order(rng, qs, default, used)
    version = "2.0" if rng.random() < 0.55 else "3.0"
    text, how = export(rng, circuit, qorder, 10, version)
    widths = {}
    for st in steps:
        widths[st["key"]] = max(widths.get(st["key"], 0), len(st["wires"]))
    wit = dict(program=[describe(st) for st in mixed], declared_order=order, version=version, entry_point=how)
    try:
        prog = R.parse(text)
    except R.QasmError as e:
        if e.kind == "undefined-gate" and e.name == "sxdg":
            ctx.reject("qasm3-sxdg")
            return
        _fail(ctx, "text-parses", "C19:parse-error:" + e.kind, "repeated key with different widths: %s" % e, text=text[:2500], **wit)
        return
    ctx.ok("text-parses")
    real_keys = sorted(widths)
    mapping = map_cregs(ctx, prog, real_keys, widths, dict(text=text[:2500], **wit))
    if mapping is None:
        return
    pos = {w: i for i, w in enumerate(order)}
    # per key: the measure statements in program order are the instances in circuit order, qubit i -> bit i
    in_circuit = {k: [] for k in real_keys}
    for op in circuit.all_operations():
        if cirq.is_measurement(op):
            in_circuit[cirq.measurement_key_name(op)].append([pos[qs.index(q)] for q in op.qubits])
    got = {k: [] for k in real_keys}
    rev = {c: k for k, c in mapping.items()}

    def walk(ops_):
        for o in ops_:
            if o[0] == "measure":
                got[rev[o[2]]].append((o[1], o[3]))
            elif o[0] == "if":
                walk(o[2])
    walk(prog.ops)
    for k in real_keys:
        want_pairs = [(w, i) for inst in in_circuit[k] for i, w in enumerate(inst)]
        if got[k] != want_pairs:
            _fail(ctx, "measure-statements", "C19:measure-statement-targets", "key %r: statements write (qubit, bit) %r, the circuit measures %r" % (k, got[k], want_pairs),
                  text=text[:2500], **wit)
            return
    ctx.ok("measure-statements")
    ctx.distinct(("creg-widths", version, tuple(order), tuple((st["key"], tuple(st["wires"])) for st in steps)), nontrivial=any(len({len(st["wires"]) for st in steps if st["key"] == k}) > 1 for k in real_keys))


SECTIONS = [
    ("unitary", sec_unitary, 7000, 120000, 4.0),
    ("mnemonic", sec_mnemonic, 7000, 80000, 3.0),
    ("measure", sec_measure, 7000, 60000, 1.5),
    ("control", sec_control, 7000, 60000, 1.5),
    ("control_multibit", sec_control_multibit, 1120, 8000, 0.5),
    ("control_badkey", sec_control_badkey, 1120, 8000, 0.5),
    ("control_subop", sec_control_subop, 600, 4000, 0.4),
    ("reject", sec_reject, 360, 2700, 0.2),
    ("creg_widths", sec_creg_widths, 1200, 10000, 0.6),
]
