"""C07 - hardware compilation: output is native, equivalent, routable and validated.

Monitors (all at the public API boundary):
  gatesets  cirq.optimize_for_target_gateset(circuit, gateset=G, ...) for every target gateset and option; the
            output is judged for nativity (two opinions: G itself and a membership table written here from the
            gateset docstrings), for equivalence (catalogue product of the abstract input program versus the
            op-by-op lowering of the output with cirq.unitary(op) + vf.refmodel.linalg.embed) and for the documented
            two-qubit-count rules.
  routing   cirq.RouteCQC(graph).route_circuit / __call__ on harness-built device graphs: edges, injective initial
            map, own permutation-matrix oracle for "equal up to the reported qubit permutation", inserted SWAPs.
  devices   accept / ValueError verdicts of GridDevice (from a DeviceSpecification built here), IonQAPIDevice,
            AQTDevice, PasqalDevice and PasqalVirtualDevice against the predicate known by construction.
The reference side never calls Circuit.unitary, cirq.testing, cirq.linalg or a simulator."""
from __future__ import annotations

import math
import traceback

import numpy as np

from vf.errors import Reject
from vf.refmodel import interp as I
from vf.refmodel import linalg as L
from vf.workloads import gatepool as GP
from vf.workloads import programs as P
from vf.workloads import unitaries as UW

PACKAGES = ["cirq_google", "cirq_ionq", "cirq_aqt", "cirq_pasqal"]
LEVEL = "exploration"
RULE = ("gatesets: 2-4 qubit programs (Haar-random 1/2/3-qubit MatrixGates, catalogue gates, KAK-special two-qubit "
        "unitaries - identity, local, CNOT/iSWAP/SWAP classes, Weyl vertices/edges/faces -, already-native circuits, "
        "mixes with no-compile-tagged operations, measurements and CircuitOperations) crossed with every target gateset "
        "configuration; non-trivial when the input is not already accepted by the gateset or the output differs from "
        "the input, distinct by (configuration, program text). routing: 1/2-qubit programs on lines, rings, grids, stars "
        "and random connected graphs with 3-8 nodes, LineInitialMapper or a random injective hard-coded map, "
        "lookahead 1..8; non-trivial when at least one swap was inserted or a two-qubit operation was relabelled. "
        "devices: (device specification, operation) pairs; non-trivial when the expected verdict is a rejection or the "
        "operation has >= 2 qubits")
ASSUMPTIONS = [
    "cirq.unitary(op) of every single output operation is correct (policed by C03/C04); products are formed with numpy",
    "equivalence tolerance 1e-6 up to global phase (1e-5 for the IonQ native gatesets, 1e-5 for the 3-qubit matrix synthesis path)",
    "operations tagged with a tag listed in TransformerContext.tags_to_ignore are the no-compile operations of the property",
    "the membership tables in this file transcribe the gateset docstrings (gate type + parameter predicate)",
    "routing inputs contain only 1- and 2-qubit operations and the hard-coded initial maps place the logical qubits on a "
    "connected set of device nodes (the two constraints AbstractInitialMapper documents)",
]
MIN_EVAL = {"native:gateset-opinion": 2000, "native:table-opinion": 2000, "equivalent": 400, "keep-old-if-not-worse": 60,
            "two-qubit-count-bound": 60, "route:on-edge": 300, "route:equivalent-up-to-permutation": 100,
            "device-verdict": 500}
_T = "cirq/transformers/"
MUST_REACH = [
    _T + "optimize_for_target_gateset.py:optimize_for_target_gateset",
    _T + "target_gatesets/compilation_target_gateset.py:create_transformer_with_kwargs",
    _T + "target_gatesets/compilation_target_gateset.py:TwoQubitCompilationTargetGateset.decompose_to_target_gateset",
    _T + "target_gatesets/cz_gateset.py:CZTargetGateset._decompose_two_qubit_operation",
    _T + "target_gatesets/sqrt_iswap_gateset.py:SqrtIswapTargetGateset._decompose_two_qubit_operation",
    "cirq/ops/gateset.py:Gateset._validate_operation", "cirq/ops/gateset.py:GateFamily._predicate",
    _T + "routing/route_circuit_cqc.py:RouteCQC._get_one_and_two_qubit_ops_as_timesteps",
    _T + "routing/route_circuit_cqc.py:RouteCQC._route", _T + "routing/route_circuit_cqc.py:RouteCQC._brute_force_strategy",
    _T + "routing/mapping_manager.py:MappingManager.apply_swap", _T + "routing/mapping_manager.py:MappingManager.mapped_op",
    _T + "routing/mapping_manager.py:MappingManager.shortest_path",
    _T + "routing/line_initial_mapper.py:LineInitialMapper.initial_mapping",
    "cirq_google/devices/grid_device.py:GridDevice._validate_operations",
    "cirq_google/transformers/target_gatesets/sycamore_gateset.py:SycamoreTargetGateset._decompose_two_qubit_operation",
    "cirq_ionq/ionq_gateset.py:IonQTargetGateset._decompose_two_qubit_operation",
    "cirq_ionq/ionq_native_target_gateset.py:IonqNativeGatesetBase._decompose_two_qubit_operation",
    "cirq_aqt/aqt_target_gateset.py:AQTTargetGateset._decompose_two_qubit_operation",
    "cirq_pasqal/pasqal_gateset.py:PasqalGateset.decompose_to_target_gateset",
]

TOL = 1e-6
NOCOMPILE = "vf-no-compile"
ROUTE_KNOWN = "C07:routecqc-indexerror-empty-swap-pair-candidates"
_S = {}


# =========================================================================== abstract programs
def _specs():
    if "specs" not in _S:
        _S["specs"] = {s.name: s for s in GP.build_specs() + GP.build_vendor_specs()}
    return _S["specs"]


def _U(spec, p, w, tag=False):
    st = {"t": "U", "spec": spec, "p": tuple(p), "w": tuple(int(x) for x in w)}
    if tag:
        st["tag"] = True
    return st


def _flat(items):
    """Unitary steps in execution order (blocks unrolled, measurements dropped)."""
    out = []
    for it in items:
        if it["t"] == "B":
            for _ in range(it["reps"]):
                out.extend(_flat(it["body"]))
        elif it["t"] == "U":
            out.append(it)
    return out


def _ref_unitary(items, n):
    """INPUT meaning: product of catalogue matrices (no Cirq)."""
    sp = _specs()
    return I.unitary_of([I.U(sp[s["spec"]].ref(s["p"]), s["w"]) for s in _flat(items)], (2,) * n)


def _item_op(it, qubits):
    import cirq

    if it["t"] == "U":
        op = _specs()[it["spec"]].make(it["p"]).on(*[qubits[w] for w in it["w"]])
        return op.with_tags(NOCOMPILE) if it.get("tag") else op
    if it["t"] == "M":
        return cirq.measure(*[qubits[w] for w in it["w"]], key=it["key"])
    if it["t"] == "B":
        body = cirq.FrozenCircuit(_moments(it["body"], qubits))
        op = cirq.CircuitOperation(body)
        if it["reps"] != 1:
            op = op.repeat(it["reps"])
        return op
    raise ValueError(it["t"])


def _item_wires(it):
    if it["t"] == "B":
        s = set()
        for x in it["body"]:
            s |= _item_wires(x)
        return s
    return set(it["w"])


def _moments(items, qubits):
    """Greedy explicit moment construction by the harness."""
    import cirq

    moments, cur, used = [], [], set()
    for it in items:
        w = _item_wires(it)
        if (w & used or not w) and cur:
            moments.append(cirq.Moment(cur))
            cur, used = [], set()
        cur.append(_item_op(it, qubits))
        used |= w
    if cur:
        moments.append(cirq.Moment(cur))
    return moments


def _describe(items):
    out = []
    for it in items:
        if it["t"] == "B":
            out.append("BLOCKx%d{%s}" % (it["reps"], "; ".join(_describe(it["body"]))))
        elif it["t"] == "M":
            out.append("M[%s]@%s" % (it["key"], list(it["w"])))
        else:
            d = P.describe([{"t": "U", "spec": it["spec"], "p": it["p"], "w": it["w"]}])[0]
            if any(isinstance(x, np.ndarray) for x in it["p"]):
                d += "#%.6f" % float(np.abs(np.asarray(it["p"][0])).sum() + np.angle(np.asarray(it["p"][0]).ravel()[0]))
            out.append(d + ("!nocompile" if it.get("tag") else ""))
    return out


def _wires(rng, n, k):
    return tuple(int(x) for x in rng.choice(n, size=k, replace=False))


def _haar_step(rng, n, k):
    name = {1: "Matrix2", 2: "Matrix2x2", 3: "Matrix2x2x2"}[k]
    return _U(name, (L.haar_unitary(rng, 2 ** k),), _wires(rng, n, k))


_KAK_KINDS = [0, 1, 2, 3, 4, 5, 8]


def _kak_step(rng, n):
    """Two-qubit MatrixGate sitting exactly on a special point of the Weyl chamber (never atol-close to one)."""
    kind = _KAK_KINDS[int(rng.integers(len(_KAK_KINDS)))]
    u, info = UW.gen_two_qubit(rng, kind + 10 * int(rng.integers(0, 40)))
    return _U("Matrix2x2", (np.asarray(u, dtype=complex),), _wires(rng, n, 2)), info["label"]


_CAT_EXCLUDE = {"GlobalPhase"}


def _cat_pred(cfg):
    def pred(s):
        if "qudit" in s.tags:
            return False
        if s.name == "GlobalPhase":
            return cfg["phase_ok"]
        if s.name.startswith("Identity") and not cfg.get("identity_ok", True):
            return False
        return True
    return pred


def _cat_step(rng, n, cfg, arity_w=(0.03, 0.42, 0.40, 0.15)):
    st = P.gen_unitary_step(rng, (2,) * n, _cat_pred(cfg), arity_w=arity_w)
    return _U(st["spec"], st["p"], st["w"])


# =========================================================================== gateset configurations + membership tables
def _near(x, v, period, tol=1e-6):
    d = (float(x) - v) % period
    return min(d, period - d) < tol


def _integer(x, tol=1e-9):
    return abs(float(x) - round(float(x))) < tol


def _tables():
    """Independent membership predicates gate -> bool, one per gateset docstring (gate type + parameter predicate)."""
    import cirq
    import cirq_google
    import cirq_ionq

    meas = lambda g: isinstance(g, cirq.MeasurementGate)  # noqa: E731
    phase = lambda g: isinstance(g, cirq.GlobalPhaseGate)  # noqa: E731
    phxz = lambda g: isinstance(g, cirq.PhasedXZGate)  # noqa: E731
    cz1 = lambda g: isinstance(g, cirq.CZPowGate) and _near(g.exponent, 1, 2)  # noqa: E731
    czany = lambda g: isinstance(g, cirq.CZPowGate)  # noqa: E731

    def any_of(*fs):
        return lambda g: any(f(g) for f in fs)

    xyz = lambda g: isinstance(g, (cirq.XPowGate, cirq.YPowGate, cirq.ZPowGate))  # noqa: E731
    h1 = lambda g: isinstance(g, cirq.HPowGate) and _near(g.exponent, 1, 2)  # noqa: E731

    def pasqal_1q(g):
        if isinstance(g, cirq.ParallelGate):
            g = g.sub_gate
        return h1(g) or isinstance(g, (cirq.PhasedXPowGate, cirq.XPowGate, cirq.YPowGate, cirq.ZPowGate))

    def int_pow(cls):
        return lambda g: isinstance(g, cls) and _integer(g.exponent)

    return {
        "cz": any_of(cz1, phxz, meas, phase),
        "czpow": any_of(czany, phxz, meas, phase),
        "sqrt_iswap": any_of(lambda g: isinstance(g, cirq.ISwapPowGate) and _near(g.exponent, 0.5, 4), phxz, meas, phase),
        "sqrt_iswap_inv": any_of(lambda g: isinstance(g, cirq.ISwapPowGate) and _near(g.exponent, -0.5, 4), phxz, meas, phase),
        "sycamore": any_of(lambda g: isinstance(g, cirq.FSimGate) and _near(g.theta, math.pi / 2, 2 * math.pi)
                           and _near(g.phi, math.pi / 6, 2 * math.pi), phxz, meas, phase, xyz,
                           lambda g: isinstance(g, cirq.PhasedXPowGate)),
        "ionq": any_of(h1, lambda g: isinstance(g, cirq.CXPowGate) and _near(g.exponent, 1, 2),
                       lambda g: isinstance(g, cirq.SwapPowGate) and _near(g.exponent, 1, 2), xyz,
                       lambda g: isinstance(g, (cirq.XXPowGate, cirq.YYPowGate, cirq.ZZPowGate)), meas, phase),
        "aria": any_of(lambda g: isinstance(g, (cirq_ionq.GPIGate, cirq_ionq.GPI2Gate, cirq_ionq.MSGate)), meas),
        "forte": any_of(lambda g: isinstance(g, (cirq_ionq.GPIGate, cirq_ionq.GPI2Gate, cirq_ionq.ZZGate)), meas),
        "aqt": any_of(lambda g: isinstance(g, (cirq.XXPowGate, cirq.ZPowGate, cirq.PhasedXPowGate)), meas),
        "pasqal": any_of(pasqal_1q, int_pow(cirq.CZPowGate), lambda g: isinstance(g, cirq.IdentityGate), meas,
                         int_pow(cirq.CXPowGate), int_pow(cirq.CCXPowGate), int_pow(cirq.CCZPowGate)),
        "pasqal_basic": any_of(pasqal_1q, int_pow(cirq.CZPowGate), lambda g: isinstance(g, cirq.IdentityGate), meas),
        "_syc_gate": cirq_google.SYC,
    }


# additional_gates choices: (label, cirq-side list builder, harness-side predicate, native 2q specs they add, native 1q specs)
def _additional(rng, which=None):
    import cirq

    opts = [
        ("SWAP", lambda: [cirq.SWAP], lambda g: isinstance(g, cirq.SwapPowGate) and _near(g.exponent, 1, 2),
         [("SwapPow", (1.0, 0.0))], []),
        ("ISWAP+XPow", lambda: [cirq.ISWAP, cirq.XPowGate],
         lambda g: (isinstance(g, cirq.ISwapPowGate) and _near(g.exponent, 1, 4)) or isinstance(g, cirq.XPowGate),
         [("ISwapPow", (1.0, 0.0))], ["XPow"]),
        ("CXPow", lambda: [cirq.CXPowGate], lambda g: isinstance(g, cirq.CXPowGate), [("CXPow", None)], []),
        ("ZZPow+family(YPow)", lambda: [cirq.ZZPowGate, cirq.GateFamily(cirq.YPowGate)],
         lambda g: isinstance(g, (cirq.ZZPowGate, cirq.YPowGate)), [("ZZPow", None)], ["YPow"]),
        ("FSim+CCZ", lambda: [cirq.FSimGate, cirq.CCZ], lambda g: isinstance(g, cirq.FSimGate)
         or (isinstance(g, cirq.CCZPowGate) and _near(g.exponent, 1, 2)), [("FSim", None)], []),
    ]
    return opts[int(rng.integers(len(opts))) if which is None else which]


_PAULI_FAMILIES = ("XPow", "YPow", "ZPow", "PhasedXPow")


def _configs():
    """(name, builder(rng) -> cfg).  cfg: gateset object G, harness table, tolerance and the documented traits."""
    import cirq
    import cirq_google
    import cirq_ionq
    from cirq_aqt.aqt_target_gateset import AQTTargetGateset
    import cirq_pasqal

    T = _S["tables"]

    def base(label, G, table, **kw):
        cfg = dict(label=label, cls=type(G).__name__, G=G, table=table, tol=TOL, phase_ok=True, unroll=True, twoq_family=True,
                   merges=True, bound=None, required=None, native1=["PhasedXZ"], native2=[], native3=[], extra=None,
                   meas_ok=True, deep_ok=True, kwargs={})
        cfg.update(kw)
        return cfg

    def with_extra(cfg, extra):
        if extra is None:
            return cfg
        label, _, pred, n2, n1 = extra
        t0 = cfg["table"]
        cfg["table"] = lambda g: t0(g) or pred(g)
        cfg["native2"] = cfg["native2"] + n2
        cfg["native1"] = cfg["native1"] + n1
        cfg["label"] += "+additional(" + label + ")"
        cfg["extra"] = label
        return cfg

    def cz(rng, partial=False, atol=1e-8, extra=None, **opts):
        add = extra[1]() if extra else ()
        G = cirq.CZTargetGateset(atol=atol, allow_partial_czs=partial, additional_gates=add, **opts)
        lab = "CZ(partial=%s,atol=%g%s)" % (partial, atol, "".join(",%s=%s" % kv for kv in sorted(opts.items())))
        cfg = base(lab, G, T["czpow" if partial else "cz"], bound=3, native2=[("CZPow", None if partial else (1.0, 0.0))])
        return with_extra(cfg, extra)

    def sqi(rng, inv=False, required=None, extra=None, atol=1e-8):
        add = extra[1]() if extra else ()
        G = cirq.SqrtIswapTargetGateset(atol=atol, required_sqrt_iswap_count=required, use_sqrt_iswap_inv=inv,
                                        additional_gates=add)
        cfg = base("SqrtIswap(inv=%s,required=%s,atol=%g)" % (inv, required, atol), G,
                   T["sqrt_iswap_inv" if inv else "sqrt_iswap"], bound=3, required=required,
                   native2=[("ISwapPow", (-0.5 if inv else 0.5, 0.0))])
        return with_extra(cfg, extra)

    def gcz(rng, eject=False, extra=None, atol=1e-8):
        if eject:  # the property: eject_paulis only together with the Pauli gate families as additional accepted gates
            add = [cirq.XPowGate, cirq.YPowGate, cirq.ZPowGate, cirq.PhasedXPowGate]
            G = cirq_google.GoogleCZTargetGateset(atol=atol, eject_paulis=True, additional_gates=add)
            t0 = T["cz"]
            cfg = base("GoogleCZ(eject_paulis=True,additional=Pauli families)", G,
                       lambda g: t0(g) or isinstance(g, (cirq.XPowGate, cirq.YPowGate, cirq.ZPowGate, cirq.PhasedXPowGate)),
                       bound=3, native2=[("CZPow", (1.0, 0.0))], native1=["PhasedXZ"] + list(_PAULI_FAMILIES), meas_ok=False,
                       deep_ok=False)
            cfg["extra"] = "paulis"
            return cfg
        add = extra[1]() if extra else ()
        G = cirq_google.GoogleCZTargetGateset(atol=atol, additional_gates=add)
        cfg = base("GoogleCZ(atol=%g)" % atol, G, T["cz"], bound=3, native2=[("CZPow", (1.0, 0.0))])
        return with_extra(cfg, extra)

    def syc(rng):
        G = cirq_google.SycamoreTargetGateset()
        return base("Sycamore(analytic)", G, T["sycamore"], native2=[("SYC", ())],
                    native1=["PhasedXZ", "PhasedXPow", "XPow", "YPow", "ZPow", "rz"])

    def ionq(rng):
        G = cirq_ionq.IonQTargetGateset()
        return base("IonQTarget", G, T["ionq"], unroll=False, merges=False, deep_ok=False,
                    native1=["XPow", "YPow", "ZPow", "rx", "H1"],
                    native2=[("CXPow", (1.0, 0.0)), ("SwapPow", (1.0, 0.0)), ("XXPow", None), ("YYPow", None), ("ZZPow", None),
                             ("ms", None)])

    def aria(rng):
        G = cirq_ionq.AriaNativeGateset()
        return base("AriaNative", G, T["aria"], tol=1e-5, phase_ok=False, unroll=False, merges=False, deep_ok=False,
                    native1=["GPI", "GPI2"], native2=[("IonQ_MS", None)])

    def forte(rng):
        G = cirq_ionq.ForteNativeGateset()
        return base("ForteNative", G, T["forte"], tol=1e-5, phase_ok=False, unroll=False, merges=False, deep_ok=False,
                    native1=["GPI", "GPI2"], native2=[("IonQ_ZZ", None)])

    def aqt(rng):
        G = AQTTargetGateset()
        return base("AQT", G, T["aqt"], phase_ok=False, unroll=False, deep_ok=False, native1=["ZPow", "PhasedXPow", "rz"],
                    native2=[("XXPow", None), ("ms", None)])

    def pasqal(rng, inc=True):
        G = cirq_pasqal.PasqalGateset(include_additional_controlled_ops=inc)
        return base("Pasqal(additional_controlled=%s)" % inc, G, T["pasqal" if inc else "pasqal_basic"], phase_ok=False,
                    unroll=False, twoq_family=False, merges=False, deep_ok=False,
                    native1=["H1", "PhasedXPow", "XPow", "YPow", "ZPow", "Identity2"],
                    native2=[("CZPow", (1.0, 0.0)), ("CZPow", (3.0, 0.5))] + ([("CXPow", (1.0, 0.0))] if inc else []),
                    native3=[("CCXPow", (1.0, 0.0)), ("CCZPow", (1.0, 0.0))] if inc else [])

    return [
        ("cz", lambda r: cz(r)),
        ("cz-partial", lambda r: cz(r, partial=True)),
        ("cz-atol", lambda r: cz(r, atol=float(r.choice([1e-10, 1e-9, 1e-7])), partial=bool(r.integers(2)))),
        ("cz-additional", lambda r: cz(r, partial=bool(r.integers(2)), extra=_additional(r))),
        ("cz-no-moment-structure", lambda r: cz(r, preserve_moment_structure=False)),
        ("cz-reorder", lambda r: cz(r, partial=bool(r.integers(2)), preserve_moment_structure=False, reorder_operations=True)),
        ("sqrt-iswap", lambda r: sqi(r)),
        ("sqrt-iswap-inv", lambda r: sqi(r, inv=True)),
        ("sqrt-iswap-required", lambda r: sqi(r, inv=bool(r.integers(2)), required=int(r.choice([3, 3, 2, 1, 0])))),
        ("sqrt-iswap-additional", lambda r: sqi(r, inv=bool(r.integers(2)), extra=_additional(r))),
        ("sycamore", syc),
        ("google-cz", lambda r: gcz(r)),
        ("google-cz-additional", lambda r: gcz(r, extra=_additional(r))),
        ("google-cz-eject", lambda r: gcz(r, eject=True)),
        ("ionq", ionq),
        ("aria", aria),
        ("forte", forte),
        ("aqt", aqt),
        ("pasqal", lambda r: pasqal(r, True)),
        ("pasqal-basic", lambda r: pasqal(r, False)),
    ]


def setup(ctx):
    import cirq

    sp = _specs()
    # a fixed-exponent Hadamard for the instance families (H) of the IonQ / Pasqal gatesets
    sp["H1"] = GP.Spec("H1", (2,), lambda rng: (), lambda p: cirq.H, lambda p: sp["HPow"].ref((1.0, 0.0)), tags=("1q",))
    _S["tables"] = _tables()
    _S["configs"] = _configs()
    _setup_route()
    _setup_devices()


# =========================================================================== section 1: target gatesets
def _native_step(rng, n, cfg):
    sp = _specs()
    r = rng.random()
    if cfg["native3"] and n >= 3 and r < 0.15:
        name, p = cfg["native3"][int(rng.integers(len(cfg["native3"])))]
        return _U(name, p, _wires(rng, n, 3))
    if r < 0.5 and cfg["native2"]:
        name, p = cfg["native2"][int(rng.integers(len(cfg["native2"])))]
        return _U(name, sp[name].sample(rng) if p is None else p, _wires(rng, n, 2))
    name = cfg["native1"][int(rng.integers(len(cfg["native1"])))]
    return _U(name, sp[name].sample(rng), _wires(rng, n, 1))


def _gen_input(rng, cfg, kind):
    """Returns (n, items, label)."""
    n = int(rng.integers(2, 5))
    items = []
    label = kind
    if kind == "haar":
        for _ in range(int(rng.integers(1, 6))):
            k = int(rng.choice([1, 2, 2, 2, 3]))
            items.append(_haar_step(rng, n, min(k, n)))
    elif kind == "single-2q":  # one two-qubit unitary block: the documented count bounds apply to exactly this
        n = 2
        r = rng.random()
        if r < 0.4:
            st, label = _kak_step(rng, n)
            label = "single-2q:" + label
            items.append(st)
        elif r < 0.6:
            items.append(_haar_step(rng, n, 2))
        else:
            items.append(_cat_step(rng, n, cfg, arity_w=(0, 0, 1, 0)))
    elif kind == "kak":
        for _ in range(int(rng.integers(1, 4))):
            st, lab = _kak_step(rng, n)
            items.append(st)
            label = "kak:" + lab
            if rng.random() < 0.5:
                items.append(_haar_step(rng, n, 1))
    elif kind == "catalogue":
        for _ in range(int(rng.integers(2, 9))):
            items.append(_cat_step(rng, n, cfg))
    elif kind == "two-qubit-circuit":
        n = 2
        for _ in range(int(rng.integers(2, 8))):
            items.append(_cat_step(rng, n, cfg, arity_w=(0, 0.5, 0.5, 0)) if rng.random() < 0.7 else _haar_step(rng, n, int(rng.integers(1, 3))))
    elif kind == "native":
        if rng.random() < 0.4:
            n = 2
        for _ in range(int(rng.integers(2, 10))):
            items.append(_native_step(rng, n, cfg))
    elif kind == "mixed":
        nm = 0
        for i in range(int(rng.integers(3, 9))):
            r = rng.random()
            if r < 0.2:
                st = _cat_step(rng, n, cfg, arity_w=(0, 0.5, 0.5, 0))
                st["tag"] = True
                items.append(st)
            elif r < 0.35 and cfg["meas_ok"]:
                items.append({"t": "M", "key": "m%d" % nm, "w": _wires(rng, n, int(rng.integers(1, min(n, 2) + 1)))})
                nm += 1
            elif r < 0.55:
                body = [(_cat_step(rng, n, cfg, arity_w=(0, 0.45, 0.45, 0.1)) if rng.random() < 0.7 else _native_step(rng, n, cfg))
                        for _ in range(int(rng.integers(1, 4)))]
                items.append({"t": "B", "body": body, "reps": int(rng.choice([1, 1, 2, 3]))})
            elif r < 0.75:
                items.append(_native_step(rng, n, cfg))
            else:
                items.append(_cat_step(rng, n, cfg))
    else:
        raise ValueError(kind)
    return n, items, label


_KINDS = ["haar", "single-2q", "kak", "catalogue", "two-qubit-circuit", "native", "native", "mixed", "mixed"]

_EXPECTED_REJECTIONS = (
    # (exception type, message fragment, rejection label)
    (ValueError, "Unable to convert", "compile:unable-to-convert"),
    (ValueError, "sqrt-iSWAP", "compile:required-sqrt-iswap-count-too-low"),
    (ValueError, "sqrt_iswap", "compile:required-sqrt-iswap-count-too-low"),
)


def _is_native(op, cfg, opinion):
    """opinion 'G': the gateset's own answer; 'T': the harness table (CircuitOperations unrolled where documented)."""
    import cirq

    if opinion == "G":
        return op in cfg["G"]
    u = op.untagged
    if isinstance(u, cirq.CircuitOperation):
        if not cfg["unroll"]:
            return False
        return all(_is_native(o, cfg, "T") for o in u.circuit.all_operations())
    g = u.gate
    return g is not None and bool(cfg["table"](g))


def _lower(circuit, qubits, what):
    """OUTPUT meaning: product over operations of cirq.unitary(op) embedded on the input's qubit list."""
    import cirq

    idx = {q: i for i, q in enumerate(qubits)}
    n = len(qubits)
    acc = np.eye(2 ** n, dtype=complex)
    for op in circuit.all_operations():
        if cirq.is_measurement(op):
            raise Reject("lowering a circuit with measurements")
        u = cirq.unitary(op, None)
        if u is None:
            return None, "operation without a unitary in the %s: %r" % (what, op)
        for q in op.qubits:
            if q not in idx:
                return None, "operation on a qubit that is not in the input: %r" % (op,)
        acc = L.embed(u, [idx[q] for q in op.qubits], (2,) * n) @ acc
    return acc, None


def _two_qubit_count(circuit):
    import cirq

    c = 0
    for op in circuit.all_operations():
        u = op.untagged
        if isinstance(u, cirq.CircuitOperation):
            c += _two_qubit_count(u.circuit) * max(1, abs(int(u.repetitions)))
        elif len(op.qubits) == 2 and not cirq.is_measurement(op):
            c += 1
    return c


def _meas_signature(circuit):
    import cirq

    return sorted((cirq.measurement_key_name(op), tuple(repr(q) for q in op.qubits), tuple(op.gate.invert_mask))
                  for op in circuit.all_operations() if isinstance(op.gate, cirq.MeasurementGate))


def sec_gatesets(ctx, rng, case):
    import cirq

    confs = _S["configs"]
    cname, build = confs[case % len(confs)]
    if cname == "sycamore" and ctx.tier == "thorough" and rng.random() < 0.25:
        cfg = _sycamore_tabulation_cfg()
    else:
        cfg = build(rng)
    kind = _KINDS[int(rng.integers(len(_KINDS)))]
    n, items, label = _gen_input(rng, cfg, kind)
    G = cfg["G"]
    qubits = P.make_qubits(rng, (2,) * n)
    if rng.random() < 0.3:
        qubits = [qubits[i] for i in rng.permutation(n)]  # wire order independent of cirq's qubit order
    circuit = cirq.Circuit(_moments(items, qubits))
    before = repr(circuit) if len(items) < 6 else None
    has_meas = any(it["t"] == "M" for it in items)
    has_tag = any(it.get("tag") for it in items)
    has_block = any(it["t"] == "B" for it in items)
    deep = bool(has_block and cfg["deep_ok"] and rng.random() < 0.5)
    kw = {}
    if has_tag or deep:
        kw["context"] = cirq.TransformerContext(tags_to_ignore=(NOCOMPILE,) if has_tag else (), deep=deep)
    strict = bool(rng.random() < 0.5)  # ignore_failures=False: failures must surface as ValueError, never as a wrong circuit
    passes = None if rng.random() < 0.1 else 1
    if passes is None:
        kw["max_num_passes"] = None
    wit = dict(gateset=cfg["label"], program=_describe(items), qubits=[repr(q) for q in qubits], kind=label, deep=deep,
               ignore_failures=not strict, max_num_passes=passes)
    mk = cfg["cls"]
    try:
        out = cirq.optimize_for_target_gateset(circuit, gateset=G, ignore_failures=not strict, **kw)
    except ValueError as e:
        msg = str(e)
        if cfg["required"] is not None and cfg["required"] < 3 and "sqrt" in msg.lower():
            ctx.reject("compile:required-sqrt-iswap-count-too-low")
            return
        raise
    ctx.event("compile:" + cname)
    if before is not None:
        ctx.check(repr(circuit) == before, "input-not-mutated", "C07:input-mutated:" + mk, "the transformer changed its input", **wit)

    # ---- (a) nativity, two opinions; no-compile operations must be passed through untouched
    out_ops = list(out.all_operations())
    tagged_in = [op for op in circuit.all_operations() if NOCOMPILE in op.tags]
    tagged_out = [op for op in out_ops if NOCOMPILE in op.tags]
    if has_tag:
        same = len(tagged_in) == len(tagged_out) and all(any(a is b or a == b for b in tagged_out) for a in tagged_in)
        ctx.check(same, "no-compile-untouched", "C07:no-compile-op-changed:" + mk,
                  "operations carrying a tag from tags_to_ignore were not passed through unchanged",
                  tagged_in=[repr(o) for o in tagged_in], tagged_out=[repr(o) for o in tagged_out], **wit)
    rest = [op for op in out_ops if NOCOMPILE not in op.tags]
    bad_g = [op for op in rest if not _is_native(op, cfg, "G")]
    bad_t = [op for op in rest if not _is_native(op, cfg, "T")]
    ctx.ok("native:gateset-opinion", max(len(rest) - 1, 0))
    ctx.check(not bad_g, "native:gateset-opinion", "C07:non-native-output:" + mk,
              lambda: "output operation(s) not accepted by the target gateset: %s" % [repr(o) for o in bad_g[:3]], **wit)
    ctx.ok("native:table-opinion", max(len(rest) - 1, 0))
    only_t = [op for op in bad_t if not any(op is o for o in bad_g)]
    ctx.check(not only_t, "native:table-opinion", "C07:gateset-accepts-what-its-docstring-excludes:" + mk,
              lambda: "the gateset accepts output operation(s) outside its documented gate families: %s" % [repr(o) for o in only_t[:3]],
              **wit)
    val = G.validate(cirq.Circuit(rest))
    ctx.check(val == (not bad_g), "validate==all(op in G)", "C07:validate-disagrees-with-contains:" + mk,
              "G.validate(output)=%s but per-operation containment says %s" % (val, not bad_g), **wit)

    # ---- measurements survive
    if has_meas:
        ctx.check(_meas_signature(out) == _meas_signature(circuit), "measurements-survive", "C07:measurement-lost-or-changed:" + mk,
                  lambda: "measurements in %s, out %s" % (_meas_signature(circuit), _meas_signature(out)), **wit)

    # ---- (b) equivalence on unitary-only circuits
    in_native = all(_is_native(op, cfg, "T") for op in circuit.all_operations() if NOCOMPILE not in op.tags)
    changed = [repr(o) for o in out_ops] != [repr(o) for o in circuit.all_operations()]
    if not has_meas:
        want = _ref_unitary(items, n)
        got, why = _lower(out, qubits, "output")
        if got is None:
            ctx.check(False, "equivalent", "C07:output-not-lowerable:" + mk, why, **wit)
        else:
            tol = cfg["tol"]
            if any(s["spec"] == "Matrix2x2x2" for s in _flat(items)):
                tol = max(tol, 1e-5)
            d = L.phase_diff(got, want)
            ctx.check(d <= tol, "equivalent", "C07:not-equivalent:" + mk,
                      lambda: "output unitary differs from the input program by %.3g (up to global phase, tol %g)" % (d, tol),
                      diff=d, output=[repr(o)[:160] for o in out_ops[:40]], **wit)
            if d > tol / 10:
                ctx.event("equivalence-error>tol/10")

    # ---- (c) documented two-qubit-count rules
    plain = not has_meas and not has_tag and not has_block
    flat = _flat(items)
    if plain and all(len(s["w"]) <= 2 for s in flat):
        n2_in = sum(1 for s in flat if len(s["w"]) == 2)
        n2_out = _two_qubit_count(out)
        if cfg["twoq_family"] and in_native:
            ctx.check(n2_out <= n2_in, "keep-old-if-not-worse", "C07:more-two-qubit-ops-than-native-input:" + mk,
                      "already-native input with %d two-qubit operations compiled to %d" % (n2_in, n2_out), **wit)
        if cfg["bound"] is not None and n == 2 and n2_in >= 1 and not in_native:
            any_foreign_2q = any(len(s["w"]) == 2 and not cfg["table"](_specs()[s["spec"]].make(s["p"])) for s in flat)
            if cfg["extra"] is None or any_foreign_2q:
                lim = cfg["bound"]
                ctx.check(n2_out <= lim, "two-qubit-count-bound", "C07:two-qubit-count-above-documented-bound:" + mk,
                          "one 2-qubit unitary block compiled to %d two-qubit operations (documented <= %d)" % (n2_out, lim), **wit)
            if cfg["required"] is not None and any_foreign_2q:
                ctx.check(n2_out == cfg["required"], "required-sqrt-iswap-count", "C07:required-sqrt-iswap-count-not-honoured",
                          "required_sqrt_iswap_count=%d but the block has %d" % (cfg["required"], n2_out), **wit)
    ctx.distinct((cfg["label"], tuple(_describe(items)), deep, strict), nontrivial=(not in_native) or changed)
    ctx.sample({"gateset": cfg["label"], "kind": label, "program": _describe(items)[:6], "output_ops": len(out_ops)})


def _sycamore_tabulation_cfg():
    import cirq
    import cirq_google

    if "syc_tab" not in _S:
        tab = cirq.two_qubit_gate_product_tabulation(cirq.unitary(cirq_google.SYC), 0.05, sample_scaling=6,
                                                     random_state=np.random.RandomState(11))
        _S["syc_tab"] = tab
    G = cirq_google.SycamoreTargetGateset(tabulation=_S["syc_tab"])
    cfg = dict(label="Sycamore(tabulation)", cls="SycamoreTargetGateset", G=G, table=_S["tables"]["sycamore"], tol=0.5, phase_ok=True,
               unroll=True, twoq_family=True, merges=True, bound=None, required=None,
               native1=["PhasedXZ", "PhasedXPow", "XPow", "YPow", "ZPow"], native2=[("SYC", ())], native3=[], extra=None,
               meas_ok=True, deep_ok=True, kwargs={})
    return cfg


def _setup_route():
    pass


def _setup_devices():
    pass


SECTIONS = [
    ("gatesets", sec_gatesets, 3400, 60000, 3.0),
]
