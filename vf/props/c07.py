"""C07 - hardware compilation: output is native, equivalent, routable and validated.

Monitors (all at the public API boundary):
  gatesets  cirq.optimize_for_target_gateset(circuit, gateset=G, ...) for every target gateset and option; the
            output is judged for nativity (two opinions: G itself and a membership table written here from the
            gateset docstrings), for equivalence (catalogue product of the abstract input program versus the
            op-by-op lowering of the output with cirq.unitary(op) + vf.refmodel.linalg.embed) and for the documented
            two-qubit-count rules.
  routing   cirq.RouteCQC(graph).route_circuit / __call__ on harness-built device graphs: edges, injective initial
            map, own permutation-matrix oracle for "equal up to the reported qubit permutation", inserted SWAPs.
  devices   accept / ValueError verdicts of GridDevice (from a DeviceSpecification built here), IonQAPIDevice,
            AQTDevice, PasqalDevice and PasqalVirtualDevice against the predicate known by construction.
The reference side never calls Circuit.unitary, cirq.testing, cirq.linalg or a simulator."""
from __future__ import annotations

import math
import traceback

import numpy as np

from vf.errors import Reject
from vf.refmodel import interp as I
from vf.refmodel import linalg as L
from vf.workloads import gatepool as GP
from vf.workloads import programs as P
from vf.workloads import unitaries as UW

PACKAGES = ["cirq_google", "cirq_ionq", "cirq_aqt", "cirq_pasqal"]
LEVEL = "exploration"
RULE = ("gatesets: 2-4 qubit programs (Haar-random 1/2/3-qubit MatrixGates, catalogue gates, KAK-special two-qubit "
        "unitaries - identity, local, CNOT/iSWAP/SWAP classes, Weyl vertices/edges/faces -, already-native circuits, "
        "mixes with no-compile-tagged operations, measurements and CircuitOperations) crossed with every target gateset "
        "configuration; non-trivial when the input is not already accepted by the gateset or the output differs from "
        "the input, distinct by (configuration, program text). routing: 1/2-qubit programs on lines, rings, grids, stars "
        "and random connected graphs with 3-8 nodes, LineInitialMapper or a random injective hard-coded map, "
        "lookahead 1..8; non-trivial when at least one swap was inserted or a two-qubit operation was relabelled. "
        "devices: (device specification, operation) pairs; non-trivial when the expected verdict is a rejection or the "
        "operation has >= 2 qubits")
ASSUMPTIONS = [
    "cirq.unitary(op) of every single output operation is correct (policed by C03/C04); products are formed with numpy",
    "equivalence tolerance 1e-6 up to global phase; 1e-5 for the IonQ native gatesets, for circuits that go through the 3-qubit "
    "matrix synthesis, for the sqrt-iSWAP targets (their synthesis loses a square root near the iSWAP vertex: 170 x atol was "
    "measured by C15 on the unchanged tree) and max(1e-6, 100 x atol) when a larger atol is passed to the CZ target",
    "gate parameters within 1e-6 of (but not on) the special values 0 and 1 are snapped onto them: inputs inside the tolerance "
    "windows of the analytical synthesis routines are C15's subject (one such input - KAK vector (pi/8, 1e-9, 0) through "
    "two_qubit_matrix_to_sqrt_iswap_operations - is O(1) wrong and is reported there)",
    "strict mode (ignore_failures=False) on AQT / Pasqal: a ValueError naming a global phase produced by cirq.decompose of a "
    ">= 3-qubit or shifted input operation is counted as the documented refusal (these gatesets list no GlobalPhaseGate)",
    "operations tagged with a tag listed in TransformerContext.tags_to_ignore are the no-compile operations of the property",
    "the membership tables in this file transcribe the gateset docstrings (gate type + parameter predicate)",
    "routing inputs contain only 1- and 2-qubit operations and the hard-coded initial maps place the logical qubits on a "
    "connected set of device nodes (the two constraints AbstractInitialMapper documents)",
]
MIN_EVAL = {"native:gateset-opinion": 2000, "native:table-opinion": 2000, "equivalent": 400, "keep-old-if-not-worse": 60,
            "two-qubit-count-bound": 60, "route:on-edge": 300, "route:equivalent-up-to-permutation": 100,
            "device-verdict": 500}
_T = "cirq/transformers/"
MUST_REACH = [
    _T + "optimize_for_target_gateset.py:optimize_for_target_gateset",
    _T + "target_gatesets/compilation_target_gateset.py:create_transformer_with_kwargs",
    _T + "target_gatesets/compilation_target_gateset.py:TwoQubitCompilationTargetGateset.decompose_to_target_gateset",
    _T + "target_gatesets/cz_gateset.py:CZTargetGateset._decompose_two_qubit_operation",
    _T + "target_gatesets/sqrt_iswap_gateset.py:SqrtIswapTargetGateset._decompose_two_qubit_operation",
    "cirq/ops/gateset.py:Gateset._validate_operation", "cirq/ops/gateset.py:GateFamily._predicate",
    _T + "routing/route_circuit_cqc.py:RouteCQC._get_one_and_two_qubit_ops_as_timesteps",
    _T + "routing/route_circuit_cqc.py:RouteCQC._route", _T + "routing/route_circuit_cqc.py:RouteCQC._brute_force_strategy",
    _T + "routing/mapping_manager.py:MappingManager.apply_swap", _T + "routing/mapping_manager.py:MappingManager.mapped_op",
    _T + "routing/mapping_manager.py:MappingManager.shortest_path",
    _T + "routing/line_initial_mapper.py:LineInitialMapper.initial_mapping",
    "cirq_google/devices/grid_device.py:GridDevice._validate_operations",
    "cirq_google/transformers/target_gatesets/sycamore_gateset.py:SycamoreTargetGateset._decompose_two_qubit_operation",
    "cirq_ionq/ionq_gateset.py:IonQTargetGateset._decompose_two_qubit_operation",
    "cirq_ionq/ionq_native_target_gateset.py:IonqNativeGatesetBase._decompose_two_qubit_operation",
    "cirq_aqt/aqt_target_gateset.py:AQTTargetGateset._decompose_two_qubit_operation",
    "cirq_pasqal/pasqal_gateset.py:PasqalGateset.decompose_to_target_gateset",
]

TOL = 1e-6
NOCOMPILE = "vf-no-compile"
ROUTE_KNOWN = "C07:routecqc-indexerror-empty-swap-pair-candidates"
_S = {}


# =========================================================================== abstract programs
def _specs():
    if "specs" not in _S:
        _S["specs"] = {s.name: s for s in GP.build_specs() + GP.build_vendor_specs() + GP.build_custom_specs()}
    return _S["specs"]


def _U(spec, p, w, tag=False):
    st = {"t": "U", "spec": spec, "p": tuple(p), "w": tuple(int(x) for x in w)}
    if tag:
        st["tag"] = True
    return st


def _flat(items):
    """Unitary steps in execution order (blocks unrolled, measurements dropped)."""
    out = []
    for it in items:
        if it["t"] == "B":
            for _ in range(it["reps"]):
                out.extend(_flat(it["body"]))
        elif it["t"] == "U":
            out.append(it)
    return out


def _ref_unitary(items, n):
    """INPUT meaning: product of catalogue matrices (no Cirq)."""
    sp = _specs()
    return I.unitary_of([I.U(sp[s["spec"]].ref(s["p"]), s["w"]) for s in _flat(items)], (2,) * n)


def _item_op(it, qubits):
    import cirq

    if it["t"] == "U":
        op = _specs()[it["spec"]].make(it["p"]).on(*[qubits[w] for w in it["w"]])
        return op.with_tags(NOCOMPILE) if it.get("tag") else op
    if it["t"] == "M":
        return cirq.measure(*[qubits[w] for w in it["w"]], key=it["key"])
    if it["t"] == "B":
        body = cirq.FrozenCircuit(_moments(it["body"], qubits))
        op = cirq.CircuitOperation(body)
        if it["reps"] != 1:
            op = op.repeat(it["reps"])
        return op
    raise ValueError(it["t"])


def _item_wires(it):
    if it["t"] == "B":
        s = set()
        for x in it["body"]:
            s |= _item_wires(x)
        return s
    return set(it["w"])


def _moments(items, qubits):
    """Greedy explicit moment construction by the harness."""
    import cirq

    moments, cur, used = [], [], set()
    for it in items:
        w = _item_wires(it)
        if (w & used or not w) and cur:
            moments.append(cirq.Moment(cur))
            cur, used = [], set()
        cur.append(_item_op(it, qubits))
        used |= w
    if cur:
        moments.append(cirq.Moment(cur))
    return moments


def _describe(items):
    out = []
    for it in items:
        if it["t"] == "B":
            out.append("BLOCKx%d{%s}" % (it["reps"], "; ".join(_describe(it["body"]))))
        elif it["t"] == "M":
            out.append("M[%s]@%s" % (it["key"], list(it["w"])))
        else:
            d = P.describe([{"t": "U", "spec": it["spec"], "p": it["p"], "w": it["w"]}])[0]
            if any(isinstance(x, np.ndarray) for x in it["p"]):
                d += "#%.6f" % float(np.abs(np.asarray(it["p"][0])).sum() + np.angle(np.asarray(it["p"][0]).ravel()[0]))
            out.append(d + ("!nocompile" if it.get("tag") else ""))
    return out


def _wires(rng, n, k):
    return tuple(int(x) for x in rng.choice(n, size=k, replace=False))


def _haar_step(rng, n, k):
    name = {1: "Matrix2", 2: "Matrix2x2", 3: "Matrix2x2x2"}[k]
    return _U(name, (L.haar_unitary(rng, 2 ** k),), _wires(rng, n, k))


_KAK_KINDS = [0, 1, 2, 3, 4, 5, 8]


def _kak_step(rng, n):
    """Two-qubit MatrixGate sitting exactly on a special point of the Weyl chamber (never atol-close to one)."""
    kind = _KAK_KINDS[int(rng.integers(len(_KAK_KINDS)))]
    u, info = UW.gen_two_qubit(rng, kind + 10 * int(rng.integers(0, 40)))
    return _U("Matrix2x2", (np.asarray(u, dtype=complex),), _wires(rng, n, 2)), info["label"]


def _cat_pred(cfg):
    def pred(s):
        if "qudit" in s.tags:
            return False
        if s.name == "GlobalPhase":
            return cfg["phase_ok"]
        if s.name.startswith("Identity") and not cfg.get("identity_ok", True):
            return False
        return True
    return pred


def _off_edge(p):
    """Gate parameters exactly on special values or at least 1e-6 away from 0 / 1: the catalogue's 1e-9-off-special exponents
    and angles probe the tolerance windows of the analytical synthesis routines, which is C15's subject, not the pipeline's."""
    out = []
    for x in p:
        if isinstance(x, (float, np.floating)):
            x = float(x)
            for base in (0.0, 1.0):
                if 0 < abs(x - base) < 1e-6:
                    x = base
        out.append(x)
    return tuple(out)


def _cat_step(rng, n, cfg, arity_w=(0.03, 0.42, 0.40, 0.15)):
    st = P.gen_unitary_step(rng, (2,) * n, _cat_pred(cfg), arity_w=arity_w)
    return _U(st["spec"], _off_edge(st["p"]), st["w"])


# =========================================================================== gateset configurations + membership tables
def _near(x, v, period, tol=1e-6):
    d = (float(x) - v) % period
    return min(d, period - d) < tol


def _integer(x, tol=1e-9):
    return abs(float(x) - round(float(x))) < tol


def _tables():
    """Independent membership predicates gate -> bool, one per gateset docstring (gate type + parameter predicate).

    Type families: isinstance.  Instance families (cirq.CZ, cirq.CNOT, ...): GateFamily documents them as 'equal up to global
    phase to the instance', so the table accepts the named gate type with the matching exponent and, for gates that are not
    EigenGates, anything whose own unitary equals the instance's catalogue matrix up to global phase."""
    import cirq
    import cirq_ionq
    from vf.refmodel import gates as RG

    def inst(cls, value, period, matrix, attr="exponent"):
        matrix = np.asarray(matrix, dtype=complex)

        def f(g):
            if isinstance(g, cls):
                return _near(getattr(g, attr), value, period)
            if isinstance(g, cirq.EigenGate) or not isinstance(g, cirq.Gate):
                return False
            u = cirq.unitary(g, None)
            return u is not None and u.shape == matrix.shape and L.phase_equal(u, matrix, 1e-7)
        return f

    meas = lambda g: isinstance(g, cirq.MeasurementGate)  # noqa: E731
    phase = lambda g: isinstance(g, cirq.GlobalPhaseGate)  # noqa: E731
    phxz = lambda g: isinstance(g, cirq.PhasedXZGate)  # noqa: E731
    E = RG.eigen_gate
    cz1 = inst(cirq.CZPowGate, 1, 2, np.diag([1, 1, 1, -1]))
    czany = lambda g: isinstance(g, cirq.CZPowGate)  # noqa: E731
    cnot1 = inst(cirq.CXPowGate, 1, 2, E("CXPow", 1))
    swap1 = inst(cirq.SwapPowGate, 1, 2, RG.SWAP)
    iswap1 = inst(cirq.ISwapPowGate, 1, 4, RG.iswappow_doc(1))
    h1 = inst(cirq.HPowGate, 1, 2, RG.H)
    ccz1 = inst(cirq.CCZPowGate, 1, 2, np.diag([1] * 7 + [-1]))

    def syc(g):
        if isinstance(g, cirq.FSimGate):
            return _near(g.theta, math.pi / 2, 2 * math.pi) and _near(g.phi, math.pi / 6, 2 * math.pi)
        return inst(cirq.FSimGate, 0, 1, RG.syc(), attr="theta")(g)

    def any_of(*fs):
        return lambda g: any(f(g) for f in fs)

    xyz = lambda g: isinstance(g, (cirq.XPowGate, cirq.YPowGate, cirq.ZPowGate))  # noqa: E731

    def pasqal_1q(g):
        if isinstance(g, cirq.ParallelGate):
            g = g.sub_gate
        return h1(g) or isinstance(g, (cirq.PhasedXPowGate, cirq.XPowGate, cirq.YPowGate, cirq.ZPowGate))

    def int_pow(cls):
        return lambda g: isinstance(g, cls) and _integer(g.exponent)

    return {
        "cz": any_of(cz1, phxz, meas, phase),
        "czpow": any_of(czany, phxz, meas, phase),
        "sqrt_iswap": any_of(inst(cirq.ISwapPowGate, 0.5, 4, RG.iswappow_doc(0.5)), phxz, meas, phase),
        "sqrt_iswap_inv": any_of(inst(cirq.ISwapPowGate, -0.5, 4, RG.iswappow_doc(-0.5)), phxz, meas, phase),
        "sycamore": any_of(syc, phxz, meas, phase, xyz, lambda g: isinstance(g, cirq.PhasedXPowGate)),
        "ionq": any_of(h1, cnot1, swap1, xyz, lambda g: isinstance(g, (cirq.XXPowGate, cirq.YYPowGate, cirq.ZZPowGate)), meas, phase),
        "aria": any_of(lambda g: isinstance(g, (cirq_ionq.GPIGate, cirq_ionq.GPI2Gate, cirq_ionq.MSGate)), meas),
        "forte": any_of(lambda g: isinstance(g, (cirq_ionq.GPIGate, cirq_ionq.GPI2Gate, cirq_ionq.ZZGate)), meas),
        "aqt": any_of(lambda g: isinstance(g, (cirq.XXPowGate, cirq.ZPowGate, cirq.PhasedXPowGate)), meas),
        "pasqal": any_of(pasqal_1q, int_pow(cirq.CZPowGate), lambda g: isinstance(g, cirq.IdentityGate), meas,
                         int_pow(cirq.CXPowGate), int_pow(cirq.CCXPowGate), int_pow(cirq.CCZPowGate)),
        "pasqal_basic": any_of(pasqal_1q, int_pow(cirq.CZPowGate), lambda g: isinstance(g, cirq.IdentityGate), meas),
        "_swap1": swap1, "_iswap1": iswap1, "_ccz1": ccz1,
    }


# additional_gates choices: (label, cirq-side list builder, harness-side predicate, native 2q specs they add, native 1q specs)
def _additional(rng, which=None):
    import cirq

    opts = [
        ("SWAP", lambda: [cirq.SWAP], lambda g: _S["tables"]["_swap1"](g),
         [("SwapPow", (1.0, 0.0))], []),
        ("ISWAP+XPow", lambda: [cirq.ISWAP, cirq.XPowGate],
         lambda g: _S["tables"]["_iswap1"](g) or isinstance(g, cirq.XPowGate),
         [("ISwapPow", (1.0, 0.0))], ["XPow"]),
        ("CXPow", lambda: [cirq.CXPowGate], lambda g: isinstance(g, cirq.CXPowGate), [("CXPow", None)], []),
        ("ZZPow+family(YPow)", lambda: [cirq.ZZPowGate, cirq.GateFamily(cirq.YPowGate)],
         lambda g: isinstance(g, (cirq.ZZPowGate, cirq.YPowGate)), [("ZZPow", None)], ["YPow"]),
        ("FSim+CCZ", lambda: [cirq.FSimGate, cirq.CCZ], lambda g: isinstance(g, cirq.FSimGate) or _S["tables"]["_ccz1"](g),
         [("FSim", None)], []),
    ]
    return opts[int(rng.integers(len(opts))) if which is None else which]


_PAULI_FAMILIES = ("XPow", "YPow", "ZPow", "PhasedXPow")


def _configs():
    """(name, builder(rng) -> cfg).  cfg: gateset object G, harness table, tolerance and the documented traits."""
    import cirq
    import cirq_google
    import cirq_ionq
    from cirq_aqt.aqt_target_gateset import AQTTargetGateset
    import cirq_pasqal

    T = _S["tables"]

    def base(label, G, table, **kw):
        cfg = dict(label=label, cls=type(G).__name__, G=G, table=table, tol=TOL, phase_ok=True, unroll=True, twoq_family=True,
                   merges=True, bound=None, required=None, native1=["PhasedXZ"], native2=[], native3=[], extra=None,
                   meas_ok=True, deep_ok=True, kwargs={})
        cfg.update(kw)
        return cfg

    def with_extra(cfg, extra):
        if extra is None:
            return cfg
        label, _, pred, n2, n1 = extra
        t0 = cfg["table"]
        cfg["table"] = lambda g: t0(g) or pred(g)
        cfg["native2"] = cfg["native2"] + n2
        cfg["native1"] = cfg["native1"] + n1
        cfg["label"] += "+additional(" + label + ")"
        cfg["extra"] = label
        return cfg

    def cz(rng, partial=False, atol=1e-8, extra=None, **opts):
        add = extra[1]() if extra else ()
        G = cirq.CZTargetGateset(atol=atol, allow_partial_czs=partial, additional_gates=add, **opts)
        lab = "CZ(partial=%s,atol=%g%s)" % (partial, atol, "".join(",%s=%s" % kv for kv in sorted(opts.items())))
        cfg = base(lab, G, T["czpow" if partial else "cz"], bound=3, native2=[("CZPow", None if partial else (1.0, 0.0))],
                   tol=max(TOL, 100 * atol))
        return with_extra(cfg, extra)

    def sqi(rng, inv=False, required=None, extra=None, atol=1e-8):
        add = extra[1]() if extra else ()
        G = cirq.SqrtIswapTargetGateset(atol=atol, required_sqrt_iswap_count=required, use_sqrt_iswap_inv=inv,
                                        additional_gates=add)
        cfg = base("SqrtIswap(inv=%s,required=%s,atol=%g)" % (inv, required, atol), G,
                   T["sqrt_iswap_inv" if inv else "sqrt_iswap"], bound=3, required=required, tol=1e-5,
                   native2=[("ISwapPow", (-0.5 if inv else 0.5, 0.0))])
        return with_extra(cfg, extra)

    def gcz(rng, eject=False, extra=None, atol=1e-8):
        if eject:  # the property: eject_paulis only together with the Pauli gate families as additional accepted gates
            add = [cirq.XPowGate, cirq.YPowGate, cirq.ZPowGate, cirq.PhasedXPowGate]
            G = cirq_google.GoogleCZTargetGateset(atol=atol, eject_paulis=True, additional_gates=add)
            t0 = T["cz"]
            cfg = base("GoogleCZ(eject_paulis=True,additional=Pauli families)", G,
                       lambda g: t0(g) or isinstance(g, (cirq.XPowGate, cirq.YPowGate, cirq.ZPowGate, cirq.PhasedXPowGate)),
                       bound=3, native2=[("CZPow", (1.0, 0.0))], native1=["PhasedXZ"] + list(_PAULI_FAMILIES), meas_ok=False,
                       deep_ok=False)
            cfg["extra"] = "paulis"
            return cfg
        add = extra[1]() if extra else ()
        G = cirq_google.GoogleCZTargetGateset(atol=atol, additional_gates=add)
        cfg = base("GoogleCZ(atol=%g)" % atol, G, T["cz"], bound=3, native2=[("CZPow", (1.0, 0.0))])
        return with_extra(cfg, extra)

    def syc(rng):
        G = cirq_google.SycamoreTargetGateset()
        return base("Sycamore(analytic)", G, T["sycamore"], native2=[("SYC", ())],
                    native1=["PhasedXZ", "PhasedXPow", "XPow", "YPow", "ZPow", "rz"])

    def ionq(rng):
        G = cirq_ionq.IonQTargetGateset()
        return base("IonQTarget", G, T["ionq"], unroll=False, merges=False, deep_ok=False,
                    native1=["XPow", "YPow", "ZPow", "rx", "H1"],
                    native2=[("CXPow", (1.0, 0.0)), ("SwapPow", (1.0, 0.0)), ("XXPow", None), ("YYPow", None), ("ZZPow", None),
                             ("ms", None)])

    def aria(rng):
        G = cirq_ionq.AriaNativeGateset()
        return base("AriaNative", G, T["aria"], tol=1e-5, phase_ok=False, unroll=False, merges=False, deep_ok=False,
                    native1=["GPI", "GPI2"], native2=[("IonQ_MS", None)])

    def forte(rng):
        G = cirq_ionq.ForteNativeGateset()
        return base("ForteNative", G, T["forte"], tol=1e-5, phase_ok=False, unroll=False, merges=False, deep_ok=False,
                    native1=["GPI", "GPI2"], native2=[("IonQ_ZZ", None)])

    def aqt(rng):
        G = AQTTargetGateset()
        return base("AQT", G, T["aqt"], phase_ok=False, unroll=False, deep_ok=False, native1=["ZPow", "PhasedXPow", "rz"],
                    native2=[("XXPow", None), ("ms", None)])

    def pasqal(rng, inc=True):
        G = cirq_pasqal.PasqalGateset(include_additional_controlled_ops=inc)
        return base("Pasqal(additional_controlled=%s)" % inc, G, T["pasqal" if inc else "pasqal_basic"], phase_ok=False,
                    unroll=False, twoq_family=False, merges=False, deep_ok=False,
                    native1=["H1", "PhasedXPow", "XPow", "YPow", "ZPow", "Identity2"],
                    native2=[("CZPow", (1.0, 0.0)), ("CZPow", (3.0, 0.5))] + ([("CXPow", (1.0, 0.0))] if inc else []),
                    native3=[("CCXPow", (1.0, 0.0)), ("CCZPow", (1.0, 0.0))] if inc else [])

    return [
        ("cz", lambda r: cz(r)),
        ("cz-partial", lambda r: cz(r, partial=True)),
        ("cz-atol", lambda r: cz(r, atol=float(r.choice([1e-10, 1e-9, 1e-7])), partial=bool(r.integers(2)))),
        ("cz-additional", lambda r: cz(r, partial=bool(r.integers(2)), extra=_additional(r))),
        ("cz-no-moment-structure", lambda r: cz(r, preserve_moment_structure=False)),
        ("cz-reorder", lambda r: cz(r, partial=bool(r.integers(2)), preserve_moment_structure=False, reorder_operations=True)),
        ("sqrt-iswap", lambda r: sqi(r)),
        ("sqrt-iswap-inv", lambda r: sqi(r, inv=True)),
        ("sqrt-iswap-required", lambda r: sqi(r, inv=bool(r.integers(2)), required=int(r.choice([3, 3, 2, 1, 0])))),
        ("sqrt-iswap-additional", lambda r: sqi(r, inv=bool(r.integers(2)), extra=_additional(r))),
        ("sycamore", syc),
        ("google-cz", lambda r: gcz(r)),
        ("google-cz-additional", lambda r: gcz(r, extra=_additional(r))),
        ("google-cz-eject", lambda r: gcz(r, eject=True)),
        ("ionq", ionq),
        ("aria", aria),
        ("forte", forte),
        ("aqt", aqt),
        ("pasqal", lambda r: pasqal(r, True)),
        ("pasqal-basic", lambda r: pasqal(r, False)),
    ]


def setup(ctx):
    import cirq

    sp = _specs()
    # a fixed-exponent Hadamard for the instance families (H) of the IonQ / Pasqal gatesets
    sp["H1"] = GP.Spec("H1", (2,), lambda rng: (), lambda p: cirq.H, lambda p: sp["HPow"].ref((1.0, 0.0)), tags=("1q",))
    _S["tables"] = _tables()
    _S["configs"] = _configs()
    _setup_route()
    _setup_devices()


# =========================================================================== section 1: target gatesets
def _native_step(rng, n, cfg):
    sp = _specs()
    r = rng.random()
    if cfg["native3"] and n >= 3 and r < 0.15:
        name, p = cfg["native3"][int(rng.integers(len(cfg["native3"])))]
        return _U(name, p, _wires(rng, n, 3))
    if r < 0.5 and cfg["native2"]:
        name, p = cfg["native2"][int(rng.integers(len(cfg["native2"])))]
        return _U(name, _off_edge(sp[name].sample(rng)) if p is None else p, _wires(rng, n, 2))
    name = cfg["native1"][int(rng.integers(len(cfg["native1"])))]
    return _U(name, _off_edge(sp[name].sample(rng)), _wires(rng, n, 1))


def _gen_input(rng, cfg, kind):
    """Returns (n, items, label)."""
    n = int(rng.integers(2, 5))
    items = []
    label = kind
    if kind == "haar":
        for _ in range(int(rng.integers(1, 6))):
            k = int(rng.choice([1, 2, 2, 2, 3]))
            items.append(_haar_step(rng, n, min(k, n)))
    elif kind == "single-2q":  # one two-qubit unitary block: the documented count bounds apply to exactly this
        n = 2
        r = rng.random()
        if r < 0.4:
            st, label = _kak_step(rng, n)
            label = "single-2q:" + label
            items.append(st)
        elif r < 0.6:
            items.append(_haar_step(rng, n, 2))
        else:
            items.append(_cat_step(rng, n, cfg, arity_w=(0, 0, 1, 0)))
    elif kind == "named-int-power":
        # one named two-qubit gate at an integer exponent other than 1, alone on its pair (a component of its own, so
        # the gateset's shortcuts for named gates - not the generic KAK path - decide the output), plus idle spectators
        n = int(rng.integers(2, 4))
        fam = ["ISwapPow", "SwapPow", "CZPow", "CXPow", "XXPow", "YYPow", "ZZPow"][int(rng.integers(7))]
        e = float(rng.choice([-1, 3, -3, 2, 5, -2, 4, 1, -5, 7]))
        w = _wires(rng, n, 2)
        items.append(_U(fam, (e, 0.0), w))
        label = "named-int-power:%s**%g" % (fam, e)
        if n == 3 and rng.random() < 0.5:
            other = [x for x in range(n) if x not in w][0]
            items.append(_U("HPow", (1.0, 0.0), (other,)))
    elif kind == "lone-1q-int-power":
        # one named single-qubit gate at a whole-number (or half) exponent, the only single-qubit operation on its qubit,
        # so that per-gate shortcuts of the gateset (not the merged-matrix path) decide; optionally right after a native
        # two-qubit gate on the same qubit, which keeps the component but converts its single-qubit members one by one
        n = int(rng.integers(1, 4))
        fam = ["HPow", "XPow", "YPow", "ZPow", "HPow"][int(rng.integers(5))]
        e = float(rng.choice([0, 2, -2, 4, 3, -1, -3, 1, 0.5, -0.5, 6]))
        sh = float(rng.choice([0.0, 0.0, 0.5, -0.5]))
        w = _wires(rng, n, 1)
        if n >= 2 and cfg["native2"] and rng.random() < 0.5:
            name, p_ = cfg["native2"][int(rng.integers(len(cfg["native2"])))]
            other = [x for x in range(n) if x != w[0]][0]
            items.append(_U(name, _off_edge(_specs()[name].sample(rng)) if p_ is None else p_, (w[0], other)))
        items.append(_U(fam, (e, sh), w))
        label = "lone-1q-int-power:%s**%g" % (fam, e)
    elif kind == "named-pair":
        # two named two-qubit gates back to back on one pair (any wire order), alone on that pair: exactly the two-operation
        # components for which gatesets keep special-case shortcuts (e.g. SWAP next to a ZZ power)
        n = int(rng.integers(2, 4))
        fams = ["ISwapPow", "SwapPow", "CZPow", "CXPow", "XXPow", "YYPow", "ZZPow"]
        w = _wires(rng, n, 2)
        labs = []
        # (pairs for which some gateset documents a dedicated decomposition are drawn more often: SWAP next to ZZ**t)
        pair = [["SwapPow", "ZZPow"], ["ZZPow", "SwapPow"]][int(rng.integers(2))] if rng.random() < 0.35 else None
        for j in range(2):
            fam = pair[j] if pair else fams[int(rng.integers(len(fams)))]
            e = float(rng.choice([1.0, -1.0, 0.5, -0.5, 2.0, 0.25, 3.0])) if rng.random() < 0.6 else float(round(rng.uniform(-2, 2), 3))
            ww = w if rng.random() < 0.5 else (w[1], w[0])
            items.append(_U(fam, (e, 0.0), ww))
            labs.append("%s**%g" % (fam, e))
        label = "named-pair:" + ",".join(labs)
        if n == 3 and rng.random() < 0.5:
            other = [x for x in range(n) if x not in w][0]
            items.append(_U("HPow", (1.0, 0.0), (other,)))
    elif kind == "kak":
        for _ in range(int(rng.integers(1, 4))):
            st, lab = _kak_step(rng, n)
            items.append(st)
            label = "kak:" + lab
            if rng.random() < 0.5:
                items.append(_haar_step(rng, n, 1))
    elif kind == "catalogue":
        for _ in range(int(rng.integers(2, 9))):
            items.append(_cat_step(rng, n, cfg))
    elif kind == "two-qubit-circuit":
        n = 2
        for _ in range(int(rng.integers(2, 8))):
            items.append(_cat_step(rng, n, cfg, arity_w=(0, 0.5, 0.5, 0)) if rng.random() < 0.7 else _haar_step(rng, n, int(rng.integers(1, 3))))
    elif kind == "native":
        if rng.random() < 0.4:
            n = 2
        for _ in range(int(rng.integers(2, 10))):
            items.append(_native_step(rng, n, cfg))
    elif kind == "mixed":
        nm = 0
        for i in range(int(rng.integers(3, 9))):
            r = rng.random()
            if r < 0.2:
                st = _cat_step(rng, n, cfg, arity_w=(0, 0.5, 0.5, 0))
                st["tag"] = True
                items.append(st)
            elif r < 0.35 and cfg["meas_ok"]:
                items.append({"t": "M", "key": "m%d" % nm, "w": _wires(rng, n, int(rng.integers(1, min(n, 2) + 1)))})
                nm += 1
            elif r < 0.55:
                body = [(_cat_step(rng, n, cfg, arity_w=(0, 0.45, 0.45, 0.1)) if rng.random() < 0.7 else _native_step(rng, n, cfg))
                        for _ in range(int(rng.integers(1, 4)))]
                items.append({"t": "B", "body": body, "reps": int(rng.choice([1, 1, 2, 3]))})
            elif r < 0.75:
                items.append(_native_step(rng, n, cfg))
            else:
                items.append(_cat_step(rng, n, cfg))
    else:
        raise ValueError(kind)
    return n, items, label


class _TimeLimit(BaseException):
    pass


class _time_limit:
    """Wall-clock guard around one compilation (a case is ~40 ms; the shard watchdog stays the last resort)."""

    def __init__(self, seconds):
        self.seconds = seconds

    def _fire(self, signum, frame):
        raise _TimeLimit()

    def __enter__(self):
        import signal

        self.old = signal.signal(signal.SIGALRM, self._fire)
        signal.setitimer(signal.ITIMER_REAL, self.seconds)

    def __exit__(self, *exc):
        import signal

        signal.setitimer(signal.ITIMER_REAL, 0)
        signal.signal(signal.SIGALRM, self.old)
        return False


_KINDS = ["haar", "single-2q", "kak", "catalogue", "two-qubit-circuit", "native", "native", "mixed", "mixed", "named-int-power", "named-pair", "named-pair",
          "lone-1q-int-power"]

def _is_native(op, cfg, opinion):
    """opinion 'G': the gateset's own answer; 'T': the harness table (CircuitOperations unrolled where documented)."""
    import cirq

    if opinion == "G":
        return op in cfg["G"]
    u = op.untagged
    if isinstance(u, cirq.CircuitOperation):
        if not cfg["unroll"]:
            return False
        return all(_is_native(o, cfg, "T") for o in u.circuit.all_operations())
    g = u.gate
    return g is not None and bool(cfg["table"](g))


def _lower(circuit, qubits, what):
    """OUTPUT meaning: product over operations of cirq.unitary(op) embedded on the input's qubit list."""
    import cirq

    idx = {q: i for i, q in enumerate(qubits)}
    n = len(qubits)
    acc = np.eye(2 ** n, dtype=complex)
    for op in circuit.all_operations():
        if cirq.is_measurement(op):
            raise Reject("lowering a circuit with measurements")
        u = cirq.unitary(op, None)
        if u is None:
            return None, "operation without a unitary in the %s: %r" % (what, op)
        for q in op.qubits:
            if q not in idx:
                return None, "operation on a qubit that is not in the input: %r" % (op,)
        acc = L.embed(u, [idx[q] for q in op.qubits], (2,) * n) @ acc
    return acc, None


def _two_qubit_count(circuit):
    import cirq

    c = 0
    for op in circuit.all_operations():
        u = op.untagged
        if isinstance(u, cirq.CircuitOperation):
            c += _two_qubit_count(u.circuit) * max(1, abs(int(u.repetitions)))
        elif len(op.qubits) == 2 and not cirq.is_measurement(op):
            c += 1
    return c


def _meas_signature(circuit):
    import cirq

    return sorted((cirq.measurement_key_name(op), tuple(repr(q) for q in op.qubits), tuple(op.gate.invert_mask))
                  for op in circuit.all_operations() if isinstance(op.gate, cirq.MeasurementGate))


def sec_gatesets(ctx, rng, case):
    import cirq

    confs = _S["configs"]
    cname, build = confs[(case + case // len(confs)) % len(confs)]  # every block of len(confs) cases visits every configuration
    if cname == "sycamore" and ctx.tier == "thorough" and rng.random() < 0.25:
        cfg = _sycamore_tabulation_cfg()
    else:
        cfg = build(rng)
    kind = _KINDS[int(rng.integers(len(_KINDS)))]
    n, items, label = _gen_input(rng, cfg, kind)
    G = cfg["G"]
    qubits = P.make_qubits(rng, (2,) * n)
    if rng.random() < 0.3:
        qubits = [qubits[i] for i in rng.permutation(n)]  # wire order independent of cirq's qubit order
    circuit = cirq.Circuit(_moments(items, qubits))
    before = repr(circuit) if len(items) < 6 else None
    has_meas = any(it["t"] == "M" for it in items)
    has_tag = any(it.get("tag") for it in items)
    has_block = any(it["t"] == "B" for it in items)
    deep = bool(has_block and cfg["deep_ok"] and rng.random() < 0.5)
    kw = {}
    if has_tag or deep:
        kw["context"] = cirq.TransformerContext(tags_to_ignore=(NOCOMPILE,) if has_tag else (), deep=deep)
    strict = bool(rng.random() < 0.5)  # ignore_failures=False: failures must surface as ValueError, never as a wrong circuit
    passes = None if rng.random() < 0.1 else 1
    if passes is None:
        kw["max_num_passes"] = None
    wit = dict(gateset=cfg["label"], program=_describe(items), qubits=[repr(q) for q in qubits], kind=label, deep=deep,
               ignore_failures=not strict, max_num_passes=passes)
    mk = cfg["cls"]
    try:
        with _time_limit(40):
            out = cirq.optimize_for_target_gateset(circuit, gateset=G, ignore_failures=not strict, **kw)
    except _TimeLimit:
        ctx.event("compile-exceeded-40s")
        ctx.inconclusive("gatesets:compile-exceeded-40s:%s:max_num_passes=%s" % (mk, passes))
        return
    except Exception as e:  # noqa: BLE001 - every exception is classified below; unknown ones are reported with their input
        out = _classify_compile_exception(ctx, e, cfg, circuit, items, strict, kw, wit)
        if out is None:
            return
        strict = False
    ctx.event("compile:" + cname)
    if before is not None:
        ctx.check(repr(circuit) == before, "input-not-mutated", "C07:input-mutated:" + mk, "the transformer changed its input", **wit)

    # ---- (a) nativity, two opinions; no-compile operations must be passed through untouched
    out_ops = list(out.all_operations())
    tagged_in = [op for op in circuit.all_operations() if NOCOMPILE in op.tags]
    tagged_out = [op for op in out_ops if NOCOMPILE in op.tags]
    if has_tag:
        same = len(tagged_in) == len(tagged_out) and all(any(a is b or a == b for b in tagged_out) for a in tagged_in)
        ctx.check(same, "no-compile-untouched", "C07:no-compile-op-changed:" + mk,
                  "operations carrying a tag from tags_to_ignore were not passed through unchanged",
                  tagged_in=[repr(o) for o in tagged_in], tagged_out=[repr(o) for o in tagged_out], **wit)
    rest = [op for op in out_ops if NOCOMPILE not in op.tags]
    bad_g = [op for op in rest if not _is_native(op, cfg, "G")]
    bad_t = [op for op in rest if not _is_native(op, cfg, "T")]
    ctx.ok("native:gateset-opinion", max(len(rest) - 1, 0))
    ctx.check(not bad_g, "native:gateset-opinion", "C07:non-native-output:" + mk,
              lambda: "output operation(s) not accepted by the target gateset: %s" % [repr(o) for o in bad_g[:3]], **wit)
    ctx.ok("native:table-opinion", max(len(rest) - 1, 0))
    only_t = [op for op in bad_t if not any(op is o for o in bad_g)]
    ctx.check(not only_t, "native:table-opinion", "C07:gateset-accepts-what-its-docstring-excludes:" + mk,
              lambda: "the gateset accepts output operation(s) outside its documented gate families: %s" % [repr(o) for o in only_t[:3]],
              **wit)
    val = G.validate(cirq.Circuit(rest))
    ctx.check(val == (not bad_g), "validate==all(op in G)", "C07:validate-disagrees-with-contains:" + mk,
              "G.validate(output)=%s but per-operation containment says %s" % (val, not bad_g), **wit)

    # ---- measurements survive
    if has_meas:
        ctx.check(_meas_signature(out) == _meas_signature(circuit), "measurements-survive", "C07:measurement-lost-or-changed:" + mk,
                  lambda: "measurements in %s, out %s" % (_meas_signature(circuit), _meas_signature(out)), **wit)

    # ---- (b) equivalence on unitary-only circuits
    in_native = all(_is_native(op, cfg, "T") for op in circuit.all_operations() if NOCOMPILE not in op.tags)
    changed = [repr(o) for o in out_ops] != [repr(o) for o in circuit.all_operations()]
    if not has_meas and cfg["tol"] is not None:
        want = _ref_unitary(items, n)
        got, why = _lower(out, qubits, "output")
        if got is None:
            ctx.check(False, "equivalent", "C07:output-not-lowerable:" + mk, why, **wit)
        else:
            tol = cfg["tol"]
            if any(s["spec"] == "Matrix2x2x2" for s in _flat(items)):
                tol = max(tol, 1e-5)
            d = L.phase_diff(got, want)
            if d > tol and mk == "AQTTargetGateset" and _aqt_unwrap_explains(items, n, got, tol):
                _known(ctx, AQT_MECH, "AQTTargetGateset._decompose_single_qubit_operation unwraps a one-moment single-qubit "
                       "CircuitOperation to its first operation and loses its repetitions (keep-old branch next to a native XX "
                       "gate): output differs from the input by %.3g and equals the input with those blocks applied once" % d, **wit)
                d = 0.0
            ctx.check(d <= tol, "equivalent", "C07:not-equivalent:" + mk,
                      lambda: "output unitary differs from the input program by %.3g (up to global phase, tol %g)" % (d, tol),
                      diff=d, output=[repr(o)[:160] for o in out_ops[:40]], **wit)
            if d > tol / 10:
                ctx.event("equivalence-error>tol/10")

    # ---- (c) documented two-qubit-count rules
    plain = not has_meas and not has_tag and not has_block
    flat = _flat(items)
    if plain and all(len(s["w"]) <= 2 for s in flat):
        n2_in = sum(1 for s in flat if len(s["w"]) == 2)
        n2_out = _two_qubit_count(out)
        if cfg["twoq_family"] and in_native:
            ctx.check(n2_out <= n2_in, "keep-old-if-not-worse", "C07:more-two-qubit-ops-than-native-input:" + mk,
                      "already-native input with %d two-qubit operations compiled to %d" % (n2_in, n2_out), **wit)
        if cfg["bound"] is not None and n == 2 and n2_in >= 1 and not in_native:
            any_foreign_2q = any(len(s["w"]) == 2 and not cfg["table"](_specs()[s["spec"]].make(s["p"])) for s in flat)
            if cfg["extra"] is None or any_foreign_2q:
                lim = cfg["bound"]
                ctx.check(n2_out <= lim, "two-qubit-count-bound", "C07:two-qubit-count-above-documented-bound:" + mk,
                          "one 2-qubit unitary block compiled to %d two-qubit operations (documented <= %d)" % (n2_out, lim), **wit)
            if cfg["required"] is not None and any_foreign_2q:
                ctx.check(n2_out == cfg["required"], "required-sqrt-iswap-count", "C07:required-sqrt-iswap-count-not-honoured",
                          "required_sqrt_iswap_count=%d but the block has %d" % (cfg["required"], n2_out), **wit)
    ctx.distinct((cfg["label"], tuple(_describe(items)), deep, strict), nontrivial=(not in_native) or changed)
    ctx.sample({"gateset": cfg["label"], "kind": label, "program": _describe(items)[:6], "output_ops": len(out_ops)})


_KNOWN_HITS = {}


def _known(ctx, mech, msg, **wit):
    """A mechanism already understood: store a few witnesses per shard, count the rest (keeps the bounded violation list free)."""
    ctx.ok("no-undocumented-exception")
    _KNOWN_HITS[mech] = _KNOWN_HITS.get(mech, 0) + 1
    if _KNOWN_HITS[mech] <= 3:
        ctx.fail(mech, msg, **wit)
    else:
        ctx.event("known:" + mech)


def _tb_has(e, *needles):
    txt = "".join(traceback.format_exception(type(e), e, e.__traceback__))
    return all(n in txt for n in needles)


AQT_MECH = "C07:aqt-single-qubit-unwrap-drops-circuit-operation-repetitions"


def _aqt_unwrap_explains(items, n, got, tol):
    """Explained-by: the output equals the input program in which every one-moment single-qubit block is applied once."""
    mod, hit = [], False
    for it in items:
        if it["t"] == "B" and it["reps"] != 1 and len(it["body"]) == 1 and len(it["body"][0].get("w", ())) == 1:
            mod.append(dict(it, reps=1))
            hit = True
        else:
            mod.append(it)
    return hit and L.phase_diff(got, _ref_unitary(mod, n)) <= tol


PHASE_MECH = "C07:ionq-native-gateset-emits-global-phase-it-rejects(ignore_failures=False)"
REORDER_MECH = "C07:reorder_operations-TypeError(commutes(tagged op, measurement, default=False)-raises;TaggedOperation._commutes_-drops-default)"


def _classify_compile_exception(ctx, e, cfg, circuit, items, strict, kw, wit):
    """Documented rejections -> ctx.reject; understood defects -> explained-by mechanism keys; the rest -> violation with the
    input attached.  Returns a lenient re-compilation to continue with, or None."""
    import cirq

    msg = str(e)
    G = cfg["G"]
    if isinstance(e, ValueError) and cfg["required"] is not None and cfg["required"] < 3 and "sqrt" in msg.lower():
        ctx.reject("compile:required-sqrt-iswap-count-too-low")  # documented in the constructor docstring
        return None
    if isinstance(e, ValueError) and strict and msg.startswith("Unable to convert") and not cfg["phase_ok"]:
        # explained-by: the op named in the message is a global phase (no input op is one for these gatesets) and the lenient
        # run of the same input compiles and is judged below as usual
        named = msg[len("Unable to convert "):].split(" to target gateset")[0]
        try:
            is_phase = abs(abs(complex(named.strip("()"))) - 1) < 1e-9
        except ValueError:
            is_phase = False
        if is_phase and not any(s["spec"] == "GlobalPhase" for s in _flat(items)):
            if cfg["cls"] in ("AriaNativeGateset", "ForteNativeGateset"):
                # the gateset's own _decompose_single_qubit_operation yields global_phase_operation(-1j): every non-native
                # single-qubit input fails in strict mode
                _known(ctx, PHASE_MECH,
                       "optimize_for_target_gateset(..., gateset=%s, ignore_failures=False) raises '%s' for the global phase "
                       "operation its own single-qubit synthesis emits" % (cfg["cls"], msg[:100]), **wit)
            else:
                # AQT / Pasqal document no GlobalPhaseGate; the phase comes from cirq.decompose of a >=3-qubit or shifted input
                # operation: counted as the documented strict-mode refusal of an operation that cannot be converted exactly
                ctx.reject("compile:strict-mode-refuses-global-phase-of-default-decomposition:" + cfg["cls"])
            return cirq.optimize_for_target_gateset(circuit, gateset=G, ignore_failures=True, **kw)
    if isinstance(e, TypeError) and msg.startswith("Failed to determine whether or not") and _tb_has(e, "insertion_sort.py", "_commutes_"):
        # explained-by: only with reorder_operations, only when a tagged operation meets a measurement, and the same circuit
        # without its tags compiles
        has_tagged = any(op.tags for op in circuit.all_operations())
        has_meas = any(cirq.is_measurement(op) for op in circuit.all_operations())
        if has_tagged and has_meas and cfg["G"]._reorder_operations:
            try:
                cirq.optimize_for_target_gateset(cirq.Circuit(op.untagged for op in circuit.all_operations()), gateset=G)
                _known(ctx, REORDER_MECH, "%s: %s" % (type(e).__name__, msg[:200]), **wit)
                return None
            except TypeError:
                pass
    ctx.ok("no-undocumented-exception")
    ctx.fail("C07:compile-exception:%s:%s" % (type(e).__name__, cfg["cls"]), "%s: %s" % (type(e).__name__, msg[:300]),
             traceback="".join(traceback.format_exception(type(e), e, e.__traceback__))[-1500:], **wit)
    return None


def _sycamore_tabulation_cfg():
    import cirq
    import cirq_google

    if "syc_tab" not in _S:
        tab = cirq.two_qubit_gate_product_tabulation(cirq.unitary(cirq_google.SYC), 0.05, sample_scaling=6,
                                                     random_state=np.random.RandomState(11))
        _S["syc_tab"] = tab
    G = cirq_google.SycamoreTargetGateset(tabulation=_S["syc_tab"])
    cfg = dict(label="Sycamore(tabulation)", cls="SycamoreTargetGateset", G=G, table=_S["tables"]["sycamore"], tol=None, phase_ok=True,
               unroll=True, twoq_family=True, merges=True, bound=None, required=None,
               native1=["PhasedXZ", "PhasedXPow", "XPow", "YPow", "ZPow"], native2=[("SYC", ())], native3=[], extra=None,
               meas_ok=True, deep_ok=True, kwargs={})
    return cfg


# =========================================================================== section 2: routing
def _setup_route():
    import cirq
    from cirq.transformers.routing import route_circuit_cqc as R

    class PatchedRouteCQC(cirq.RouteCQC):
        """Used only to *explain* the known IndexError: with no disjoint pair of candidate swaps the pair strategy gives up."""

        @classmethod
        def _choose_pair_of_swaps(cls, mm, two_qubit_ops_ints, timestep, lookahead_radius):
            pair_sigma = R._disjoint_nc2_combinations(cls._initial_candidate_swaps(mm, two_qubit_ops_ints[timestep]))
            if not pair_sigma:
                return None
            return cls._choose_optimal_swap(mm, two_qubit_ops_ints, timestep, lookahead_radius, pair_sigma)

    _S["PatchedRouteCQC"] = PatchedRouteCQC


def _gen_graph(rng):
    """Device graph built by the harness: (label, nodes, edge list).  3-8 nodes, connected."""
    import cirq

    kind = ["line", "ring", "grid", "star", "random", "random", "grid-subset"][int(rng.integers(7))]
    qt = int(rng.integers(3))

    def node(i, rc=None):
        if rc is not None and qt != 2:
            return cirq.GridQubit(*rc)
        if qt == 0:
            return cirq.LineQubit(i)
        if qt == 1:
            return cirq.NamedQubit("p%02d" % i)
        return cirq.GridQubit(i // 3 + 1, i % 3 + 2)

    if kind == "line":
        k = int(rng.integers(3, 9))
        nodes = [node(i) for i in range(k)]
        edges = [(i, i + 1) for i in range(k - 1)]
    elif kind == "ring":
        k = int(rng.integers(3, 9))
        nodes = [node(i) for i in range(k)]
        edges = [(i, (i + 1) % k) for i in range(k)]
    elif kind == "star":
        k = int(rng.integers(3, 9))
        nodes = [node(i) for i in range(k)]
        c = int(rng.integers(k))
        edges = [(c, i) for i in range(k) if i != c]
    elif kind in ("grid", "grid-subset"):
        r, c = [(2, 2), (2, 3), (2, 4), (3, 2), (4, 2), (1, 4), (3, 3)][int(rng.integers(7))]
        cells = [(i, j) for i in range(r) for j in range(c)]
        if kind == "grid-subset" or len(cells) > 8:
            # grow a connected subset of the grid
            want = int(rng.integers(3, min(8, len(cells)) + 1))
            chosen = [cells[int(rng.integers(len(cells)))]]
            while len(chosen) < want:
                front = [x for x in cells if x not in chosen and any(abs(x[0] - y[0]) + abs(x[1] - y[1]) == 1 for y in chosen)]
                chosen.append(front[int(rng.integers(len(front)))])
            cells = sorted(chosen)
        nodes = [node(i, rc) for i, rc in enumerate(cells)]
        edges = [(i, j) for i in range(len(cells)) for j in range(i + 1, len(cells))
                 if abs(cells[i][0] - cells[j][0]) + abs(cells[i][1] - cells[j][1]) == 1]
    else:
        k = int(rng.integers(3, 9))
        nodes = [node(i) for i in range(k)]
        order = [int(x) for x in rng.permutation(k)]
        edges = [(order[i], order[int(rng.integers(i))]) for i in range(1, k)]  # random spanning tree
        for _ in range(int(rng.integers(0, k))):
            a, b = (int(x) for x in rng.choice(k, size=2, replace=False))
            if (a, b) not in edges and (b, a) not in edges:
                edges.append((a, b))
    if rng.random() < 0.5:
        edges = [(b, a) if rng.random() < 0.5 else (a, b) for a, b in edges]
    return "%s-%d" % (kind, len(nodes)), nodes, edges


def _connected_subset(rng, k, edges, size):
    adj = {i: set() for i in range(k)}
    for a, b in edges:
        adj[a].add(b)
        adj[b].add(a)
    chosen = [int(rng.integers(k))]
    while len(chosen) < size:
        front = sorted({y for x in chosen for y in adj[x]} - set(chosen))
        chosen.append(front[int(rng.integers(len(front)))])
    return chosen


def _perm_matrix(src_to_dst, m):
    """Pi|x> = |y> with y[dst] = x[src] over m big-endian qubits (own construction, numpy only)."""
    D = 2 ** m
    Pi = np.zeros((D, D))
    for x in range(D):
        bits = [(x >> (m - 1 - i)) & 1 for i in range(m)]
        y = [0] * m
        for sidx, didx in src_to_dst.items():
            y[didx] = bits[sidx]
        Pi[int("".join(map(str, y)), 2) if m else 0, x] = 1
    return Pi


def _is_swap_gate(g):
    import cirq

    return isinstance(g, cirq.SwapPowGate) and g.exponent == 1


def _op_sig(op):
    import cirq

    return (repr(op.untagged.gate), tuple(sorted(repr(t) for t in op.tags if not isinstance(t, cirq.RoutingSwapTag))))


def _judge_routing(ctx, res, circuit, items, logical, nodes, edge_set, tag, wit, count=True):
    """All routing oracles on one (routed, initial_map, swap_map).  Returns (ok, n_inserted)."""
    import cirq
    from collections import Counter

    chk = ctx.check if count else (lambda cond, mon, mech, msg="", **w: bool(cond))
    routed, imap, smap = res
    ok = True
    node_set = set(nodes)
    vals = list(imap.values())
    good_map = (set(circuit.all_qubits()) <= set(imap.keys()) and all(v in node_set for v in vals) and len(set(vals)) == len(vals))
    ok &= chk(good_map, "route:initial-map-injective", "C07:route-initial-map-not-injective-into-device",
              "initial_map %r" % (imap,), **wit)
    good_swap = set(smap.keys()) == set(vals) and sorted(map(repr, smap.values())) == sorted(map(repr, vals))
    ok &= chk(good_swap, "route:swap-map-is-permutation", "C07:route-swap-map-not-a-permutation-of-mapped-physicals",
              "swap_map %r over %r" % (smap, vals), **wit)
    if not (good_map and good_swap):
        return False, 0
    rops = list(routed.all_operations())
    off = [op for op in rops if any(q not in node_set for q in op.qubits)
           or (len(op.qubits) >= 2 and (len(op.qubits) > 2 or frozenset(op.qubits) not in edge_set))]
    if count:
        ctx.ok("route:on-edge", max(sum(1 for op in rops if len(op.qubits) >= 2) - 1, 0))
    ok &= chk(not off, "route:on-edge", "C07:route-two-qubit-op-off-edge",
              lambda: "routed operation(s) not on a device edge: %s" % [repr(o) for o in off[:3]], **wit)
    # inserted operations are SWAPs, tagged when requested; everything else is the input, relabelled
    cin = Counter(_op_sig(op) for op in circuit.all_operations())
    cout = Counter(_op_sig(op) for op in rops)
    extra = cout - cin
    missing = cin - cout
    swap_sig = (repr(cirq.SWAP), ())
    only_swaps = not missing and all(k == swap_sig for k in extra)
    ok &= chk(only_swaps, "route:inserted-ops-are-swaps", "C07:route-inserted-or-lost-operations",
              lambda: "extra %r missing %r" % (dict(extra), dict(missing)), **wit)
    n_ins = sum(extra.values())
    tagged = [op for op in rops if any(isinstance(t, cirq.RoutingSwapTag) for t in op.tags)]
    if tag:
        ok &= chk(len(tagged) == n_ins and all(_is_swap_gate(op.gate) for op in tagged), "route:swap-tags",
                  "C07:route-swap-tag-missing-or-misplaced", "%d tagged operations for %d inserted swaps" % (len(tagged), n_ins), **wit)
    else:
        ok &= chk(not tagged, "route:swap-tags", "C07:route-swap-tag-without-request", "", **wit)
    # equivalence up to the reported permutation
    if not any(it["t"] == "M" for it in items) and not off:
        phys = list(vals)
        idx = {p: i for i, p in enumerate(phys)}
        m = len(phys)
        sp = _specs()
        want = np.eye(2 ** m, dtype=complex)
        for st in _flat(items):
            want = L.embed(sp[st["spec"]].ref(st["p"]), [idx[imap[logical[w]]] for w in st["w"]], (2,) * m) @ want
        Pi = _perm_matrix({idx[p]: idx[smap[p]] for p in phys}, m)
        got, why = _lower(routed, phys, "routed circuit")
        if got is None:
            ok &= chk(False, "route:equivalent-up-to-permutation", "C07:route-output-not-lowerable", why, **wit)
        else:
            d = L.phase_diff(Pi.T @ got, want)
            ok &= chk(d <= TOL, "route:equivalent-up-to-permutation", "C07:route-not-equivalent-up-to-reported-permutation",
                      lambda: "undoing swap_map on the routed circuit leaves a unitary %.3g away from the relabelled input" % d,
                      diff=d, routed=[repr(o)[:120] for o in rops[:40]], initial_map=repr(imap), swap_map=repr(smap), **wit)
    else:
        sig_in = sorted(cirq.measurement_key_name(op) for op in circuit.all_operations() if cirq.is_measurement(op))
        sig_out = sorted(cirq.measurement_key_name(op) for op in rops if cirq.is_measurement(op))
        ok &= chk(sig_in == sig_out, "route:measurements-survive", "C07:route-measurement-lost", "%r vs %r" % (sig_in, sig_out), **wit)
    return ok, n_ins


def _gen_route_program(rng, n):
    cfg = {"phase_ok": False}
    items, nm = [], 0
    for _ in range(int(rng.integers(2, 15))):
        r = rng.random()
        if n >= 2 and r < 0.62:
            items.append(_cat_step(rng, n, cfg, arity_w=(0, 0, 1, 0)))
        elif r < 0.95:
            items.append(_cat_step(rng, n, cfg, arity_w=(0, 1, 0, 0)))
        else:
            items.append({"t": "M", "key": "r%d" % nm, "w": _wires(rng, n, int(rng.integers(1, min(n, 2) + 1)))})
            nm += 1
    return items


def _small_probes():
    """Smallest device graphs crossed with the shortest CZ programs that make single-swap candidates tie (lookahead 1)."""
    import cirq

    Lq, Gq = cirq.LineQubit, cirq.GridQubit
    graphs = [("path-3", [Lq(0), Lq(1), Lq(2)], [(0, 1), (1, 2)]),
              ("star-4", [Lq(0), Lq(1), Lq(2), Lq(3)], [(0, 1), (0, 2), (0, 3)]),
              ("grid2x2-4", [Gq(0, 0), Gq(0, 1), Gq(1, 0), Gq(1, 1)], [(0, 1), (0, 2), (1, 3), (2, 3)]),
              ("path-4", [Lq(0), Lq(1), Lq(2), Lq(3)], [(0, 1), (1, 2), (2, 3)])]
    progs = [[(0, 1), (0, 2)], [(0, 1), (0, 2), (1, 2)], [(0, 2), (1, 2), (0, 1)], [(0, 1), (1, 2), (0, 2), (0, 1)]]
    out = []
    for g in graphs:
        for pr in progs:
            out.append({"graph": g, "n": 3, "items": [_U("CZPow", (1.0, 0.0), w) for w in pr], "radius": 1})
    return out


def sec_routing(ctx, rng, case):
    import cirq
    import networkx as nx

    if "probes" not in _S:
        _S["probes"] = _small_probes()
    forced = _S["probes"][case] if case < len(_S["probes"]) else None
    glabel, nodes, edges = _gen_graph(rng) if forced is None else forced["graph"]
    k = len(nodes)
    graph = nx.Graph()
    graph.add_nodes_from(nodes)
    graph.add_edges_from((nodes[a], nodes[b]) for a, b in edges)
    edge_set = {frozenset((nodes[a], nodes[b])) for a, b in edges}
    n = int(rng.integers(2, min(k, 6) + 1))
    items = _gen_route_program(rng, n)
    if forced is not None:
        n, items = forced["n"], forced["items"]
    three = forced is None and n >= 3 and rng.random() < 0.12
    if three:  # a three-qubit gate, decomposed to 1- and 2-qubit operations first, as RouteCQC requires
        name, p = [("CCZPow", (1.0, 0.0)), ("CCXPow", (1.0, 0.0)), ("CSWAP", ()), ("CCZPow", (0.5, 0.0))][int(rng.integers(4))]
        items.insert(int(rng.integers(len(items) + 1)), _U(name, p, _wires(rng, n, 3)))
    logical = (P.make_qubits(rng, (2,) * n) if forced is None else [cirq.NamedQubit("q%d" % i) for i in range(n)])
    if forced is None and rng.random() < 0.3:
        logical = [logical[i] for i in rng.permutation(n)]
    circuit = cirq.Circuit(_moments(items, logical))
    if three:
        circuit = cirq.Circuit(cirq.decompose(circuit, keep=lambda op: len(op.qubits) <= 2))
        if any(len(op.qubits) != 1 and len(op.qubits) != 2 for op in circuit.all_operations()):
            raise Reject("decomposition left an operation that is not on 1 or 2 qubits")
        if not any(it["t"] == "M" for it in items):
            low, _ = _lower(circuit, logical, "decomposed input")
            if low is None or L.phase_diff(low, _ref_unitary(items, n)) > 1e-7:
                raise Reject("cirq.decompose of the three-qubit gate is not the catalogue matrix (C04/C15 territory)")
    used = sorted(circuit.all_qubits())
    radius = int(rng.choice([1, 1, 2, 3, 4, 8]))
    tag = bool(rng.integers(2))
    mk = int(rng.integers(4))
    mapper, mlabel = None, "default"
    if mk == 1:
        mapper, mlabel = cirq.LineInitialMapper(graph), "LineInitialMapper"
    elif mk >= 2:
        extra_logical = [] if rng.random() < 0.6 else [cirq.NamedQubit("spare%d" % i) for i in range(int(rng.integers(1, 3)))]
        keys = list(logical) + extra_logical
        if len(keys) > min(k, 7):
            keys = list(logical)
        sub = _connected_subset(rng, k, edges, len(keys))
        perm = [sub[i] for i in rng.permutation(len(sub))]
        hard = {q: nodes[j] for q, j in zip(keys, perm)}
        mapper, mlabel = cirq.HardCodedInitialMapper(hard), "HardCoded%r" % ({repr(a): repr(b) for a, b in hard.items()},)
    if forced is not None:
        radius, tag, mapper, mlabel = forced["radius"], False, None, "default"
    wit = dict(graph=glabel, nodes=[repr(x) for x in nodes], edges=[(repr(nodes[a]), repr(nodes[b])) for a, b in edges],
               program=_describe(items), logical=[repr(q) for q in logical], lookahead_radius=radius, tag_inserted_swaps=tag,
               initial_mapper=mlabel)
    kw = dict(lookahead_radius=radius, tag_inserted_swaps=tag, initial_mapper=mapper)
    before = repr(circuit)
    router = cirq.RouteCQC(graph)
    try:
        res = router.route_circuit(circuit, **kw)
    except IndexError as e:
        if str(e) == "list index out of range" and _tb_has(e, "_choose_pair_of_swaps", "_choose_optimal_swap"):
            # explained-by: the same input routes and passes every oracle once the pair strategy returns None for an empty
            # list of disjoint swap pairs (the known one-line repair); otherwise it is a different failure
            try:
                res2 = _S["PatchedRouteCQC"](graph).route_circuit(circuit, **kw)
                ok2, _ = _judge_routing(ctx, res2, circuit, items, logical, nodes, edge_set, tag, wit, count=False)
            except Exception:  # noqa: BLE001
                ok2 = False
            if ok2:
                _known(ctx, ROUTE_KNOWN, "IndexError in RouteCQC._choose_optimal_swap: _choose_pair_of_swaps passed an empty candidate "
                       "list (single-swap candidates tie, no two disjoint candidate swaps exist on this graph)",
                       size=(k, len(edges), n, len(items)), **wit)
                return "known"
        raise
    ctx.event("route:" + glabel.split("-")[0])
    ctx.check(repr(circuit) == before, "input-not-mutated", "C07:input-mutated:RouteCQC", "", **wit)
    ok, n_ins = _judge_routing(ctx, res, circuit, items, logical, nodes, edge_set, tag, wit)
    if rng.random() < 0.25:  # __call__ returns exactly the routed circuit of route_circuit
        again = cirq.RouteCQC(graph)(circuit, **kw)
        ctx.check(again == res[0], "route:__call__==route_circuit[0]", "C07:route-call-differs-from-route_circuit", "", **wit)
    if mapper is not None and mk >= 2:
        ctx.check(dict(res[1]) == hard, "route:hard-coded-map-used", "C07:route-hard-coded-initial-map-not-used", "", **wit)
    n2 = sum(1 for s in _flat(items) if len(s["w"]) == 2)
    ctx.distinct(("route", glabel, tuple(map(tuple, edges)), tuple(_describe(items)), radius, tag, mlabel), nontrivial=n2 > 0)
    if n_ins:
        ctx.event("route:swaps-inserted", n_ins)
    ctx.sample({"graph": glabel, "program": _describe(items)[:6], "radius": radius, "mapper": mlabel[:80], "inserted_swaps": n_ins})
    return "ok" if ok else "bad"


# =========================================================================== section 3: devices
def _setup_devices():
    pass


# Harness-side specification of a Google grid device: which DeviceSpecification gate names admit which candidate operation.
# Written from device.proto / the GridDevice docstring: syc, sqrt_iswap, sqrt_iswap_inv, cz (the named gate, or a gate of the
# FSim family equal to it - FSimGateFamily docstring), cz_pow_gate (any CZ power), phased_xz (PhasedXZ, X/Y powers, H powers,
# PhasedX powers, identity, single-qubit Cliffords), virtual_zpow (Z power without PhysicalZTag), physical_zpow (Z power with
# it), meas, wait, reset, fsim_via_model (FSimGate tagged FSimViaModelTag).
_GRID_GATE_NAMES = ["syc", "sqrt_iswap", "sqrt_iswap_inv", "cz", "cz_pow_gate", "phased_xz", "virtual_zpow", "physical_zpow",
                    "meas", "wait", "reset", "fsim_via_model"]


def _grid_candidates(rng):
    """(label, arity, maker(qubits) -> op, names that admit it, variadic)"""
    import cirq
    import cirq_google as cg

    t = float(rng.uniform(0.05, 0.95))
    pi = math.pi
    return [
        ("SYC", 2, lambda q: cg.SYC(*q), {"syc"}, False),
        ("FSim(pi/2,pi/6)", 2, lambda q: cirq.FSimGate(pi / 2, pi / 6)(*q), {"syc"}, False),
        ("SQRT_ISWAP", 2, lambda q: cirq.SQRT_ISWAP(*q), {"sqrt_iswap"}, False),
        ("FSim(-pi/4,0)", 2, lambda q: cirq.FSimGate(-pi / 4, 0)(*q), {"sqrt_iswap"}, False),
        ("SQRT_ISWAP_INV", 2, lambda q: cirq.SQRT_ISWAP_INV(*q), {"sqrt_iswap_inv"}, False),
        ("CZ", 2, lambda q: cirq.CZ(*q), {"cz", "cz_pow_gate"}, False),
        ("FSim(0,pi)", 2, lambda q: cirq.FSimGate(0, pi)(*q), {"cz"}, False),
        ("CZ**t", 2, lambda q: (cirq.CZ ** t)(*q), {"cz_pow_gate"}, False),
        ("PhasedXZ", 1, lambda q: cirq.PhasedXZGate(x_exponent=t, z_exponent=0.3, axis_phase_exponent=-0.2)(*q), {"phased_xz"}, False),
        ("X**t", 1, lambda q: (cirq.X ** t)(*q), {"phased_xz"}, False),
        ("Y**t", 1, lambda q: (cirq.Y ** t)(*q), {"phased_xz"}, False),
        ("H", 1, lambda q: cirq.H(*q), {"phased_xz"}, False),
        ("PhasedX", 1, lambda q: cirq.PhasedXPowGate(phase_exponent=t, exponent=0.5)(*q), {"phased_xz"}, False),
        ("I", 1, lambda q: cirq.I(*q), {"phased_xz"}, False),
        ("Z**t", 1, lambda q: (cirq.Z ** t)(*q), {"virtual_zpow"}, False),
        ("Z**t[PhysicalZTag]", 1, lambda q: (cirq.Z ** t)(*q).with_tags(cg.PhysicalZTag()), {"physical_zpow"}, False),
        ("measure1", 1, lambda q: cirq.measure(*q, key="a"), {"meas"}, True),
        ("measure2", 2, lambda q: cirq.measure(*q, key="b"), {"meas"}, True),
        ("measure3", 3, lambda q: cirq.measure(*q, key="c"), {"meas"}, True),
        ("wait", 1, lambda q: cirq.wait(*q, nanos=10), {"wait"}, True),
        ("reset", 1, lambda q: cirq.ResetChannel()(*q), {"reset"}, False),
        ("FSim(t,0.3)[FSimViaModelTag]", 2, lambda q: cirq.FSimGate(t, 0.3)(*q).with_tags(cg.FSimViaModelTag()), {"fsim_via_model"}, False),
        ("FSim(t,0.3)", 2, lambda q: cirq.FSimGate(t, 0.3)(*q), set(), False),
        ("ISWAP", 2, lambda q: cirq.ISWAP(*q), set(), False),
        ("CNOT", 2, lambda q: cirq.CNOT(*q), set(), False),
        ("SWAP", 2, lambda q: cirq.SWAP(*q), set(), False),
        ("XX**t", 2, lambda q: (cirq.XX ** t)(*q), set(), False),
        ("CCZ", 3, lambda q: cirq.CCZ(*q), set(), False),
        ("Matrix1", 1, lambda q: cirq.MatrixGate(L.haar_unitary(rng, 2))(*q), set(), False),
        ("amplitude_damp", 1, lambda q: cirq.amplitude_damp(0.1)(*q), set(), False),
    ]


IONQ_DEVICE_MECH = "C07:device-verdict:IonQAPIDevice:accepts-operation-with-some-qubits-off-device"


def _verdict(fn, arg):
    """'accept' | 'ValueError' | ('other', exception)"""
    try:
        fn(arg)
        return "accept", None
    except ValueError as e:
        return "ValueError", e
    except NotImplementedError as e:
        return "NotImplementedError", e


def _check_verdict(ctx, dev_name, got, err, expect_ok, why, wit, documented_alt=None):
    want = "accept" if expect_ok else "ValueError"
    ok = got == want or (documented_alt is not None and got == documented_alt)
    if ok:
        ctx.ok("device-verdict")
        return True
    if got == "accept":
        mech = "C07:device-verdict:%s:accepts-%s" % (dev_name, why)
    elif expect_ok:
        mech = "C07:device-verdict:%s:rejects-valid-operation" % dev_name
    else:
        mech = "C07:device-verdict:%s:wrong-exception-type-%s" % (dev_name, got)
    msg = "expected %s (%s), device said %s %s" % (want, why or "valid", got, str(err)[:160])
    if mech == IONQ_DEVICE_MECH:  # understood (see the final report): keep a few witnesses per shard, count the rest
        ctx.ok("device-verdict")
        _KNOWN_HITS[mech] = _KNOWN_HITS.get(mech, 0) + 1
        if _KNOWN_HITS[mech] <= 3:
            ctx.fail(mech, msg + " - IonQAPIDevice.validate_operation only rejects when NO qubit of the operation is on the device", **wit)
        else:
            ctx.event("known:" + mech)
        return False
    ctx.check(False, "device-verdict", mech, msg, **wit)
    return False


def _pick_qubits(rng, on, off, arity, mode):
    """mode: 'on' all on the device, 'off' all off, 'mixed' some on and some off."""
    on, off = list(on), list(off)
    if mode == "on" or not off:
        return [on[int(i)] for i in rng.choice(len(on), size=arity, replace=False)] if len(on) >= arity else None
    if mode == "off":
        return [off[int(i)] for i in rng.choice(len(off), size=arity, replace=False)] if len(off) >= arity else None
    if arity < 2 or not on:
        return None
    k = int(rng.integers(1, arity))
    if len(on) < k or len(off) < arity - k:
        return None
    qs = [on[int(i)] for i in rng.choice(len(on), size=k, replace=False)] + [off[int(i)] for i in rng.choice(len(off), size=arity - k, replace=False)]
    return [qs[int(i)] for i in rng.permutation(arity)]


def _dev_grid(ctx, rng):
    import cirq
    import cirq_google as cg
    from cirq_google.api import v2

    rows, cols = int(rng.integers(1, 4)), int(rng.integers(2, 4))
    r0, c0 = int(rng.integers(0, 5)), int(rng.integers(0, 5))
    cells = [(r0 + i, c0 + j) for i in range(rows) for j in range(cols)]
    keep = [c for c in cells if rng.random() < 0.85] or cells[:2]
    qubits = [cirq.GridQubit(*c) for c in keep]
    adjacent = [(a, b) for i, a in enumerate(keep) for b in keep[i + 1:] if abs(a[0] - b[0]) + abs(a[1] - b[1]) == 1]
    pairs = [p for p in adjacent if rng.random() < 0.7]
    names = [g for g in _GRID_GATE_NAMES if rng.random() < 0.6] or ["phased_xz"]
    spec = v2.device_pb2.DeviceSpecification()
    spec.valid_qubits.extend("%d_%d" % c for c in keep)
    ts = spec.valid_targets.add()
    ts.name = "2_qubit_targets"
    ts.target_ordering = v2.device_pb2.TargetSet.SYMMETRIC
    for a, b in pairs:
        t = ts.targets.add()
        t.ids.extend(["%d_%d" % a, "%d_%d" % b] if rng.random() < 0.5 else ["%d_%d" % b, "%d_%d" % a])
    if rng.random() < 0.5:
        mt = spec.valid_targets.add()
        mt.name = "meas_targets"
        mt.target_ordering = v2.device_pb2.TargetSet.SUBSET_PERMUTATION
    for i, g in enumerate(names):
        gs = spec.valid_gates.add()
        getattr(gs, g).SetInParent()
        gs.gate_duration_picos = 1000 * (i + 1)
    dev = cg.GridDevice.from_proto(spec)
    pair_set = {frozenset((cirq.GridQubit(*a), cirq.GridQubit(*b))) for a, b in pairs}
    off = [cirq.GridQubit(r0 + rows + 1, c0), cirq.GridQubit(r0 + rows + 1, c0 + 1), cirq.GridQubit(r0 + rows + 2, c0)] + \
          [cirq.GridQubit(*c) for c in cells if c not in keep]
    cands = _grid_candidates(rng)
    name_set = set(names)
    base = dict(device="GridDevice", gates=names, qubits=["%d_%d" % c for c in keep], pairs=[("%d_%d" % a, "%d_%d" % b) for a, b in pairs])
    valid_ops, all_ops = [], []
    for _ in range(8):
        label, arity, mk, admits, variadic = cands[int(rng.integers(len(cands)))]
        mode = ["on", "on", "on", "off", "mixed"][int(rng.integers(5))]
        qs = None
        if arity == 2 and mode == "on" and rng.random() < 0.6 and pair_set:
            pr = sorted(pair_set, key=lambda f: sorted(f))[int(rng.integers(len(pair_set)))]
            qs = sorted(pr)
            if rng.random() < 0.5:
                qs = qs[::-1]
        if qs is None:
            qs = _pick_qubits(rng, qubits, off, arity, mode)
        if qs is None:
            continue
        if variadic and arity == 2 and frozenset(qs) not in pair_set and all(q in qubits for q in qs):
            continue  # a 2-qubit measurement / wait on a non-pair: the docstring does not say which way this goes
        op = mk(qs)
        gate_ok = bool(admits & name_set)
        qubits_ok = all(q in qubits for q in qs)
        pair_ok = arity != 2 or variadic or frozenset(qs) in pair_set
        expect = gate_ok and qubits_ok and pair_ok
        why = "" if expect else ("operation-whose-gate-is-not-in-the-specification" if not gate_ok else
                                 "operation-on-qubit-off-device" if not qubits_ok else "two-qubit-operation-on-a-pair-not-in-the-specification")
        got, err = _verdict(dev.validate_operation, op)
        wit = dict(base, operation=repr(op), candidate=label, expected="accept" if expect else "ValueError: " + why)
        _check_verdict(ctx, "GridDevice", got, err, expect, why, wit)
        ctx.distinct(("grid", tuple(names), len(keep), len(pairs), label, mode, pair_ok), nontrivial=(not expect) or arity >= 2)
        all_ops.append((op, expect))
        if expect:
            valid_ops.append(op)
    # the same gate with and without the tag that decides its gate family (virtual vs physical Z, FSim via model): a circuit
    # holding both is accepted exactly when both are, whatever their order
    by_label = {c_[0]: c_ for c_ in cands}
    pair_circuits = []
    for la, lb in (("Z**t", "Z**t[PhysicalZTag]"), ("FSim(t,0.3)[FSimViaModelTag]", "FSim(t,0.3)")):
        if rng.random() < 0.5:
            continue
        arity = by_label[la][1]
        if arity == 2:
            if not pair_set:
                continue
            qs2 = sorted(sorted(pair_set, key=lambda f: sorted(f))[int(rng.integers(len(pair_set)))])
        else:
            qs2 = [qubits[int(rng.integers(len(qubits)))]]
        pr_ = []
        for lab in (la, lb):
            _, _, mk_, admits_, _ = by_label[lab]
            pr_.append((mk_(qs2), bool(admits_ & name_set)))
        for order_ in (pr_, pr_[::-1]):
            pair_circuits.append(([o for o, _ in order_], all(e for _, e in order_)))
    # circuits: accepted exactly when every operation is
    for ops_, expect in [(valid_ops, True), ([o for o, _ in all_ops], all(e for _, e in all_ops))] + pair_circuits:
        if not ops_:
            continue
        circ = cirq.Circuit()
        for op in ops_:
            circ.append(op, strategy=cirq.InsertStrategy.NEW)
        got, err = _verdict(dev.validate_circuit, circ)
        _check_verdict(ctx, "GridDevice", got, err, expect, "circuit-with-an-invalid-operation",
                       dict(base, circuit=[repr(o) for o in ops_], expected="accept" if expect else "ValueError"))
    ctx.sample({"device": "GridDevice", "gates": names, "qubits": len(keep), "pairs": len(pairs)})


def _dev_ionq(ctx, rng):
    import cirq
    import cirq_ionq

    nq = int(rng.integers(1, 6))
    if rng.random() < 0.5:
        dev = cirq_ionq.IonQAPIDevice(nq)
        on = cirq.LineQubit.range(nq)
    else:
        on = [cirq.LineQubit(int(i)) for i in sorted(rng.choice(12, size=nq, replace=False))]
        dev = cirq_ionq.IonQAPIDevice(on)
    off = [cirq.LineQubit(i) for i in range(20, 24)] + [cirq.LineQubit(i) for i in range(12) if cirq.LineQubit(i) not in on][:2]
    t = float(rng.uniform(0.05, 0.95))
    cands = [  # docstring: X/Y/Z powers, XX/YY/ZZ powers, CNOT, H, SWAP, measurement
        ("X**t", 1, lambda q: (cirq.X ** t)(*q), True), ("Y**t", 1, lambda q: (cirq.Y ** t)(*q), True),
        ("Z**t", 1, lambda q: (cirq.Z ** t)(*q), True), ("rx", 1, lambda q: cirq.rx(t)(*q), True), ("H", 1, lambda q: cirq.H(*q), True),
        ("XX**t", 2, lambda q: (cirq.XX ** t)(*q), True), ("YY**t", 2, lambda q: (cirq.YY ** t)(*q), True),
        ("ZZ**t", 2, lambda q: (cirq.ZZ ** t)(*q), True), ("CNOT", 2, lambda q: cirq.CNOT(*q), True), ("SWAP", 2, lambda q: cirq.SWAP(*q), True),
        ("measure", 1, lambda q: cirq.measure(*q, key="k"), True), ("measure2", 2, lambda q: cirq.measure(*q, key="k2"), True),
        ("H**t", 1, lambda q: (cirq.H ** t)(*q), False), ("CNOT**t", 2, lambda q: (cirq.CNOT ** t)(*q), False),
        ("SWAP**t", 2, lambda q: (cirq.SWAP ** t)(*q), False), ("CZ", 2, lambda q: cirq.CZ(*q), False), ("ISWAP", 2, lambda q: cirq.ISWAP(*q), False),
        ("PhasedX", 1, lambda q: cirq.PhasedXPowGate(phase_exponent=t)(*q), False), ("CCX", 3, lambda q: cirq.CCX(*q), False),
        ("Matrix2", 1, lambda q: cirq.MatrixGate(L.haar_unitary(rng, 2))(*q), False), ("GPI", 1, lambda q: cirq_ionq.GPIGate(phi=t)(*q), False),
    ]
    base = dict(device="IonQAPIDevice", qubits=[repr(q) for q in on])
    all_ops = []
    for _ in range(8):
        label, arity, mk, gate_ok = cands[int(rng.integers(len(cands)))]
        mode = ["on", "on", "on", "off", "mixed"][int(rng.integers(5))]
        qs = _pick_qubits(rng, on, off, arity, mode)
        if qs is None:
            continue
        op = mk(qs)
        qubits_ok = all(q in on for q in qs)
        expect = gate_ok and qubits_ok
        why = "" if expect else ("operation-whose-gate-is-not-in-the-documented-api-gate-list" if not gate_ok else
                                 ("operation-with-some-qubits-off-device" if any(q in on for q in qs) else "operation-on-qubits-off-device"))
        got, err = _verdict(dev.validate_operation, op)
        _check_verdict(ctx, "IonQAPIDevice", got, err, expect, why, dict(base, operation=repr(op), candidate=label,
                                                                         expected="accept" if expect else "ValueError: " + why))
        ctx.distinct(("ionq", nq, label, mode), nontrivial=(not expect) or arity >= 2)
        all_ops.append((op, expect, why))
    if all_ops:
        circ = cirq.Circuit()
        for op, _, _ in all_ops:
            circ.append(op, strategy=cirq.InsertStrategy.NEW)
        expect = all(e for _, e, _ in all_ops)
        bad_whys = sorted({w for _, e, w in all_ops if not e})
        why = bad_whys[0] if len(bad_whys) == 1 else "circuit-with-an-invalid-operation"
        got, err = _verdict(dev.validate_circuit, circ)
        _check_verdict(ctx, "IonQAPIDevice", got, err, expect, why if not expect else "", dict(base, circuit=[repr(o) for o, _, _ in all_ops]))
    ctx.sample({"device": "IonQAPIDevice", "qubits": [repr(q) for q in on]})


def _dev_aqt(ctx, rng):
    import cirq
    from cirq_aqt import aqt_device

    nq = int(rng.integers(1, 6))
    if rng.random() < 0.5:
        dev, on = aqt_device.get_aqt_device(nq)
    else:
        on = [cirq.LineQubit(int(i)) for i in sorted(rng.choice(10, size=nq, replace=False))]
        us = 1000 * cirq.Duration(nanos=1)
        dev = aqt_device.AQTDevice(measurement_duration=100 * us, twoq_gates_duration=200 * us, oneq_gates_duration=10 * us, qubits=on)
    off = [cirq.LineQubit(i) for i in range(30, 33)]
    wrong_type = [cirq.NamedQubit("a"), cirq.GridQubit(0, 0)]
    t = float(rng.uniform(0.05, 0.95))
    cands = [  # AQTTargetGateset docstring: XXPowGate, ZPowGate, PhasedXPowGate, MeasurementGate
        ("XX**t", 2, lambda q: (cirq.XX ** t)(*q), True), ("ms", 2, lambda q: cirq.ms(t)(*q), True), ("Z**t", 1, lambda q: (cirq.Z ** t)(*q), True),
        ("rz", 1, lambda q: cirq.rz(t)(*q), True), ("PhasedX", 1, lambda q: cirq.PhasedXPowGate(phase_exponent=t, exponent=0.5)(*q), True),
        ("measure", 1, lambda q: cirq.measure(*q, key="k%d" % int(rng.integers(1 << 30))), True),
        ("X", 1, lambda q: cirq.X(*q), False), ("Y**t", 1, lambda q: (cirq.Y ** t)(*q), False), ("H", 1, lambda q: cirq.H(*q), False),
        ("CZ", 2, lambda q: cirq.CZ(*q), False), ("CNOT", 2, lambda q: cirq.CNOT(*q), False), ("YY**t", 2, lambda q: (cirq.YY ** t)(*q), False),
        ("PhasedXZ", 1, lambda q: cirq.PhasedXZGate(x_exponent=t, z_exponent=0.1, axis_phase_exponent=0.2)(*q), False),
        ("CCZ", 3, lambda q: cirq.CCZ(*q), False),
    ]
    base = dict(device="AQTDevice", qubits=[repr(q) for q in on])
    all_ops = []
    for _ in range(8):
        label, arity, mk, gate_ok = cands[int(rng.integers(len(cands)))]
        mode = ["on", "on", "on", "off", "mixed", "type"][int(rng.integers(6))]
        if mode == "type":
            qs = _pick_qubits(rng, on, wrong_type, arity, "mixed" if arity > 1 else "off")
        else:
            qs = _pick_qubits(rng, on, off, arity, mode)
        if qs is None:
            continue
        op = mk(qs)
        qubits_ok = all(q in on for q in qs)
        expect = gate_ok and qubits_ok
        why = "" if expect else ("operation-whose-gate-is-not-in-the-gateset" if not gate_ok else "operation-on-qubit-off-device")
        got, err = _verdict(dev.validate_operation, op)
        _check_verdict(ctx, "AQTDevice", got, err, expect, why, dict(base, operation=repr(op), candidate=label,
                                                                     expected="accept" if expect else "ValueError: " + why))
        ctx.distinct(("aqt", nq, label, mode), nontrivial=(not expect) or arity >= 2)
        all_ops.append((op, expect))
    valid = [o for o, e in all_ops if e]
    for ops_, expect in ((valid, True), ([o for o, _ in all_ops], all(e for _, e in all_ops))):
        if ops_:
            circ = cirq.Circuit()
            for op in ops_:
                circ.append(op, strategy=cirq.InsertStrategy.NEW)
            got, err = _verdict(dev.validate_circuit, circ)
            _check_verdict(ctx, "AQTDevice", got, err, expect, "circuit-with-an-invalid-operation", dict(base, circuit=[repr(o) for o in ops_]))
    ctx.sample({"device": "AQTDevice", "qubits": [repr(q) for q in on]})


def _pasqal_cands(rng, additional):
    import cirq

    t = float(rng.uniform(0.05, 0.95))
    k = int(rng.integers(1, 4))
    return [  # PasqalGateset docstring + constructor: parallel single-qubit gates, integer CZ powers, identity, measurement,
        #         and - optionally - integer powers of CNOT, CCNOT, CCZ
        ("H", 1, lambda q: cirq.H(*q), True, False), ("X**t", 1, lambda q: (cirq.X ** t)(*q), True, False),
        ("Y**t", 1, lambda q: (cirq.Y ** t)(*q), True, False), ("Z**t", 1, lambda q: (cirq.Z ** t)(*q), True, False),
        ("PhasedX", 1, lambda q: cirq.PhasedXPowGate(phase_exponent=t, exponent=0.5)(*q), True, False),
        ("Parallel(X**t,2)", 2, lambda q: cirq.ParallelGate(cirq.X ** t, 2)(*q), True, False),
        ("I", 1, lambda q: cirq.I(*q), True, False), ("measure", 1, lambda q: cirq.measure(*q, key="k%d" % int(rng.integers(1 << 30))), True, False),
        ("measure2", 2, lambda q: cirq.measure(*q, key="j%d" % int(rng.integers(1 << 30))), True, False),
        ("CZ**%d" % k, 2, lambda q: (cirq.CZ ** k)(*q), True, True), ("CZ", 2, lambda q: cirq.CZ(*q), True, True),
        ("CNOT", 2, lambda q: cirq.CNOT(*q), additional, False), ("CCX", 3, lambda q: cirq.CCX(*q), additional, False),
        ("CCZ", 3, lambda q: cirq.CCZ(*q), additional, False),
        ("CZ**t", 2, lambda q: (cirq.CZ ** t)(*q), False, False), ("H**t", 1, lambda q: (cirq.H ** t)(*q), False, False),
        ("CCZ**t", 3, lambda q: (cirq.CCZ ** t)(*q), False, False), ("ISWAP", 2, lambda q: cirq.ISWAP(*q), False, False),
        ("SWAP", 2, lambda q: cirq.SWAP(*q), False, False), ("XX**t", 2, lambda q: (cirq.XX ** t)(*q), False, False),
        ("PhasedXZ", 1, lambda q: cirq.PhasedXZGate(x_exponent=t, z_exponent=0.1, axis_phase_exponent=0.2)(*q), False, False),
        ("Matrix2", 1, lambda q: cirq.MatrixGate(L.haar_unitary(rng, 2))(*q), False, False),
    ]


def _dev_pasqal(ctx, rng, virtual):
    import cirq
    import cirq_pasqal

    nq = int(rng.integers(2, 7))
    radius = None
    if not virtual:
        on = [cirq.NamedQubit("atom%d" % i) for i in range(nq)]
        dev = cirq_pasqal.PasqalDevice(qubits=on)
        off = [cirq.NamedQubit("elsewhere%d" % i) for i in range(3)]
        wrong_type = [cirq.LineQubit(0), cirq.GridQubit(1, 1)]
        name = "PasqalDevice"

        def dist(a, b):
            return 0.0
    else:
        qt = int(rng.integers(3))
        cells = [(i, j) for i in range(3) for j in range(3)]
        chosen = [cells[int(i)] for i in rng.choice(9, size=nq, replace=False)]
        if qt == 0:
            on = [cirq.GridQubit(r, c) for r, c in chosen]
            coords = {q: (q.row, q.col, 0) for q in on}
            off = [cirq.GridQubit(7, 7), cirq.GridQubit(8, 7), cirq.GridQubit(7, 8)]
        elif qt == 1:
            xs = sorted(int(i) for i in rng.choice(12, size=nq, replace=False))
            on = [cirq.LineQubit(x) for x in xs]
            coords = {q: (q.x, 0, 0) for q in on}
            off = [cirq.LineQubit(40), cirq.LineQubit(41), cirq.LineQubit(42)]
        else:
            on = [cirq_pasqal.ThreeDQubit(float(r), float(c), float((r + c) % 2)) for r, c in chosen]
            coords = {q: (q.x, q.y, q.z) for q in on}
            off = [cirq_pasqal.ThreeDQubit(9.0, 9.0, 0.0), cirq_pasqal.ThreeDQubit(9.0, 8.0, 0.0), cirq_pasqal.ThreeDQubit(8.0, 9.0, 0.0)]
        wrong_type = [cirq.NamedQubit("n0"), cirq.NamedQubit("n1")]

        def dist(a, b):
            return math.sqrt(sum((x - y) ** 2 for x, y in zip(coords[a], coords[b])))
        ds = sorted({round(dist(a, b), 9) for a in on for b in on if a != b})
        dmin = ds[0]
        # radius strictly between two realised distances (never on one), at most 3 x the minimal distance as the constructor demands
        grid = [0.0] + ds + [ds[-1] + 1.0]
        mids = [(grid[i] + grid[i + 1]) / 2 for i in range(len(grid) - 1)]
        mids = [m for m in mids if m <= 3.0 * dmin - 1e-6] or [dmin / 2]
        radius = float(mids[int(rng.integers(len(mids)))])
        dev = cirq_pasqal.PasqalVirtualDevice(control_radius=radius, qubits=on)
        name = "PasqalVirtualDevice"
    cands = _pasqal_cands(rng, additional=not virtual)
    base = dict(device=name, qubits=[repr(q) for q in on], control_radius=radius)
    all_ops = []
    for _ in range(8):
        label, arity, mk, gate_ok, controlled = cands[int(rng.integers(len(cands)))]
        mode = ["on", "on", "on", "on", "off", "mixed", "type"][int(rng.integers(7))]
        if mode == "type":
            qs = _pick_qubits(rng, on, wrong_type, arity, "mixed" if arity > 1 else "off")
        else:
            qs = _pick_qubits(rng, on, off, arity, mode)
        if qs is None:
            continue
        op = mk(qs)
        qubits_ok = all(q in on for q in qs)
        dist_ok = True
        if virtual and controlled and qubits_ok:
            dist_ok = all(dist(a, b) <= radius for a in qs for b in qs if a != b)
        expect = gate_ok and qubits_ok and dist_ok
        why = "" if expect else ("operation-whose-gate-is-not-in-the-gateset" if not gate_ok else
                                 "operation-on-qubit-off-device" if not qubits_ok else "controlled-gate-beyond-control-radius")
        got, err = _verdict(dev.validate_operation, op)
        _check_verdict(ctx, name, got, err, expect, why, dict(base, operation=repr(op), candidate=label,
                                                              expected="accept" if expect else "ValueError: " + why))
        ctx.distinct(("pasqal", virtual, nq, label, mode, dist_ok), nontrivial=(not expect) or arity >= 2)
        all_ops.append((op, expect))
    # circuit-level rules of the docstrings: one operation per moment (virtual device; measurements may share a moment) and
    # nothing after a measurement
    gates = [o for o, e in all_ops if e and not cirq.is_measurement(o)]
    meas_q = on[int(rng.integers(len(on)))]
    variants = []
    serial = cirq.Circuit()
    for op in gates:
        serial.append(op, strategy=cirq.InsertStrategy.NEW)
    terminal = serial + cirq.Circuit(cirq.Moment([cirq.measure(meas_q, key="final")]))
    variants.append(("serial+terminal-measurement", terminal, True, ""))
    if gates:
        after = terminal + cirq.Circuit(cirq.Moment([gates[0]]))
        variants.append(("gate-after-measurement", after, False, "circuit-with-operation-after-measurement"))
    bad = [o for o, e in all_ops if not e]
    if bad:
        c2 = serial.copy()
        c2.append(bad[0], strategy=cirq.InsertStrategy.NEW)
        variants.append(("with-invalid-operation", c2, False, "circuit-with-an-invalid-operation"))
    if virtual and len(on) >= 2:
        two = cirq.Circuit(cirq.Moment([cirq.X(on[0]), cirq.Y(on[1])]))
        variants.append(("two-gates-in-one-moment", two, False, "circuit-with-simultaneous-gates"))
    for vlabel, circ, expect, why in variants:
        got, err = _verdict(dev.validate_circuit, circ)
        _check_verdict(ctx, name, got, err, expect, why, dict(base, variant=vlabel, circuit=[repr(o) for o in circ.all_operations()][:12]))
    # documented special case: a measurement with an invert mask raises NotImplementedError
    got, err = _verdict(dev.validate_operation, cirq.measure(meas_q, key="inv", invert_mask=(True,)))
    _check_verdict(ctx, name, got, err, False, "measurement-with-invert-mask", dict(base, operation="measure(invert_mask=(True,))"),
                   documented_alt="NotImplementedError")
    ctx.sample({"device": name, "qubits": len(on), "control_radius": radius})


def sec_devices(ctx, rng, case):
    kind = (case + case // 6) % 6
    if kind in (0, 1):
        _dev_grid(ctx, rng)
    elif kind == 2:
        _dev_ionq(ctx, rng)
    elif kind == 3:
        _dev_aqt(ctx, rng)
    elif kind == 4:
        _dev_pasqal(ctx, rng, virtual=False)
    else:
        _dev_pasqal(ctx, rng, virtual=True)


SECTIONS = [
    ("gatesets", sec_gatesets, 12000, 110000, 3.0),
    ("routing", sec_routing, 7000, 120000, 1.2),
    ("devices", sec_devices, 2000, 24000, 0.5),
]
