"""C06 - circuit transformers preserve what the circuit computes.

INPUT side: an abstract program (vf.workloads.xform_programs / programs /
blocks) whose meaning comes from the catalogue through the reference
interpreter - never from Cirq.  OUTPUT side: the circuit a transformer
returned, observed (a) op by op through cirq.unitary(op) contracted with
linalg.embed for unitary circuits, (b) through the real simulators under the
scripted seed object (exact record distribution, exact outcome-averaged final
state) otherwise.  The relation required of each transformer is the one its
docstring promises (table REG below); in addition, for every call: input not
modified, operations tagged with a tag in tags_to_ignore still present
unchanged (and not merged across), sub-circuits untouched without deep=True,
output moments well formed."""
from __future__ import annotations

import inspect
import math
import re
import traceback

import numpy as np

from vf.errors import Reject
from vf.monitors import lower as LW
from vf.refmodel import interp as I
from vf.refmodel import linalg as L
from vf.workloads import blocks as B
from vf.workloads import programs as P
from vf.workloads import xform_programs as X

PACKAGES = ["cirq_google"]
LEVEL = "exploration"
RULE = ("abstract programs of 2-5 qubits and 4-25 operations biased to rewrite-relevant neighbourhoods (Z-family / PhasedX / "
        "PhasedXZ / exact Paulis next to CZ, SWAP-like, ISWAP-like, FSim gates; global shifts; exponents at and near 0, +-0.5, 1 "
        "and the atol boundaries; terminal / mid-circuit / repeated-key / masked measurements; classical controls; tagged "
        "operations; nested and repeated sub-circuits; empty moments; idle qubits), each sent through the applicable "
        "transformers x option sets x contexts (tags_to_ignore, deep) and through random pipelines; a case counts as "
        "non-trivial when the reference unitary is not the identity (unitary inputs) or the reference distribution has >= 2 "
        "outcomes (measured inputs) and at least one transformer changed the circuit; distinct by program text")
ASSUMPTIONS = ["catalogue matrices are ground truth; cirq.unitary(op) per operation is policed by C03/C04, the simulators by C02/C09",
               "tolerance 1e-6 (+ 10 x atol x #operations for passes that take an atol) on unitaries up to global phase, "
               "total variation 1e-6 on exact distributions, 1e-6 on outcome-averaged density matrices",
               "callbacks given to the transformer primitives are the harness's own semantics-preserving ones",
               "optimize_for_target_gateset and RouteCQC are judged by C07"]
MIN_EVAL = {"unitary-preserved": 2000, "distribution-preserved": 400, "average-state-preserved": 300, "input-unmodified": 4000,
            "ignored-ops-untouched": 800, "moments-well-formed": 4000, "subcircuits-untouched-without-deep": 200,
            "gauge-unitary-preserved": 400, "sweep-unitary-preserved": 600, "pipeline-preserved": 80, "merge-not-across-ignored": 40,
            "structure-as-documented": 300, "documented-rejection": 10}
MUST_REACH = [
    "cirq/transformers/transformer_primitives.py:_map_operations_impl",
    "cirq/transformers/transformer_primitives.py:_merge_operations_impl",
    "cirq/transformers/transformer_primitives.py:_MergedCircuit.get_mergeable_components",
    "cirq/transformers/transformer_primitives.py:_MergedCircuit.get_cirq_circuit",
    "cirq/transformers/transformer_primitives.py:merge_moments",
    "cirq/transformers/transformer_primitives.py:merge_moments_batch",
    "cirq/transformers/transformer_primitives.py:unroll_circuit_op",
    "cirq/transformers/transformer_primitives.py:unroll_circuit_op_greedy_earliest",
    "cirq/transformers/transformer_primitives.py:unroll_circuit_op_greedy_frontier",
    "cirq/transformers/transformer_primitives.py:toggle_tags",
    "cirq/transformers/transformer_api.py:_run_transformer_on_circuit",
    "cirq/transformers/eject_z.py:eject_z",
    "cirq/transformers/eject_z.py:eject_z.<locals>.dump_tracked_phase",
    "cirq/transformers/eject_phased_paulis.py:_absorb_z_into_w",
    "cirq/transformers/eject_phased_paulis.py:_dump_held",
    "cirq/transformers/eject_phased_paulis.py:_potential_cross_whole_w",
    "cirq/transformers/eject_phased_paulis.py:_potential_cross_partial_w",
    "cirq/transformers/eject_phased_paulis.py:_single_cross_over_cz",
    "cirq/transformers/eject_phased_paulis.py:_double_cross_over_cz",
    "cirq/transformers/stratify.py:_stratify_circuit",
    "cirq/transformers/measurement_transformers.py:defer_measurements.<locals>.defer",
    "cirq/transformers/measurement_transformers.py:_mod_add",
    "cirq/transformers/measurement_transformers.py:dephase_measurements.<locals>.dephase",
    "cirq/transformers/measurement_transformers.py:drop_terminal_measurements.<locals>.flip_inversion",
    "cirq/transformers/gauge_compiling/gauge_compiling.py:GaugeTransformer.__call__",
    "cirq/transformers/gauge_compiling/gauge_compiling.py:GaugeTransformer.as_sweep",
    "cirq/transformers/gauge_compiling/idle_moments_gauge.py:IdleMomentsGauge.__call__",
    "cirq/transformers/gauge_compiling/multi_moment_cphase_gauge.py:CPhaseGaugeTransformerMM.gauge_on_moments",
    "cirq/transformers/dynamical_decoupling.py:add_dynamical_decoupling",
    "cirq/transformers/merge_single_qubit_gates.py:merge_single_qubit_gates_to_phxz_symbolized",
    "cirq/transformers/diagonal_optimization.py:drop_diagonal_before_measurement",
    "cirq/transformers/insertion_sort.py:insertion_sort_transformer",
    "cirq/transformers/qubit_management_transformers.py:map_clean_and_borrowable_qubits",
    "cirq_google/transformers/sycamore_gauge.py:<module>",
]

KNOWN_GREEDY = "C06:unroll-greedy-earliest-reorders-conflicting-ops"
# mechanisms of findings observed on the unchanged tree; each is assigned only when an explained-by test holds
K_DD_IGNORED = "C06:dynamical-decoupling-merges-pulled-pauli-into-ignored-op"
K_DD_CRASH = "C06:dynamical-decoupling-crashes-pulling-paulis-through-an-op-with-stabilizer-effect(PauliString.after)"
K_SORT_CRASH = "C06:insertion-sort-crashes-on-tagged-op(TaggedOperation._commutes_-drops-default)"
K_KEY_ORDER = "C06:repeated-key-instance-order:"   # + transformer name
K_EJECTZ_SYM = "C06:eject_z-crashes-on-parameterized-iswap-or-fsim(_is_swaplike-rounds-a-sympy-expression)"
K_DEPHASE_KEYS = "C06:dephase_measurements-output-cannot-be-simulated(repeated-key-becomes-repeated-channel-record)"
K_DEPHASE_TAGGED = "C06:dephase_measurements-does-not-reject-a-tagged-classically-controlled-operation"
K_SQRT_CZ = "C06:sqrt-cz-gauge-mishandles-gates-its-target-gateset-accepts(S-vs-S^-1-by-exact-equality,non-CZPowGate)"
K_DEFER_EQUAL = "C06:defer_measurements-takes-mid-circuit-measurement-for-terminal-when-an-equal-operation-is-terminal"
K_FRONTIER = "C06:unroll-greedy-frontier-ignores-measurement-key-dependencies"
K_DEFER_UNSAT = "C06:defer_measurements-crashes-on-a-condition-no-record-satisfies(empty-SumOfProducts)"
K_DEFER_BITMASK = "C06:defer_measurements-ignores-the-index-of-a-BitMaskKeyCondition"
K_MERGE_KEYS = "C06:merge-operations-decides-on-qubits-alone(key-carrying-op-moved-across-its-dependent)"


def _defer_condition_facts():
    """facts about the current abstract program used to attribute a defer_measurements failure:
    (some control is unsatisfiable by every record, some bitmask control names an instance other than the latest of a
    repeated key)"""
    import itertools

    case = _S.get("current_case") or {}
    items = case.get("items") or []
    if X.has_block(items):
        return False, False
    unsat = indexed = False
    before = []
    for s_ in items:
        if s_["t"] == "M":
            before.append((s_["key"], len(s_["w"])))
        elif s_["t"] == "C":
            c = s_["cond"]
            keys = {c["key"]} if "key" in c else {k for k, _ in c["keys"]}
            slots = [(k, w) for k, w in before if k in keys]
            if c["t"] == "bitmask" and c.get("index", -1) != -1 and len(slots) >= 2:
                indexed = True
            f = P.key_cond_fn(c)
            width = sum(w for _, w in slots)
            if width <= 8:
                sat = False
                for bits in itertools.product((0, 1), repeat=width):
                    rec, i = [], 0
                    for k, w in slots:
                        rec.append((k, tuple(bits[i:i + w])))
                        i += w
                    try:
                        if f(tuple(rec)):
                            sat = True
                            break
                    except (KeyError, IndexError):
                        pass
                unsat = unsat or not sat
    return unsat, indexed


def _has_equal_measurements(circuit):
    import cirq

    ms = [op for op in circuit.all_operations() if cirq.is_measurement(op)]
    return any(a == b for i, a in enumerate(ms) for b in ms[i + 1:])
EXCEPTION_MECHANISMS = [
    # (transformer, exception type, message pattern, traceback pattern, mechanism key)
    ("add_dynamical_decoupling", (TypeError, ValueError), r"Failed to act action on state argument|Clifford Gate can only be constructed",
     r"pauli_string\.py.*in after", K_DD_CRASH),
    ("eject_z", TypeError, r".", r"in _is_swaplike", K_EJECTZ_SYM),
    ("drop_diagonal_before_measurement", TypeError, r".", r"in _is_swaplike", K_EJECTZ_SYM),
    ("SqrtCZGaugeTransformer", ValueError, r"Can't symbolize non-CZPowGate", r"in _symbolize_as_cz_pow", K_SQRT_CZ),
    ("defer_measurements", ValueError, r"Deferred measurement for key=.* not found", r"in defer", K_DEFER_EQUAL, lambda c: _has_equal_measurements(c)),
    ("defer_measurements", ValueError, r"SumOfProducts can't be empty", r"in defer", K_DEFER_BITMASK, lambda c: _defer_condition_facts() == (False, True)),
    ("defer_measurements", ValueError, r"SumOfProducts can't be empty", r"in defer", K_DEFER_UNSAT, lambda c: _defer_condition_facts()[0]),
    ("insertion_sort_transformer", TypeError, r"Failed to determine whether or not", r"raw_types\.py.*in _commutes_", K_SORT_CRASH),
]
TOL = 1e-6
IG, OT = X.IGNORE, X.OTHER
CREATED_TAG_PREFIXES = ("<mapped", "Merged", "_merged", "c06-")
_S = {}


# ------------------------------------------------------------------ small helpers
def _blame(exc):
    from vf import worker

    return worker._blame(exc)


def _tctx(variant):
    import cirq

    if variant == "none":
        return None
    return cirq.TransformerContext(tags_to_ignore=(IG,) if "tags" in variant else (), deep="deep" in variant)


def _wit(case, **extra):
    d = dict(n=case["n"], qubits=[str(q) for q in case["qubits"]], layout=case.get("layout"), program=X.describe(case["items"]))
    if case.get("circuit") is not None:
        d["circuit"] = repr(case["circuit"])[:4000]
    d.update(extra)
    return d


def _optdesc(kw):
    out = {}
    for k, v in kw.items():
        out[k] = v if isinstance(v, (int, float, str, bool, type(None))) else (getattr(v, "__name__", None) or repr(v))[:80]
    return out


class Entry:
    """One registry row: how to call the transformer, what relation its documentation promises, option sets."""

    def __init__(self, name, rel, fn=None, kwsets=None, tags=True, deep="yes", on=("unitary", "measured"), rejects=(),
                 flattens=False, atol_kw="atol", note=""):
        self.name, self.rel, self.fn, self.kwsets = name, rel, fn, kwsets or [("default", {})]
        self.tags, self.deep, self.on, self.rejects, self.flattens = tags, deep, on, tuple(rejects), flattens
        self.atol_kw, self.note = atol_kw, note
        self.whole_ops = False

    def tol(self, kw, nops):
        a = kw.get(self.atol_kw)
        if a is None and self.atol_kw:
            a = 1e-8
        return TOL + 10.0 * float(a or 0.0) * max(nops, 1)


def _ignored_ops(circuit, deep):
    ops = LW.all_ops_deep(circuit) if deep else circuit.all_operations()
    # zero-qubit (global phase) operations are outside every relation ("up to global phase")
    return [op for op in ops if IG in op.tags and op.qubits]


def _dd_merged_pauli(circ_in, out, missing):
    """explained-by test: every missing ignored operation is a 1-qubit operation whose slot (same moment, same qubit) in
    the output holds that operation multiplied by a Pauli (up to global phase) - the pulled-through Pauli was merged in"""
    import cirq

    paulis = [np.array([[0, 1], [1, 0]], dtype=complex), np.array([[0, -1j], [1j, 0]]), np.diag([1.0 + 0j, -1])]
    if len(out) != len(circ_in):
        return False
    for op in missing:
        if len(op.qubits) != 1 or not cirq.has_unitary(op):
            return False
        slots = [i for i, m in enumerate(circ_in.moments) if any(o == op and tuple(o.tags) == tuple(op.tags) for o in m.operations)]
        u = cirq.unitary(op)
        hit = False
        for i in slots:
            o2 = out[i].operation_at(op.qubits[0])
            if o2 is None or not cirq.has_unitary(o2):
                continue
            u2 = cirq.unitary(o2)
            if any(L.phase_equal(u2, u @ pm, 1e-6) or L.phase_equal(u2, pm @ u, 1e-6) for pm in paulis):
                hit = True
        if not hit:
            return False
    return True


def _check_ignored(ctx, name, circ_in, out, deep, wit):
    want = _ignored_ops(circ_in, deep)
    if not want:
        return
    have = list(LW.all_ops_deep(out) if deep else out.all_operations())
    missing = []
    for op in want:
        for i, h in enumerate(have):
            if h == op and tuple(h.tags) == tuple(op.tags):
                del have[i]
                break
        else:
            missing.append(op)
    mech = "C06:ignored-op-touched:" + name
    if missing and name == "add_dynamical_decoupling" and _dd_merged_pauli(circ_in, out, missing):
        mech = K_DD_IGNORED
    ctx.check(not missing, "ignored-ops-untouched", mech,
              lambda: "operation(s) tagged with a tag in tags_to_ignore are not in the output unchanged: %r" % (missing[:3],),
              missing=[repr(m) for m in missing[:4]], output=repr(out)[:3000], **wit)


def _check_subcircuits(ctx, name, circ_in, out, wit):
    import cirq

    if not any(isinstance(op.untagged, cirq.CircuitOperation) for op in circ_in.all_operations()):
        return
    # bodies of every sub-circuit of the input (a pass may legitimately expose a nested one or re-map its qubits)
    orig = [op.untagged.circuit for op in LW.all_ops_deep(circ_in) if isinstance(op.untagged, cirq.CircuitOperation)]
    bad = []
    for op in out.all_operations():
        u = op.untagged
        if not isinstance(u, cirq.CircuitOperation):
            continue
        if any(str(t).startswith(CREATED_TAG_PREFIXES) for t in op.tags):
            continue
        if not any(u.circuit == o for o in orig):
            bad.append(op)
    ctx.check(not bad, "subcircuits-untouched-without-deep", "C06:subcircuit-rewritten-without-deep:" + name,
              lambda: "a CircuitOperation in the output is not one of the input's (deep=False): %r" % (bad[:2],),
              output=repr(out)[:3000], **wit)


def call(ctx, ent, circ_in, variant, kw, wit, fn=None, extra_rejects=()):
    """Run one transformer call under the generic monitors.  Returns the output circuit (or the raw result), or None
    when the call ended in a documented rejection / a recorded violation."""
    import cirq

    name = ent.name
    wit = dict(wit)
    wit.setdefault("options", _optdesc(kw))
    wit.setdefault("context", variant)
    tctx = _tctx(variant)
    snap = LW.snapshot(circ_in)
    fn = fn or ent.fn
    try:
        res = fn(circ_in, tctx, **kw)
    except Exception as e:  # noqa
        msg = "%s: %s" % (type(e).__name__, e)
        for exc_t, pat in tuple(ent.rejects) + tuple(extra_rejects):
            if isinstance(e, exc_t) and re.search(pat, str(e)):
                ctx.reject("%s:%s" % (name, pat[:40]))
                return None
        who, where = _blame(e)
        if who != "repo":
            raise
        ctx.ok("no-undocumented-exception")
        tb_txt = "".join(traceback.format_exception(type(e), e, e.__traceback__))
        mech = "C06:exception:%s:%s@%s" % (name, type(e).__name__, where)
        for nm, exc_t, pat_msg, pat_tb, key, *pred in EXCEPTION_MECHANISMS:
            if nm == name and isinstance(e, exc_t) and re.search(pat_msg, str(e), re.S) and re.search(pat_tb, tb_txt, re.S) \
                    and (not pred or pred[0](circ_in)):
                mech = key
        ctx.fail(mech, msg,
                 traceback="".join(traceback.format_exception(type(e), e, e.__traceback__))[-1500:], **wit)
        return None
    ctx.ok("no-undocumented-exception")
    ctx.event("calls:" + name)
    ctx.check(LW.snapshot(circ_in) == snap, "input-unmodified", "C06:input-modified:" + name,
              "the input %s was modified by the call" % type(circ_in).__name__, **wit)
    out = res[0] if isinstance(res, tuple) else res
    bad = LW.malformed_moments(out)
    ctx.check(not bad, "moments-well-formed", "C06:malformed-output:" + name, lambda: "; ".join(bad[:3]), **wit)
    if bad:
        return None
    w2 = wit
    if "tags" in variant and ent.tags:
        _check_ignored(ctx, name, circ_in, out, deep=("deep" in variant and not ent.flattens and not ent.whole_ops), wit=w2)
    if "deep" not in variant and ent.deep != "always" and not ent.flattens:
        _check_subcircuits(ctx, name, circ_in, out, w2)
    return res


# ------------------------------------------------------------------ relations
def judge_unitary(ctx, case, name, out, tol, wit, monitor="unitary-preserved", mech=None, want=None):
    """U~: the output, lowered op by op, equals the reference unitary up to global phase."""
    want = case["U"] if want is None else want
    try:
        got = LW.lower_unitary_embed(out, case["qubits"])
    except LW.LowerError as e:
        ctx.check(False, monitor, mech or "C06:output-not-unitary:" + name, str(e), output=repr(out)[:3000], **wit)
        return False
    d = L.phase_diff(got, want)
    return ctx.check(d <= tol, monitor, mech or "C06:unitary-changed:" + name,
                     lambda: "output unitary differs from the input program's by %.3g (up to global phase, tolerance %.2g)" % (d, tol),
                     deviation=d, output=repr(out)[:3000], **wit)


def _explored(case, out, what):
    """cached explorer observations of an output circuit: 'dist' -> (distribution, total, over_budget); 'rho' -> (rho, over)"""
    cache = case.setdefault("cache", {})
    try:
        key = (what, out.freeze())
        hash(key)
    except TypeError:  # some channel gates are unhashable; no caching then
        key = (what, id(out))
        cache.pop(key, None)
    if key not in cache:
        if what == "dist":
            ex = LW.explore_records(out, max_paths=600)
            # (total includes the mass of alternatives too light to be explored, which is bounded and reported)
            cache[key] = (ex.distribution(), ex.total() + ex.cut_mass, ex.over_budget, ex.cut_mass)
        else:
            extra = sorted(set(out.all_qubits()) - set(case["qubits"]))
            if extra:
                cache[key] = (None, False, 0.0)
            else:
                rho, ex = LW.explore_average_state(out, case["qubits"], case["psi0"], max_paths=600, dm=(what == "rho-dm"))
                cache[key] = (rho, ex.over_budget, ex.cut_mass)
    return cache[key]


def _defer_bitmask_explains(case, got):
    """explained-by: the observed distribution is that of the program with every bitmask condition reading the latest
    instance (index -1) instead of the instance it names"""
    items = []
    for s_ in case["items"]:
        if s_["t"] == "C" and s_["cond"]["t"] == "bitmask":
            s_ = dict(s_, cond=dict(s_["cond"], index=-1))
        items.append(s_)
    alt = I.distribution(I.run(P.to_ref(items), case["dims"]))
    return L.tv_distance(got, alt) <= 1e-6 or L.tv_distance(_sorted_instances(got), _sorted_instances(alt)) <= 1e-6


def _sorted_instances(dist):
    out = {}
    for rec, p in dist.items():
        k = tuple((key, tuple(sorted(inst))) for key, inst in rec)
        out[k] = out.get(k, 0.0) + p
    return out


def judge_distribution(ctx, case, name, out, wit, mech=None, want=None):
    want = case["dist"] if want is None else want
    try:
        got, total, over, cut = _explored(case, out, "dist")
    except IndexError as e:
        # a condition that names a record index, run before that record exists (ClassicalDataStore.get_int): the same
        # "control moved in front of its measurement" as the ValueError below
        if not any(fr.name == "get_int" for fr in traceback.extract_tb(e.__traceback__)):
            raise
        ctx.check(False, "distribution-preserved", mech or "C06:control-before-measurement:" + name, "IndexError in get_int: %s" % e, output=repr(out)[:3000], **wit)
        return False
    except ValueError as e:
        if "Circuit has no measurements to sample" in str(e) and want:
            ctx.check(False, "distribution-preserved", mech or "C06:distribution-changed:" + name,
                      "the output has lost every measurement of the input program", output=repr(out)[:3000], **wit)
            return False
        if "missing when testing classical control" not in str(e) and "Measurement key" not in str(e):
            raise
        # the output reads a measurement key before it is written: a control was moved in front of its measurement
        ctx.check(False, "distribution-preserved", mech or "C06:control-before-measurement:" + name, str(e), output=repr(out)[:3000], **wit)
        return False
    if over:
        ctx.event("explorer-over-budget")
        return None
    tv = L.tv_distance(got, want)
    if tv > 1e-6 + cut and mech is None and L.tv_distance(_sorted_instances(got), _sorted_instances(want)) <= 1e-6:
        # explained-by: only the order of the instances recorded under a repeated key differs
        mech = K_KEY_ORDER + name
    elif tv > 1e-6 + cut and mech is None and name == "defer_measurements" and _defer_condition_facts()[1] and _defer_bitmask_explains(case, got):
        mech = K_DEFER_BITMASK  # (repaired in the repository: reported as a violation if it ever returns)
    if cut > 1e-5:
        ctx.event("explorer-unexplored-mass>1e-5")
        return None
    return ctx.check(tv <= 1e-6 + cut and abs(total - 1) < 1e-6, "distribution-preserved", mech or "C06:distribution-changed:" + name,
                     lambda: "exact record distribution of the output differs from the input program's by TV %.3g" % tv,
                     got={str(k): v for k, v in sorted(got.items(), key=lambda kv: -kv[1])[:8]},
                     want={str(k): v for k, v in sorted(want.items(), key=lambda kv: -kv[1])[:8]}, output=repr(out)[:3000], **wit)


def judge_state(ctx, case, name, out, wit, mech=None, want=None, dm=False):
    want = case["rho"] if want is None else want
    try:
        rho, over, cut = _explored(case, out, "rho-dm" if dm else "rho")
    except IndexError as e:
        if not any(fr.name == "get_int" for fr in traceback.extract_tb(e.__traceback__)):
            raise
        ctx.check(False, "average-state-preserved", mech or "C06:control-before-measurement:" + name, "IndexError in get_int: %s" % e, output=repr(out)[:3000], **wit)
        return False
    except ValueError as e:
        if "already logged to key" in str(e):
            # the simulators refuse the produced circuit: a key carries both/two channel-style and measurement-style records
            ctx.check(False, "average-state-preserved", K_DEPHASE_KEYS if name == "dephase_measurements" else "C06:output-not-simulable:" + name,
                      "the output circuit cannot be simulated: %s" % e, output=repr(out)[:3000], **wit)
            return False
        if "missing when testing classical control" not in str(e) and "Measurement key" not in str(e):
            raise
        ctx.check(False, "average-state-preserved", mech or "C06:control-before-measurement:" + name, str(e), output=repr(out)[:3000], **wit)
        return False
    if over:
        ctx.event("explorer-over-budget")
        return None
    if rho is None:
        ctx.check(False, "average-state-preserved", "C06:output-uses-new-qubits:" + name, "output acts on qubits the input does not have",
                  output=repr(out)[:3000], **wit)
        return False
    d = L.maxdiff(rho, want)
    if cut > 1e-5:
        ctx.event("explorer-unexplored-mass>1e-5")
        return None
    return ctx.check(d <= TOL + cut, "average-state-preserved", mech or "C06:average-state-changed:" + name,
                     lambda: "outcome-averaged final state of the output differs from the input program's by %.3g" % d,
                     deviation=d, output=repr(out)[:3000], **wit)


def judge(ctx, case, ent, out, kw, wit):
    """Apply the relation the registry documents for `ent` to one output."""
    nops = sum(1 for _ in case["circuit"].all_operations())
    if case["kind"] == "unitary":
        if ent.rel in ("U", "gauge"):
            return judge_unitary(ctx, case, ent.name, out, ent.tol(kw, nops), wit)
        return None
    if ent.rel in ("U", "gauge"):
        a = judge_distribution(ctx, case, ent.name, out, wit)
        b = judge_state(ctx, case, ent.name, out, wit)
        return a and b
    if ent.rel == "D":
        return judge_distribution(ctx, case, ent.name, out, wit)
    return None


# ------------------------------------------------------------------ registry
def _std(fn):
    """fn(circuit, *, context=...) -> callable(circuit, tctx, **kw); context=None is passed as 'argument omitted'."""
    def run(c, tctx, **kw):
        if tctx is None:
            return fn(c, **kw)
        return fn(c, context=tctx, **kw)
    return run


def build_registry():
    import cirq
    import cirq_google
    import cirq.transformers.gauge_compiling as GC

    T = cirq.transformers
    R = {}

    def add(name, rel, fn, **k):
        R[name] = Entry(name, rel, _std(fn) if fn is not None else None, **k)

    one_q = lambda op: len(op.qubits) == 1  # noqa
    two_q = lambda op: len(op.qubits) == 2  # noqa
    add("align_left", "U", T.align_left, atol_kw=None)
    add("align_right", "U", T.align_right, atol_kw=None)
    add("stratified_circuit", "U", T.stratified_circuit, atol_kw=None, kwsets=[
        ("default", {}), ("gate-types", {"categories": [cirq.ZPowGate, cirq.CZPowGate]}),
        ("predicates", {"categories": [one_q, two_q]}), ("gate+measure", {"categories": [cirq.X, cirq.MeasurementGate, cirq.CZ]}),
        ("op-type", {"categories": [cirq.CircuitOperation, cirq.ClassicallyControlledOperation]})])
    add("expand_composite", "U", T.expand_composite, atol_kw=None, flattens=True, kwsets=[
        ("default", {}), ("keep-1q", {"no_decomp": one_q}), ("keep-upto-2q", {"no_decomp": lambda op: len(op.qubits) <= 2})])
    add("eject_z", "U", T.eject_z, kwsets=[("default", {}), ("atol=1e-8", {"atol": 1e-8}), ("atol=1e-7", {"atol": 1e-7})])
    add("eject_phased_paulis", "U", T.eject_phased_paulis, kwsets=[("default", {}), ("atol=1e-7", {"atol": 1e-7})])
    add("merge_single_qubit_gates_to_phased_x_and_z", "U", T.merge_single_qubit_gates_to_phased_x_and_z,
        kwsets=[("default", {}), ("atol=1e-7", {"atol": 1e-7})])
    add("merge_single_qubit_gates_to_phxz", "U", T.merge_single_qubit_gates_to_phxz,
        kwsets=[("default", {}), ("atol=1e-7", {"atol": 1e-7}), ("merge_tags_fn", {"merge_tags_fn": lambda cop: ["c06-merged"]})])
    add("merge_single_qubit_moments_to_phxz", "U", T.merge_single_qubit_moments_to_phxz,
        kwsets=[("default", {}), ("atol=1e-7", {"atol": 1e-7})])
    add("merge_k_qubit_unitaries", "U", T.merge_k_qubit_unitaries, atol_kw=None, kwsets=[
        ("k=1", {"k": 1}), ("k=2", {"k": 2}), ("k=3", {"k": 3}),
        ("k=2,rewriter=unroll", {"k": 2, "rewriter": lambda cop: list(cop.mapped_circuit(deep=True).all_operations())}),
        ("k=1,rewriter=keep", {"k": 1, "rewriter": lambda cop: cop.with_tags("c06-kept")})],
        rejects=[(ValueError, r"k should be greater than or equal to 1")])
    # these treat a whole (unitary / negligible) CircuitOperation as one operation: nested ignored operations are only
    # required to survive together with their enclosing operation -> the ignored-op check looks at the top level
    for nm in ("merge_k_qubit_unitaries", "merge_single_qubit_gates_to_phased_x_and_z", "merge_single_qubit_gates_to_phxz",
               "merge_single_qubit_moments_to_phxz"):
        R[nm].whole_ops = True
    add("drop_empty_moments", "U", T.drop_empty_moments, atol_kw=None)
    add("drop_negligible_operations", "U", T.drop_negligible_operations,
        kwsets=[("default", {}), ("atol=1e-7", {"atol": 1e-7}), ("atol=1e-6", {"atol": 1e-6})])
    R["drop_negligible_operations"].whole_ops = True
    add("synchronize_terminal_measurements", "U", T.synchronize_terminal_measurements, atol_kw=None,
        kwsets=[("default", {}), ("after_other_operations=False", {"after_other_operations": False})])
    add("insertion_sort_transformer", "U", T.insertion_sort_transformer, atol_kw=None, tags=False)
    dd = [("default", {})] + [(s, {"schema": s}) for s in ("XX_PAIR", "X_XINV", "YY_PAIR", "Y_YINV", "DEFAULT")]
    dd += [("custom-YXYX", {"schema": (cirq.Y, cirq.X, cirq.Y, cirq.X)}), ("custom-X,X**-1", {"schema": (cirq.X, cirq.X ** -1)})]
    dd = dd + [(lbl + ",all-moments", dict(kw, single_qubit_gate_moments_only=False)) for lbl, kw in dd]
    add("add_dynamical_decoupling", "U", T.add_dynamical_decoupling, atol_kw=None, kwsets=dd, deep="reject",
        rejects=[(ValueError, r"Deep transformation is not supported")])
    tagrej = [(ValueError, r"doesn't support tags_to_ignore")]
    add("index_tags", "U", T.index_tags, atol_kw=None, tags=False, rejects=tagrej,
        kwsets=[("target=keep", {"target_tags": {OT}}), ("target=both", {"target_tags": {OT, IG}}), ("no-target", {})])
    add("remove_tags", "U", T.remove_tags, atol_kw=None, tags=False, rejects=tagrej,
        kwsets=[("target=keep", {"target_tags": {OT}}), ("remove_if=all", {"remove_if": lambda t: True}), ("default", {})])
    # D=: only the joint distribution of records is promised
    add("drop_diagonal_before_measurement", "D", T.drop_diagonal_before_measurement, atol_kw=None, on=("measured",))
    add("lightcone_filter", "D", T.lightcone_filter, atol_kw=None, on=("measured",), tags=False, deep="noop")
    add("defer_measurements", "D", T.defer_measurements, atol_kw=None, on=("measured",), tags=False, deep="always", flattens=True,
        rejects=[(NotImplementedError, r".")])
    # rho=: outcome-averaged final state, no records
    add("dephase_measurements", "R", T.dephase_measurements, atol_kw=None, on=("measured",), deep="always",
        rejects=[(ValueError, r"Use cirq.defer_measurements first")])
    add("drop_terminal_measurements", "R", T.drop_terminal_measurements, atol_kw=None, on=("measured",), deep="always",
        rejects=[(ValueError, r"non-terminal measurement"), (ValueError, r"`deep=True` is required")])
    # gauge: U~ for every draw of the transformer's own generator
    gdeep = [(ValueError, r"cannot be used with deep=True"), (ValueError, r"doesn't support deep")]
    for nm, obj in (("CZGaugeTransformer", GC.CZGaugeTransformer), ("ISWAPGaugeTransformer", GC.ISWAPGaugeTransformer),
                    ("SpinInversionGaugeTransformer", GC.SpinInversionGaugeTransformer), ("SqrtCZGaugeTransformer", GC.SqrtCZGaugeTransformer),
                    ("SqrtISWAPGaugeTransformer", GC.SqrtISWAPGaugeTransformer), ("CPhaseGaugeTransformer", GC.CPhaseGaugeTransformer),
                    ("SYCGaugeTransformer", cirq_google.transformers.SYCGaugeTransformer)):
        R[nm] = Entry(nm, "gauge", None, deep="reject", rejects=gdeep, atol_kw=None, on=("gauge",))
        R[nm].obj = obj
    R["IdleMomentsGauge"] = Entry("IdleMomentsGauge", "gauge", None, deep="reject", rejects=gdeep, atol_kw=None, on=("gauge",))
    R["IdleMomentsGauge"].obj = GC.IdleMomentsGauge
    R["CPhaseGaugeTransformerMM"] = Entry("CPhaseGaugeTransformerMM", "gauge", None, deep="reject", rejects=gdeep, atol_kw=None, on=("gauge",))
    R["CPhaseGaugeTransformerMM"].obj = GC.CPhaseGaugeTransformerMM
    R["GaugeTransformer"] = Entry("GaugeTransformer", "gauge", None, on=("via-instances",), note="generic class; exercised through its 7 shipped instances")
    R["MultiMomentGaugeTransformer"] = Entry("MultiMomentGaugeTransformer", "gauge", None, on=("via-instances",), note="abstract base of CPhaseGaugeTransformerMM")
    # sweep
    R["merge_single_qubit_gates_to_phxz_symbolized"] = Entry("merge_single_qubit_gates_to_phxz_symbolized", "sweep", None, on=("sweep",))
    R["symbolize_single_qubit_gates_by_indexed_tags"] = Entry("symbolize_single_qubit_gates_by_indexed_tags", "structure", None, on=("sweep",),
                                                                  rejects=[(ValueError, r"Multiple tags are prefixed")])
    R["RandomizedMeasurements"] = Entry("RandomizedMeasurements", "prefix+suffix", None, on=("special",))
    R["map_clean_and_borrowable_qubits"] = Entry("map_clean_and_borrowable_qubits", "rename", None, on=("special",))
    # delegated / not transformers
    R["optimize_for_target_gateset"] = Entry("optimize_for_target_gateset", "delegated", None, on=(), note="judged by C07")
    R["RouteCQC"] = Entry("RouteCQC", "delegated", None, on=(), note="judged by C07")
    R["TRANSFORMER"] = Entry("TRANSFORMER", "not-a-transformer", None, on=(), note="typing.Protocol describing the API")
    # primitives (callbacks supplied by the harness)
    for nm in ("map_moments", "map_operations", "map_operations_and_unroll", "merge_operations", "merge_operations_to_circuit_op",
               "merge_k_qubit_unitaries_to_circuit_op", "merge_moments", "merge_moments_batch", "unroll_circuit_op",
               "unroll_circuit_op_greedy_earliest", "unroll_circuit_op_greedy_frontier", "toggle_tags", "reverse_circuit"):
        R[nm] = Entry(nm, "U", None, on=("primitives",), atol_kw=None, flattens=nm.startswith("unroll") or nm == "map_operations_and_unroll")
        R[nm].obj = getattr(cirq.transformers.transformer_primitives, nm)
    return R


def public_transformer_names():
    """Names the tree exposes as transformers: callables / callable classes with a `context` parameter in the three public
    namespaces, plus the public circuit-taking functions of transformer_primitives."""
    import cirq
    import cirq_google
    import cirq.transformers.gauge_compiling as GC
    from cirq.transformers import transformer_primitives as TP

    found = {}
    for modname, mod in (("cirq.transformers", cirq.transformers), ("cirq.transformers.gauge_compiling", GC),
                         ("cirq_google.transformers", cirq_google.transformers)):
        for n in dir(mod):
            if n.startswith("_"):
                continue
            o = getattr(mod, n)
            if inspect.ismodule(o):
                continue
            try:
                target = getattr(o, "__call__", None) if inspect.isclass(o) else o
                has = target is not None and "context" in inspect.signature(target).parameters
            except (TypeError, ValueError):
                has = False
            if has:
                found.setdefault(n, modname)
    for n in dir(TP):
        o = getattr(TP, n)
        if n.startswith("_") or not inspect.isfunction(o) or o.__module__ != TP.__name__:
            continue
        params = list(inspect.signature(o).parameters)
        if params and params[0] == "circuit":
            found.setdefault(n, TP.__name__)
    if hasattr(cirq.transformers, "map_clean_and_borrowable_qubits"):
        found.setdefault("map_clean_and_borrowable_qubits", "cirq.transformers")
    return found


def setup(ctx):
    X.ensure_specs()
    # the worker keeps at most 40 violations per shard: store at most 3 witnesses per mechanism (the rest are counted as
    # events) so that frequent known mechanisms cannot crowd out a new one
    orig_fail, per_mech = ctx.fail, {}

    def fail(mech, msg, **witness):
        per_mech[mech] = per_mech.get(mech, 0) + 1
        if per_mech[mech] <= 3:
            orig_fail(mech, msg, **witness)
        else:
            ctx.event("more-witnesses:" + mech)

    ctx.fail = fail
    _S["reg"] = build_registry()
    pub = public_transformer_names()
    _S["public"] = pub
    missing = sorted(n for n in pub if n not in _S["reg"])
    if missing:
        ctx.inconclusive("transformers-not-in-registry:" + ",".join(missing))
    gone = sorted(n for n in _S["reg"] if n not in pub)
    if gone:
        ctx.inconclusive("registry-names-not-in-tree:" + ",".join(gone))
    ctx.extra["registry_size"] = len(_S["reg"]) if ctx.shard == 0 else 0
    ctx.extra["registry_matches_public_names"] = not missing and not gone


# ------------------------------------------------------------------ cases
def make_case(rng, items, n, kind, layout=None, empty_p=None, frozen=None):
    """Build the Cirq circuit (explicit moments) and, independently, the reference meaning of `items`."""
    import cirq

    dims = (2,) * n
    qubits = P.make_qubits(rng, dims)
    layout = layout or ["greedy", "serial", "random"][int(rng.integers(3))]
    empty_p = float(rng.choice([0.0, 0.0, 0.25])) if empty_p is None else empty_p
    moments = X.build_moments(items, qubits, rng, layout, empty_p)
    frozen = bool(rng.integers(2)) if frozen is None else frozen
    circuit = cirq.FrozenCircuit(moments) if frozen else cirq.Circuit(moments)
    case = {"items": items, "n": n, "dims": dims, "qubits": qubits, "layout": layout, "kind": kind, "circuit": circuit, "cache": {}}
    _S["current_case"] = case
    if X.has_block(items):
        ref = B.flat_to_ref(B.flatten(items))
    else:
        ref = P.to_ref(items)
    case["ref"] = ref
    if kind == "unitary":
        case["U"] = I.unitary_of(ref, dims)
    else:
        case["psi0"] = L.random_state(rng, 2 ** n)
        case["dist"] = I.distribution(I.run(ref, dims))
        case["rho"] = I.average_state(I.run(ref, dims, rho0=case["psi0"]))
    return case


def input_sanity(ctx, case):
    """The harness's own construction: the input circuit, observed the same way outputs are, means what the program means."""
    w = _wit(case)
    if case["kind"] == "unitary":
        return judge_unitary(ctx, case, "input", case["circuit"], 1e-7, w, monitor="harness-sanity", mech="C06:harness:input-circuit-vs-program")
    a = judge_distribution(ctx, case, "input", case["circuit"], w, mech="C06:harness:input-circuit-vs-program")
    b = judge_state(ctx, case, "input", case["circuit"], w, mech="C06:harness:input-circuit-vs-program")
    return bool(a) and bool(b)


def variants_for(ent, rng, blocks=False):
    vs = ["none", "plain"]
    if ent.tags:
        vs.append("tags")
    if ent.deep in ("yes", "reject", "noop") and (blocks or rng.random() < 0.3):
        vs.append("deep")
        if ent.tags:
            vs.append("tags+deep")
    return vs


def run_entry(ctx, rng, case, ent, label, kw, variant, changed):
    wit = _wit(case, transformer=ent.name, optionset=label)
    res = call(ctx, ent, case["circuit"], variant, kw, wit)
    if res is None:
        return None
    out = res
    w2 = dict(wit, options=_optdesc(kw), context=variant)
    judge(ctx, case, ent, out, kw, w2)
    if out != case["circuit"]:
        changed[0] += 1
    return out


# ------------------------------------------------------------------ section: unitary programs x all U-relation transformers
def _entries(on, rels):
    return [e for e in _S["reg"].values() if on in e.on and e.rel in rels and e.fn is not None]


def sec_unitary(ctx, rng, case_no):
    n = int(rng.integers(2, 6))
    nsteps = int(rng.integers(4, 26))
    items = X.add_tags(rng, X.gen_unitary(rng, n, nsteps))
    case = make_case(rng, items, n, "unitary")
    if not input_sanity(ctx, case):
        return
    changed = [0]
    for ent in _entries("unitary", ("U",)):
        ks = ent.kwsets
        picks = [ks[0]] + ([ks[int(rng.integers(1, len(ks)))]] if len(ks) > 1 else [])
        if ent.name == "add_dynamical_decoupling":
            picks = [ks[int(i)] for i in rng.choice(len(ks), size=3, replace=False)]
        vs = variants_for(ent, rng)
        for j, (label, kw) in enumerate(picks):
            variant = vs[int(rng.integers(len(vs)))] if j else vs[int(rng.integers(min(3, len(vs))))]
            run_entry(ctx, rng, case, ent, label, kw, variant, changed)
    ctx.distinct(tuple(X.describe(items)), nontrivial=changed[0] > 0 and not L.phase_equal(case["U"], np.eye(2 ** n), 1e-6))
    ctx.sample({"n": n, "layout": case["layout"], "program": X.describe(items)[:12], "transformer_calls_changing_the_circuit": changed[0]})


# ------------------------------------------------------------------ section: programs with measurements / control / resets
def _ref_dropped_terminal(items):
    """reference for drop_terminal_measurements: measurements replaced by X on the inverted qubits (state before collapse)"""
    out = []
    for s in items:
        if s["t"] == "M":
            mask = list(s.get("mask", ())) + [False] * (len(s["w"]) - len(s.get("mask", ())))
            for w, b in zip(s["w"], mask):
                if b:
                    out.append(I.U(np.array([[0, 1], [1, 0]], dtype=complex), (w,)))
        else:
            out.append(P.step_to_ref(s))
    return out


def judge_R(ctx, case, ent, out, wit, variant):
    """rho=: outcome-averaged final density matrix, no records promised."""
    if ent.name == "dephase_measurements":
        # observed with the density-matrix simulator, the use the docstring names (the keyed dephasing channels record
        # nothing there; the state-vector simulator refuses two channel records under one key)
        return judge_state(ctx, case, ent.name, out, wit, dm=True)
    # drop_terminal_measurements: state before collapse, invert masks turned into X; measurements carrying an ignored
    # tag stay where they are
    if X.has_block(case["items"]):
        return None
    import cirq

    ref, kept = [], 0
    for s in case["items"]:
        if s["t"] == "M" and "tags" in variant and IG in s.get("tags", ()):
            ref.append(P.step_to_ref(s))
            kept += 1
        else:
            ref += _ref_dropped_terminal([s])
    left = sum(1 for op in out.all_operations() if cirq.is_measurement(op))
    if left != kept:
        ctx.check(False, "average-state-preserved", "C06:terminal-measurement-left:" + ent.name,
                  "%d measurement(s) in the output, %d expected to stay" % (left, kept), output=repr(out)[:2000], **wit)
        return False
    if all(isinstance(s, I.U) for s in ref):
        return judge_unitary(ctx, case, ent.name, out, TOL, wit, monitor="average-state-preserved",
                             mech="C06:average-state-changed:" + ent.name, want=I.unitary_of(ref, case["dims"]))
    want = I.average_state(I.run(ref, case["dims"], rho0=case["psi0"]))
    return judge_state(ctx, case, ent.name, out, wit, want=want)


def sec_measured(ctx, rng, case_no):
    n = int(rng.integers(2, 5))
    mode = int(rng.integers(4))
    if mode == 0:  # unitary prefix + terminal measurements (domain of drop_terminal_measurements, synchronize, drop_diagonal)
        items = X.gen_unitary(rng, n, int(rng.integers(3, 14)), arity_w=(0.01, 0.55, 0.40, 0.04))
        used = set()
        for key in ("a", "b", "c")[: int(rng.integers(1, 4))]:
            free = [w for w in range(n) if w not in used]
            if not free:
                break
            k = min(len(free), int(rng.integers(1, 3)))
            ws = tuple(int(x) for x in rng.choice(free, size=k, replace=False))
            used |= set(ws)
            st = {"t": "M", "key": key, "w": ws}
            if rng.random() < 0.4:
                st["mask"] = tuple(bool(b) for b in rng.integers(0, 2, size=int(rng.integers(1, k + 1))))
            pos = len(items) if rng.random() < 0.6 else max(i + 1 for i in [-1] + [j for j, s in enumerate(items) if set(s["w"]) & set(ws)])
            items.insert(pos, st)
    else:
        items = X.gen_measured(rng, n, int(rng.integers(4, 15)), max_digits=5, allow_conf=(mode == 3), allow_ctrl=(mode != 1))
    X.add_tags(rng, items, p_ignore=0.10, p_other=0.08)
    case = make_case(rng, items, n, "measured")
    if not input_sanity(ctx, case):
        return
    has_ctrl = any(s["t"] == "C" for s in items)
    pool = []
    for ent in _entries("measured", ("U", "D", "R")):
        for label, kw in ent.kwsets:
            pool.append((ent, label, kw))
    rng.shuffle(pool)
    # always: one of each D/R transformer, then a random selection of the U ones
    chosen, seen = [], set()
    for ent, label, kw in pool:
        if ent.rel in ("D", "R") and ent.name not in seen:
            seen.add(ent.name)
            chosen.append((ent, label, kw))
    chosen += [x for x in pool if x[0].rel == "U"][:9]
    changed = [0]
    for ent, label, kw in chosen:
        if ctx.out_of_time():
            break
        vs = variants_for(ent, rng)
        if ent.name == "drop_terminal_measurements":
            if has_ctrl:
                continue  # classical controls reading a dropped measurement: outside what the pass documents
            vs = ["none", "tags+deep", "deep", "plain"]
        if ent.name == "dephase_measurements":
            vs = ["none", "deep", "plain", "tags+deep"]
        if ent.name == "defer_measurements":
            vs = ["none", "plain"]
        variant = vs[int(rng.integers(len(vs)))]
        wit = _wit(case, transformer=ent.name, optionset=label)
        res = call(ctx, ent, case["circuit"], variant, kw, wit)
        if res is None:
            continue
        w2 = dict(wit, options=_optdesc(kw), context=variant)
        if ent.name == "dephase_measurements" and has_ctrl:
            # documented: ValueError when the circuit contains classical controls; operations carrying a tag listed in
            # tags_to_ignore are, as for every transformer, not looked at - a circuit whose only controls are ignored is accepted
            seen_ctrl = [s for s in items if s["t"] == "C" and not ("tags" in variant and IG in (s.get("tags") or ()))]
            if not seen_ctrl:
                ctx.event("dephase_measurements:only-ignored-controls")
                continue
            only_tagged = all(s.get("tags") for s in seen_ctrl)
            ctx.check(False, "documented-rejection", K_DEPHASE_TAGGED if only_tagged else "C06:rejection-missing:dephase_measurements",
                      "no ValueError although the circuit contains classically controlled operations", output=repr(res)[:2500], **w2)
            continue
        if ent.rel == "R":
            judge_R(ctx, case, ent, res, w2, variant)
        else:
            judge(ctx, case, ent, res, kw, w2)
        if res != case["circuit"]:
            changed[0] += 1
    ctx.distinct(tuple(X.describe(items)), nontrivial=changed[0] > 0 and sum(1 for p in case["dist"].values() if p > 1e-6) >= 2)
    ctx.sample({"n": n, "mode": mode, "program": X.describe(items)[:12], "outcomes": len(case["dist"])})



# ------------------------------------------------------------------ section: nested / repeated sub-circuits, deep=True and deep=False
def gen_utree(rng, n, depth, nitems):
    items = []
    for _ in range(nitems):
        if depth > 0 and rng.random() < 0.3:
            body = gen_utree(rng, n, depth - 1, int(rng.integers(1, 5)))
            blk = {"t": "B", "body": body, "reps": int(rng.choice([1, 1, 2, 2, 3, -1, -2, 0] if B._is_unitary_items(body) else [1, 1, 2, 2, 3, 0])),
                   "ids": None, "use_ids": None, "qmap": {}, "kmap": {}}
            if rng.random() < 0.35:
                perm = [int(x) for x in rng.permutation(n)]
                blk["qmap"] = {w: perm[w] for w in range(n) if perm[w] != w}
            items.append(blk)
        elif rng.random() < 0.2 and n >= 2:
            items += X._motif(rng, n)
        else:
            items.append(X.gen_ustep(rng, n, arity_w=(0.02, 0.56, 0.38, 0.04)))
    return items


def _tag_tree(rng, items, depth=0):
    X.add_tags(rng, items, p_ignore=0.12, p_other=0.06)
    for it in items:
        if it["t"] == "B":
            _tag_tree(rng, it["body"], depth + 1)


def sec_deep(ctx, rng, case_no):
    measured = rng.random() < 0.35
    if measured:
        n = int(rng.integers(2, 4))
        for _ in range(12):
            items = B.gen_body(rng, n, depth=int(rng.integers(1, 3)), visible=set(), budget=[5], allow_measure=True,
                               pred=lambda s: "qudit" not in s.tags and len(s.shape) <= 2)
            flat = B.flatten(items)
            if X.has_block(items) and any(s["t"] == "M" for s in flat) and not B.flat_unbound_controls(flat):
                break
        else:
            raise Reject("generator: no block / no measurement")
    else:
        n = int(rng.integers(2, 5))
        items = gen_utree(rng, n, int(rng.integers(1, 3)), int(rng.integers(3, 9)))
        if not X.has_block(items):
            body_ = X.gen_unitary(rng, n, int(rng.integers(2, 6)))
            items.append({"t": "B", "body": body_, "reps": int(rng.choice([1, 2, -1] if B._is_unitary_items(body_) else [1, 2])), "ids": None,
                          "use_ids": None, "qmap": {}, "kmap": {}})
    if measured:
        # tags only at top level: a TaggedOperation inside a sub-circuit with repetition ids is not rescoped by Cirq
        # (TaggedOperation has no _with_rescoped_keys_; observed, belongs to C12) - keep the input inside the domain
        X.add_tags(rng, items, p_ignore=0.12, p_other=0.06)
    else:
        _tag_tree(rng, items)
    case = make_case(rng, items, n, "measured" if measured else "unitary", layout="greedy", empty_p=0.0)
    if not input_sanity(ctx, case):
        return
    ents = [e for e in _entries(case["kind"], ("U", "D")) if e.deep in ("yes", "noop", "always")]
    rng.shuffle(ents)
    changed = [0]
    for ent in ents[: (6 if measured else 14)]:
        if ctx.out_of_time():
            break
        label, kw = ent.kwsets[int(rng.integers(len(ent.kwsets)))]
        vs = ["deep", "plain", "none"] + (["tags+deep", "tags"] if ent.tags else [])
        if ent.name == "defer_measurements":
            vs = ["none", "plain"]
        for variant in {vs[int(rng.integers(len(vs)))], "deep" if ent.deep == "yes" else vs[0]}:
            run_entry(ctx, rng, case, ent, label, kw, variant, changed)
    nontriv = (sum(1 for p in case["dist"].values() if p > 1e-6) >= 2) if measured else not L.phase_equal(case["U"], np.eye(2 ** n), 1e-6)
    ctx.distinct(tuple(X.describe(items)), nontrivial=changed[0] > 0 and nontriv)
    ctx.sample({"n": n, "measured": bool(measured), "tree": X.describe(items)[:14]})



# ------------------------------------------------------------------ section: gauge transformers (own RNG), as_sweep
GAUGE_2Q = [(4, "CZ", None), (3, "CZPow", X._cz_es), (2, "SQRT_CZ", None), (1.5, "SQRT_CZ_INV", None), (2.5, "ISWAP", None),
            (2.5, "SQRT_ISWAP", None), (1, "SQRT_ISWAP_INV", None), (2.5, "ZZPow", X._es), (2.5, "SYC", None), (1, "FSim", X._fsim),
            (0.7, "CNOT", None)]
GAUGE_1Q = [(3, "PauliX", None), (3, "PauliY", None), (3, "PauliZ", None), (3, "ZPow", X._es), (1.5, "I1", None), (1.5, "H", None),
            (1.5, "S", None), (2, "PhasedXZ", X._pxz), (1.5, "XPow", X._es), (1, "PhasedXPow", X._pxp)]


def _gauge_program(rng, n, nsteps):
    pools = (X.POOL_0Q, GAUGE_1Q, GAUGE_2Q, X.POOL_3Q)
    return [X.gen_ustep(rng, n, arity_w=(0.0, 0.5, 0.5, 0.0), pools=pools) for _ in range(nsteps)]


def _resolve_all(ctx, out, sweep):
    import cirq

    rs = list(sweep)
    if not rs:
        rs = [cirq.ParamResolver({})]
    return [cirq.resolve_parameters(out, r) for r in rs]


def _sqrt_cz_mech(case, name, circ, variant, rerun):
    """explained-by test for the sqrt-CZ gauge finding: with every CZPowGate that the target gateset accepts as sqrt-CZ
    but that is not *exactly* CZ**0.5 (global shift, 0.5 +- 1e-9) replaced by the exact gate, the same call (same seed)
    satisfies the relation.  Returns the mechanism key or None (= default key)."""
    import cirq

    if name != "SqrtCZGaugeTransformer":
        return None
    try:
        got = LW.lower_unitary_embed(rerun(circ), case["qubits"])
        if L.phase_diff(got, case["U"]) <= TOL:
            return None
        touched = [0]

        target = cirq.transformers.SqrtCZGaugeTransformer.target
        exact = {0.5: np.diag([1, 1, 1, 1j]), -0.5: np.diag([1, 1, 1, -1j])}

        def fix(op):
            g = op.gate
            if g is None or len(op.qubits) != 2 or op not in target or g == cirq.CZ ** 0.5 or g == cirq.CZ ** -0.5:
                return op
            u = cirq.unitary(op, None)
            for e, m in exact.items():
                if u is not None and L.phase_equal(u, m, 1e-6):
                    touched[0] += 1
                    return (cirq.CZ ** e).on(*op.qubits).with_tags(*op.tags)
            return op

        c2 = cirq.Circuit([cirq.Moment([fix(op) for op in m.operations]) for m in circ.moments])
        if touched[0] and L.phase_diff(LW.lower_unitary_embed(rerun(c2), case["qubits"]), case["U"]) <= 1e-5:
            return K_SQRT_CZ
    except Exception:  # noqa
        return None
    return None


def sec_gauge(ctx, rng, case_no):
    import cirq

    n = int(rng.integers(2, 6))
    items = X.add_tags(rng, _gauge_program(rng, n, int(rng.integers(4, 20))), p_ignore=0.1, p_other=0.05)
    case = make_case(rng, items, n, "unitary", layout=["greedy", "serial", "random"][int(rng.integers(3))])
    if not input_sanity(ctx, case):
        return
    circ = case["circuit"]
    changed = [0]
    reg = _S["reg"]
    for name in ("CZGaugeTransformer", "ISWAPGaugeTransformer", "SpinInversionGaugeTransformer", "SqrtCZGaugeTransformer",
                 "SqrtISWAPGaugeTransformer", "CPhaseGaugeTransformer", "SYCGaugeTransformer"):
        ent = reg[name]
        for k in range(2):
            seed = int(rng.integers(1 << 30))
            variant = ["none", "plain", "tags", "tags", "deep"][int(rng.integers(5))]
            wit = _wit(case, transformer=name, prng_seed=seed)
            fn = lambda c, tctx, **kw: ent.obj(c, prng=np.random.default_rng(seed)) if tctx is None else ent.obj(c, context=tctx, prng=np.random.default_rng(seed))  # noqa
            out = call(ctx, ent, circ, variant, {}, wit, fn=fn)
            if out is None:
                continue
            judge_unitary(ctx, case, name, out, TOL, dict(wit, context=variant), monitor="gauge-unitary-preserved",
                          mech=_sqrt_cz_mech(case, name, circ, variant, lambda c: fn(c, _tctx(variant))))
            changed[0] += out != circ
        # as_sweep: every resolved instance implements the input
        seed = int(rng.integers(1 << 30))
        N = int(rng.integers(1, 4))
        variant = ["none", "tags"][int(rng.integers(2))]
        wit = _wit(case, transformer=name + ".as_sweep", prng_seed=seed, N=N)
        fn = lambda c, tctx, **kw: ent.obj.as_sweep(c, N=N, prng=np.random.default_rng(seed), **({} if tctx is None else {"context": tctx}))  # noqa
        res = call(ctx, ent, circ, variant, {}, wit, fn=fn)
        if res is None:
            continue
        out, sweep = res
        ok_len = len(sweep) in (N, 0) if not cirq.is_parameterized(out) else len(sweep) == N
        ctx.check(ok_len, "sweep-unitary-preserved", "C06:as_sweep-length:" + name, "sweep has %d points for N=%d" % (len(sweep), N), **wit)
        for i, rc in enumerate(_resolve_all(ctx, out, sweep)):
            if cirq.is_parameterized(rc):
                ctx.check(False, "sweep-unitary-preserved", "C06:as_sweep-unresolved-symbols:" + name, "symbols left: %r" % sorted(cirq.parameter_names(rc)), **wit)
                continue
            judge_unitary(ctx, case, name, rc, TOL, dict(wit, context=variant, sweep_index=i), monitor="sweep-unitary-preserved",
                          mech=_sqrt_cz_mech(case, name, circ, variant, lambda c: _resolve_all(ctx, *fn(c, _tctx(variant)))[i])
                          or "C06:as_sweep-unitary-changed:" + name)
    # IdleMomentsGauge
    ent = reg["IdleMomentsGauge"]
    for k in range(3):
        seed = int(rng.integers(1 << 30))
        opts = {"min_length": int(rng.integers(1, 3)), "gauges": ["pauli", "clifford", "inv_clifford", (cirq.X, cirq.S, cirq.H, cirq.Z ** 0.25)][int(rng.integers(4))],
                "gauge_beginning": bool(rng.integers(2)), "gauge_ending": bool(rng.integers(2))}
        variant = ["none", "plain", "tags", "deep"][int(rng.integers(4))]
        wit = _wit(case, transformer="IdleMomentsGauge", rng_seed=seed, init=_optdesc(opts))
        use_int = rng.random() < 0.3
        fn = lambda c, tctx, **kw: ent.obj(**opts)(c, rng_or_seed=seed if use_int else np.random.default_rng(seed), **({} if tctx is None else {"context": tctx}))  # noqa
        out = call(ctx, ent, circ, variant, {}, wit, fn=fn)
        if out is not None:
            judge_unitary(ctx, case, "IdleMomentsGauge", out, TOL, dict(wit, context=variant), monitor="gauge-unitary-preserved")
            changed[0] += out != circ
    # CPhaseGaugeTransformerMM
    ent = reg["CPhaseGaugeTransformerMM"]
    for k in range(2):
        seed = int(rng.integers(1 << 30))
        variant = ["none", "plain", "tags", "deep"][int(rng.integers(4))]
        wit = _wit(case, transformer="CPhaseGaugeTransformerMM", rng_seed=seed)
        fn = lambda c, tctx, **kw: ent.obj()(c, rng_or_seed=np.random.default_rng(seed), **({} if tctx is None else {"context": tctx}))  # noqa
        out = call(ctx, ent, circ, variant, {}, wit, fn=fn)
        if out is not None:
            judge_unitary(ctx, case, "CPhaseGaugeTransformerMM", out, TOL, dict(wit, context=variant), monitor="gauge-unitary-preserved")
            changed[0] += out != circ
    ctx.distinct(tuple(X.describe(items)), nontrivial=changed[0] > 0 and not L.phase_equal(case["U"], np.eye(2 ** n), 1e-6))
    ctx.sample({"n": n, "program": X.describe(items)[:12], "gauge_calls_changing_the_circuit": int(changed[0])})



# ------------------------------------------------------------------ section: transformer primitives with harness callbacks
def _ids(op):
    out = set()
    for t in op.tags:
        if isinstance(t, tuple) and t and t[0] in ("id", "ids"):
            out |= set(t[1:])
    return out


def _number(items, counter):
    """unique ("id", k) tag on every item (recursively)"""
    for it in items:
        it["tags"] = tuple(it.get("tags", ())) + (("id", counter[0]),)
        counter[0] += 1
        if it["t"] == "B":
            _number(it["body"], counter)


def _cb_decompose_once(op, _):
    import cirq

    d = cirq.decompose_once(op, None)
    return op if d is None else d


def _cb_split_1q(op, _):
    """1-qubit unitary -> three operations on the same qubit with the same product (spans several moments)"""
    import cirq

    if len(op.qubits) != 1 or not cirq.has_unitary(op):
        return op
    u = cirq.unitary(op)
    q = op.qubits[0]
    a = np.array([[1, 0], [0, 1j]])
    h = np.array([[1, 1], [1, -1]]) / math.sqrt(2)
    rest = u @ a.conj().T @ h.conj().T   # u = rest . h . a  ->  apply a, then h, then rest
    return [cirq.MatrixGate(a).on(q), cirq.MatrixGate(h).on(q), cirq.MatrixGate(rest).on(q)]


def _merge_func(max_qubits):
    import cirq

    def merge(op1, op2):
        if not (cirq.has_unitary(op1) and cirq.has_unitary(op2)):
            return None
        if isinstance(op1.untagged, cirq.CircuitOperation) or isinstance(op2.untagged, cirq.CircuitOperation):
            return None
        qs = list(op1.qubits) + [q for q in op2.qubits if q not in op1.qubits]
        if len(qs) > max_qubits:
            return None
        tag = ("ids",) + tuple(sorted(_ids(op1) | _ids(op2)))
        if not qs:
            return cirq.GlobalPhaseGate(complex(cirq.unitary(op1)[0, 0] * cirq.unitary(op2)[0, 0])).on().with_tags(tag)
        dims = (2,) * len(qs)
        u = L.embed(cirq.unitary(op2), [qs.index(q) for q in op2.qubits], dims) @ L.embed(cirq.unitary(op1), [qs.index(q) for q in op1.qubits], dims)
        return cirq.MatrixGate(u).on(*qs).with_tags(tag)

    return merge


def _keys_of(m):
    import cirq

    return {str(k) for k in cirq.measurement_key_objs(m)} | {str(k) for k in cirq.control_keys(m)}


def _merge_moments_cb(m1, m2):
    import cirq

    if m1.qubits & m2.qubits or _keys_of(m1) & _keys_of(m2):
        return None
    return cirq.Moment(m1.operations + m2.operations)


def _merge_batch_cb(ms):
    import cirq

    cur = ms[0]
    k = 1
    while k < len(ms) and not (cur.qubits & ms[k].qubits) and not (_keys_of(cur) & _keys_of(ms[k])):
        cur = cirq.Moment(cur.operations + ms[k].operations)
        k += 1
    return cur, ms[k:]


def _groups(out):
    """merged groups visible in an output: sets of input-operation ids that ended up in one operation"""
    import cirq

    gs = []
    for op in out.all_operations():
        u = op.untagged
        if isinstance(u, cirq.CircuitOperation) and any(str(t).startswith(CREATED_TAG_PREFIXES) for t in op.tags):
            g = set()
            for o in LW.all_ops_deep(u.circuit):
                g |= _ids(o)
            gs.append(g)
        else:
            g = _ids(op)
            if len(g) > 1:
                gs.append(g)
    return gs


def _jumped_left_across_key_conflict(circ_in, out):
    """Measurement/control pairs on one key (A before B in the input) that come out in the other order although A was NOT
    moved to a later moment: B was pulled left across A.  (Two measurements of one key are not tracked by the primitive at
    all - that is part of the recorded finding - so only measure/control pairs, which it does index, count here.)  (The recorded merge finding is the opposite motion: a key-carrying
    operation merged right into a later one and thereby carried behind its dependent.)  The merge primitives emit one
    output moment per input moment, so top-level moment indices are comparable."""
    import cirq

    if len(out) != len(circ_in):
        return []
    inp = {}
    for mi, m in enumerate(circ_in.moments):
        for op in m.operations:
            for k in _ids(op):
                inp[k] = (mi, {str(x) for x in cirq.measurement_key_objs(op)}, {str(x) for x in cirq.control_keys(op)})
    outpos = {}
    for mi, m in enumerate(out.moments):
        for op in m.operations:
            ids = set(_ids(op))
            u = op.untagged
            if isinstance(u, cirq.CircuitOperation) and any(str(t).startswith(CREATED_TAG_PREFIXES) for t in op.tags):
                for o in u.circuit.all_operations():
                    ids |= _ids(o)
            for k in ids:
                outpos[k] = mi
    bad = []
    ks = [k for k in inp if k in outpos]
    for a in ks:
        for b in ks:
            ia, ma, ca = inp[a]
            ib, mb, cb = inp[b]
            if ia < ib and (ma & cb or ca & mb) and outpos[a] > outpos[b] and outpos[a] <= ia:
                bad.append((a, b, ia, ib, outpos[a], outpos[b]))
    return bad


def _check_not_merged_across(ctx, name, circ_in, out, wit):
    where = {}
    for mi, m in enumerate(circ_in.moments):
        for op in m.operations:
            for k in _ids(op):
                where[k] = (mi, set(op.qubits), IG in op.tags)
    ignored = [(k, v) for k, v in where.items() if v[2]]
    if not ignored:
        return
    bad = []
    for g in _groups(out):
        for k, (mx, qx, _) in ignored:
            if k in g and len(g) > 1:
                bad.append(("ignored operation %r is part of a merged group" % (k,), sorted(g)))
                continue
            before = [a for a in g if a in where and where[a][0] < mx and where[a][1] & qx]
            after = [b for b in g if b in where and where[b][0] > mx and where[b][1] & qx]
            if before and after:
                bad.append(("group merged across ignored operation %r" % (k,), sorted(g)))
    ctx.check(not bad, "merge-not-across-ignored", "C06:merged-across-ignored-op:" + name, lambda: repr(bad[:3]), output=repr(out)[:3000], **wit)


def _judge_any(ctx, case, name, out, wit, tol=TOL, mech_suffix=None):
    if case["kind"] == "unitary":
        return judge_unitary(ctx, case, name, out, tol, wit)
    a = judge_distribution(ctx, case, name, out, wit)
    b = judge_state(ctx, case, name, out, wit)
    return a and b


def _satisfies(case, out):
    """quiet evaluation of the relation (used for explained-by tests)"""
    try:
        if case["kind"] == "unitary":
            return L.phase_diff(LW.lower_unitary_embed(out, case["qubits"]), case["U"]) <= TOL
        got, total, over, cut = _explored(case, out, "dist")
        rho, over2, cut2 = _explored(case, out, "rho")
        return (not over and not over2 and L.tv_distance(got, case["dist"]) <= 1e-6 + cut and rho is not None
                and L.maxdiff(rho, case["rho"]) <= TOL + cut2)
    except (LW.LowerError, ValueError, IndexError):  # (IndexError: a condition run before the record its index names)
        return False


def sec_primitives(ctx, rng, case_no):
    import cirq
    from cirq.transformers import transformer_primitives as TP

    r = rng.random()
    if r < 0.55:
        n = int(rng.integers(2, 6))
        items = X.gen_unitary(rng, n, int(rng.integers(4, 22)))
        kind = "unitary"
    elif r < 0.8:
        n = int(rng.integers(2, 5))
        items = gen_utree(rng, n, int(rng.integers(1, 3)), int(rng.integers(3, 9)))
        kind = "unitary"
    else:
        n = int(rng.integers(2, 4))
        items = X.gen_measured(rng, n, int(rng.integers(4, 12)), max_digits=4, allow_conf=False)
        kind = "measured"
    X.add_tags(rng, items, p_ignore=0.15, p_other=0.1)
    _number(items, [0])
    case = make_case(rng, items, n, kind, empty_p=0.0 if X.has_block(items) else None)
    if not input_sanity(ctx, case):
        return
    circ = case["circuit"]
    reg = _S["reg"]
    changed = [0]

    def go(name, fn, variant, label, judge_fn=None, flat=None):
        ent = reg[name]
        wit = _wit(case, transformer=name, optionset=label)
        res = call(ctx, ent, circ, variant, {}, wit, fn=fn)
        if res is None:
            return None
        w2 = dict(wit, context=variant)
        (judge_fn or (lambda o: _judge_any(ctx, case, name, o, w2)))(res)
        changed[0] += res != circ
        return res

    def kwargs(tctx, tags=True, deep=True):
        kw = {}
        if tctx is not None:
            if tags and tctx.tags_to_ignore:
                kw["tags_to_ignore"] = tctx.tags_to_ignore
            if deep and tctx.deep:
                kw["deep"] = True
        return kw

    V = ["none", "tags", "deep", "tags+deep"]
    pick = lambda: V[int(rng.integers(len(V)))]  # noqa
    # map_moments
    go("map_moments", lambda c, t: TP.map_moments(c, lambda m, i: m, **kwargs(t)), pick(), "identity")
    go("map_moments", lambda c, t: TP.map_moments(c, lambda m, i: [cirq.Moment([op]) for op in m] or [m], **kwargs(t)), pick(), "split-moment")
    go("map_moments", lambda c, t: TP.map_moments(c, lambda m, i: m if m else [], **kwargs(t)), pick(), "drop-empty")
    # map_operations / and_unroll
    for name in ("map_operations", "map_operations_and_unroll"):
        f = getattr(TP, name)
        for label, cb in (("decompose_once", _cb_decompose_once), ("split-1q-into-3", _cb_split_1q)):
            v = pick()
            o = go(name, lambda c, t: f(c, cb, **kwargs(t)), v, label)
            if o is not None and name == "map_operations" and rng.random() < 0.7:
                # unroll the wrapped results with the three unrollers (default tags_to_check = the mapped tag)
                case2 = dict(case, circuit=o, cache=case["cache"])
                for un in ("unroll_circuit_op", "unroll_circuit_op_greedy_earliest", "unroll_circuit_op_greedy_frontier"):
                    _unroll(ctx, rng, case2, un, {}, "after-map_operations")
    ent = reg["map_operations"]
    wit = _wit(case, transformer="map_operations", optionset="adds-qubits")
    other = cirq.NamedQubit("c06-extra")
    call(ctx, ent, circ, "none", {}, wit, fn=lambda c, t: TP.map_operations(c, lambda op, i: [op, cirq.X(other)]),
         extra_rejects=[(ValueError, r"should act on a subset")])
    # merge family
    mq = int(rng.integers(1, 4))
    v = pick()
    o = go("merge_operations", lambda c, t: TP.merge_operations(c, _merge_func(mq), **kwargs(t)), v, "matrix-product<=%dq" % mq)
    if o is not None and "tags" in v:
        _check_not_merged_across(ctx, "merge_operations", circ, o, _wit(case, optionset="matrix-product<=%dq" % mq, context=v))
    v = pick()
    can = lambda l, r_: all(cirq.has_unitary(x) for x in list(l) + list(r_)) and len({q for x in list(l) + list(r_) for q in x.qubits}) <= mq  # noqa
    o = go("merge_operations_to_circuit_op", lambda c, t: TP.merge_operations_to_circuit_op(c, can, merged_circuit_op_tag="c06-merged", **kwargs(t)), v, "unitary<=%dq" % mq)
    if o is not None and "tags" in v:
        _check_not_merged_across(ctx, "merge_operations_to_circuit_op", circ, o, _wit(case, context=v))
    # merging whatever is connected (measurements and classically controlled operations included): wrapping two operations
    # into one sub-circuit is locally meaning-preserving, so the primitive has to keep the rest of the program in order
    v = pick()
    can_any = lambda l, r_: len({q for x in list(l) + list(r_) for q in x.qubits}) <= mq  # noqa
    keyless = lambda x: not cirq.measurement_key_objs(x) and not cirq.control_keys(x)  # noqa
    can_keyless = lambda l, r_: can_any(l, r_) and all(keyless(x) for x in list(l) + list(r_))  # noqa

    def judge_merge_any(o):
        w2 = _wit(case, transformer="merge_operations_to_circuit_op", optionset="any<=%dq" % mq, context=v)
        if _satisfies(case, o):
            return _judge_any(ctx, case, "merge_operations_to_circuit_op", o, w2)
        # explained-by test for the known finding: merging is decided on qubits alone; when the same call restricted to
        # operations without measurement/control keys is fine, the deviation comes from a key-carrying operation that was
        # moved across an operation depending on its key
        try:
            alt = TP.merge_operations_to_circuit_op(circ, can_keyless, merged_circuit_op_tag="c06-merged", **kwargs(_tctx(v)))
            explained = _satisfies(case, alt)
        except Exception:  # noqa
            explained = False
        jumped = _jumped_left_across_key_conflict(circ, o)
        if jumped:
            # not the recorded motion (a key-carrying operation carried *right* behind its dependent)
            explained = False
            w2 = dict(w2, pulled_left_across_conflicting_key=jumped[:3])
        mech = K_MERGE_KEYS if explained else None
        a = judge_distribution(ctx, case, "merge_operations_to_circuit_op", o, w2, mech=mech)
        b = judge_state(ctx, case, "merge_operations_to_circuit_op", o, w2, mech=mech)
        return a and b
    go("merge_operations_to_circuit_op", lambda c, t: TP.merge_operations_to_circuit_op(c, can_any, merged_circuit_op_tag="c06-merged", **kwargs(t)), v, "any<=%dq" % mq,
       judge_fn=judge_merge_any if kind == "measured" else None)
    v = pick()
    k = int(rng.integers(1, 4))
    o = go("merge_k_qubit_unitaries_to_circuit_op", lambda c, t: TP.merge_k_qubit_unitaries_to_circuit_op(c, k, merged_circuit_op_tag="c06-merged-k", **kwargs(t)), v, "k=%d" % k)
    if o is not None and "tags" in v:
        _check_not_merged_across(ctx, "merge_k_qubit_unitaries_to_circuit_op", circ, o, _wit(case, context=v, k=k))
    go("merge_moments", lambda c, t: TP.merge_moments(c, _merge_moments_cb, **kwargs(t)), pick(), "disjoint-moments")
    go("merge_moments_batch", lambda c, t: TP.merge_moments_batch(c, _merge_batch_cb, **kwargs(t)), pick(), "disjoint-runs")
    # unrollers on the input itself (trees)
    if X.has_block(items):
        for un in ("unroll_circuit_op", "unroll_circuit_op_greedy_earliest", "unroll_circuit_op_greedy_frontier"):
            for kw in ({"tags_to_check": None, "deep": True}, {"tags_to_check": None}, {"tags_to_check": (OT,), "deep": bool(rng.integers(2))},
                       {"tags_to_check": (IG, OT)}):
                _unroll(ctx, rng, case, un, kw, "on-input")
    # toggle_tags
    deep = bool(rng.integers(2))

    def judge_toggle(o):
        _judge_any(ctx, case, "toggle_tags", o, _wit(case, transformer="toggle_tags"))
        a, b = list(circ.all_operations()), list(o.all_operations())
        def same(x, y):
            if isinstance(x.untagged, cirq.CircuitOperation) and deep:
                return isinstance(y.untagged, cirq.CircuitOperation) and x.qubits == y.qubits
            return x.untagged == y.untagged and set(y.tags) == set(x.tags) ^ {OT}

        ok = len(a) == len(b) and all(same(x, y) for x, y in zip(a, b))
        ctx.check(ok, "structure-as-documented", "C06:toggle_tags-structure", "tags are not op.tags ^ tags", output=repr(o)[:2000], **_wit(case))

    go("toggle_tags", lambda c, t: TP.toggle_tags(c, [OT], deep=deep), "deep" if deep else "none", "toggle-keep,deep=%s" % deep, judge_fn=judge_toggle)

    def judge_rev(o):
        back = TP.reverse_circuit(o)
        ok = list(o.all_operations()) == list(reversed(list(circ.all_operations()))) and back == circ.unfreeze() and len(o) == len(circ)
        ctx.check(ok, "structure-as-documented", "C06:reverse_circuit-structure", "not the reversed iteration order / not an involution", **_wit(case))

    go("reverse_circuit", lambda c, t: TP.reverse_circuit(c), "none", "reverse", judge_fn=judge_rev)
    nontriv = (sum(1 for p in case["dist"].values() if p > 1e-6) >= 2) if kind == "measured" else not L.phase_equal(case["U"], np.eye(2 ** n), 1e-6)
    ctx.distinct(tuple(X.describe(items)), nontrivial=changed[0] > 0 and nontriv)
    ctx.sample({"n": n, "kind": kind, "program": X.describe(items)[:10]})


def _unroll(ctx, rng, case, un, kw, label):
    """one unroller call; a failure of the greedy-EARLIEST variant that the moment-preserving variant does not share is
    the known Circuit.insert(EARLIEST) placement defect"""
    import cirq
    from cirq.transformers import transformer_primitives as TP

    ent = _S["reg"][un]
    circ = case["circuit"]
    wit = _wit(case, transformer=un, optionset=label, options=_optdesc(kw))
    res = call(ctx, ent, circ, "none", {}, wit, fn=lambda c, t: getattr(TP, un)(c, **kw))
    if res is None:
        return
    # structure: every circuit operation that had to be unrolled is gone
    tc = kw.get("tags_to_check", (TP.MAPPED_CIRCUIT_OP_TAG,))
    matching = [op for op in circ.all_operations()
                if isinstance(op.untagged, cirq.CircuitOperation) and (tc is None or set(tc) & set(op.tags))]
    left = [op for op in res.all_operations() if op.qubits and any(op is m for m in matching)]   # identity: an equal nested one may surface
    ctx.check(not left, "structure-as-documented", "C06:not-unrolled:" + un, lambda: "still present: %r" % (left[:1],), **wit)
    ok = _satisfies(case, res)
    mech = "C06:%s-changed:%s" % ("unitary" if case["kind"] == "unitary" else "distribution-or-state", un)
    if not ok and un == "unroll_circuit_op_greedy_earliest":
        try:
            plain = TP.unroll_circuit_op(circ, **kw)
            if _satisfies(case, plain):
                mech = KNOWN_GREEDY
        except Exception:  # noqa
            pass
    if not ok and un == "unroll_circuit_op_greedy_frontier" and case["kind"] == "measured":
        try:
            if _satisfies(case, TP.unroll_circuit_op(circ, **kw)) and any(cirq.control_keys(op) for op in LW.all_ops_deep(circ)):
                mech = K_FRONTIER
        except Exception:  # noqa
            pass
    mon = "unitary-preserved" if case["kind"] == "unitary" else "distribution-preserved"
    ctx.check(ok, mon, mech, "the unrolled circuit does not mean what the input means", output=repr(res)[:3000], **wit)



# ------------------------------------------------------------------ section: parameterized circuits and sweeps
SYM_1Q = ("XPow", "YPow", "ZPow", "HPow", "PhasedXPow")
SYM_2Q = ("CZPow", "ZZPow", "ISwapPow")


def _sym_program(rng, n, nsteps, npoints):
    """unitary program where some exponents are symbols; returns (items, {symbol: [values]})"""
    items = X.gen_unitary(rng, n, nsteps, arity_w=(0.0, 0.6, 0.4, 0.0))
    values = {}
    for it in items:
        if it["spec"] in SYM_1Q and rng.random() < 0.45 or it["spec"] in SYM_2Q and rng.random() < 0.3:
            name = "s%d" % len(values)
            values[name] = [X.c_exp(rng) for _ in range(npoints)]
            it["sym"] = name
    return items, values


def _sym_op(it, qubits):
    import sympy

    spec = P.spec_by_name(it["spec"])
    p = list(it["p"])
    if it.get("sym"):
        p[1 if it["spec"] == "PhasedXPow" else 0] = sympy.Symbol(it["sym"])
    op = spec.make(tuple(p)).on(*[qubits[w] for w in it["w"]])
    return op.with_tags(*it["tags"]) if it.get("tags") else op


def _sym_ref(items, values, i, dims):
    steps = []
    for it in items:
        spec = P.spec_by_name(it["spec"])
        p = list(it["p"])
        if it.get("sym"):
            p[1 if it["spec"] == "PhasedXPow" else 0] = values[it["sym"]][i]
        steps.append(I.U(spec.ref(tuple(p)), it["w"]))
    return I.unitary_of(steps, dims)


def sec_sweep(ctx, rng, case_no):
    import cirq
    import sympy

    n = int(rng.integers(2, 5))
    N = int(rng.integers(1, 4))
    items, values = _sym_program(rng, n, int(rng.integers(4, 16)), N)
    if not values:
        raise Reject("generator: no symbol drawn")
    X.add_tags(rng, items, p_ignore=0.1, p_other=0.05)
    dims = (2,) * n
    qubits = P.make_qubits(rng, dims)
    moments, cur, used = [], [], set()
    for it in items:
        if set(it["w"]) & used:
            moments.append(cirq.Moment(cur))
            cur, used = [], set()
        cur.append(_sym_op(it, qubits))
        used |= set(it["w"])
    moments.append(cirq.Moment(cur))
    circ = cirq.Circuit(moments) if rng.random() < 0.5 else cirq.FrozenCircuit(moments)
    sweep = cirq.Zip(*[cirq.Points(k, v) for k, v in values.items()])
    refs = [_sym_ref(items, values, i, dims) for i in range(N)]
    case = {"items": items, "n": n, "dims": dims, "qubits": qubits, "layout": "greedy", "kind": "unitary", "circuit": circ, "cache": {}, "U": refs[0]}
    base = dict(_wit(case), symbols={k: v for k, v in values.items()}, symbolic_steps=[(j, it["sym"]) for j, it in enumerate(items) if it.get("sym")])
    # harness sanity: the input, resolved, means what the program means
    for i, r in enumerate(sweep):
        judge_unitary(ctx, case, "input", cirq.resolve_parameters(circ, r), 1e-7, base, monitor="harness-sanity",
                      mech="C06:harness:input-circuit-vs-program", want=refs[i])
    nops = len(items)
    reg = _S["reg"]
    # merge_single_qubit_gates_to_phxz_symbolized
    ent = reg["merge_single_qubit_gates_to_phxz_symbolized"]
    f = cirq.transformers.merge_single_qubit_gates_to_phxz_symbolized
    for label, kw in (("default", {}), ("atol=1e-7", {"atol": 1e-7})):
        variant = ["none", "plain", "tags", "deep"][int(rng.integers(4))]
        if "tags" in variant and any(it.get("sym") and IG in it.get("tags", ()) for it in items):
            variant = "plain"  # an ignored operation that is itself to be symbolized: no documented meaning (raises ValueError)
        wit = dict(base, transformer=ent.name, optionset=label)
        fn = lambda c, t, **k: f(c, sweep=sweep, **k) if t is None else f(c, context=t, sweep=sweep, **k)  # noqa
        res = call(ctx, ent, circ, variant, kw, wit, fn=fn)
        if res is None:
            continue
        out, new_sweep = res
        w2 = dict(wit, context=variant, output_sweep=repr(new_sweep)[:1500])
        if not ctx.check(len(new_sweep) == N, "sweep-unitary-preserved", "C06:symbolized-sweep-length", "returned sweep has %d points, input %d" % (len(new_sweep), N), **w2):
            continue
        for i, r in enumerate(new_sweep):
            rc = cirq.resolve_parameters(out, r)
            if cirq.is_parameterized(rc):
                ctx.check(False, "sweep-unitary-preserved", "C06:symbolized-unresolved-symbols", "symbols left after resolving with the returned sweep: %r" % sorted(cirq.parameter_names(rc)), **w2)
                break
            judge_unitary(ctx, case, ent.name, rc, ent.tol(kw, nops), dict(w2, sweep_index=i), monitor="sweep-unitary-preserved",
                          mech="C06:sweep-unitary-changed:" + ent.name, want=refs[i])
    # passes documenting symbolic support: eject_parameterized
    for name in ("eject_z", "eject_phased_paulis"):
        ent = reg[name]
        for ep in (True, False):
            kw = {"eject_parameterized": ep}
            variant = ["none", "plain", "tags"][int(rng.integers(3))]
            wit = dict(base, transformer=name, optionset="eject_parameterized=%s" % ep)
            out = call(ctx, ent, circ, variant, kw, wit)
            if out is None:
                continue
            for i, r in enumerate(sweep):
                rc = cirq.resolve_parameters(out, r)
                if cirq.is_parameterized(rc):
                    ctx.check(False, "sweep-unitary-preserved", "C06:new-symbols:" + name, "%r" % sorted(cirq.parameter_names(rc)), **wit)
                    break
                judge_unitary(ctx, case, name, rc, ent.tol(kw, nops), dict(wit, context=variant, sweep_index=i), monitor="sweep-unitary-preserved",
                              mech="C06:sweep-unitary-changed:" + name, want=refs[i])
    # symbolize_single_qubit_gates_by_indexed_tags: structural contract
    ent = reg["symbolize_single_qubit_gates_by_indexed_tags"]
    prefix = ["TO-PHXZ", "phxz", "c06"][int(rng.integers(3))]
    ops_in = list(circ.all_operations())
    oneq = [j for j, op in enumerate(ops_in) if len(op.qubits) == 1]
    chosen = {int(j): k for k, j in enumerate(rng.permutation(oneq)[: int(rng.integers(1, 4))])} if oneq else {}
    double = rng.random() < 0.1 and chosen
    j = 0
    tagged_moments = []
    for m in circ.moments:
        new = []
        for op in m.operations:
            if j in chosen:
                op = op.with_tags("%s_%d" % (prefix, chosen[j]), *(["%s_%d" % (prefix, 99)] if double else []))
            new.append(op)
            j += 1
        tagged_moments.append(cirq.Moment(new))
    tcirc = cirq.Circuit(tagged_moments)
    variant = ["none", "plain", "tags", "deep"][int(rng.integers(4))]
    kw = {} if prefix == "TO-PHXZ" and rng.random() < 0.5 else {"symbolize_tag": cirq.transformers.SymbolizeTag(prefix=prefix)}
    wit = dict(base, transformer=ent.name, prefix=prefix, tagged_positions=sorted(chosen), circuit=repr(tcirc)[:3000])
    out = call(ctx, ent, tcirc, variant, kw, wit, fn=_std(cirq.transformers.symbolize_single_qubit_gates_by_indexed_tags))
    if out is not None:
        a, b = list(tcirc.all_operations()), list(out.all_operations())
        ok = len(a) == len(b) and len(out) == len(tcirc)
        why = "operation count / depth changed"
        for idx, (x, y) in enumerate(zip(a, b)):
            if not ok:
                break
            k = chosen.get(idx)
            if k is None or ("tags" in variant and IG in x.tags):
                ok, why = (x == y and tuple(x.tags) == tuple(y.tags)), "untagged-for-symbolizing operation %d changed: %r -> %r" % (idx, x, y)
            else:
                want = cirq.PhasedXZGate(x_exponent=sympy.Symbol("x%d" % k), z_exponent=sympy.Symbol("z%d" % k), axis_phase_exponent=sympy.Symbol("a%d" % k))
                ok = y.gate == want and y.qubits == x.qubits and set(y.tags) == set(x.tags) - {"%s_%d" % (prefix, k)}
                why = "operation %d tagged %s_%d became %r" % (idx, prefix, k, y)
        ctx.check(ok, "structure-as-documented", "C06:symbolize-by-tags-structure", why, output=repr(out)[:2500], **wit)
    ctx.distinct(tuple(X.describe(items)) + tuple(sorted(values)), nontrivial=True)
    ctx.sample({"n": n, "N": N, "program": X.describe(items)[:10], "symbols": sorted(values)})


# ------------------------------------------------------------------ section: random pipelines of 2-3 transformers
def cirq_has_unitary(op):
    import cirq

    return cirq.has_unitary(op)


def _satisfies_rel(case, out, rel):
    try:
        got, total, over, cut = _explored(case, out, "dist")
        if over or L.tv_distance(got, case["dist"]) > 1e-6 + cut:
            return False
        if rel == "D":
            return True
        rho, over2, cut2 = _explored(case, out, "rho")
        return not over2 and rho is not None and L.maxdiff(rho, case["rho"]) <= TOL + cut2
    except (ValueError, IndexError):
        return False


def sec_pipeline(ctx, rng, case_no):
    measured = rng.random() < 0.3
    if measured:
        n = int(rng.integers(2, 4))
        items = X.gen_measured(rng, n, int(rng.integers(4, 12)), max_digits=4, allow_conf=False)
    else:
        n = int(rng.integers(2, 6))
        items = X.gen_unitary(rng, n, int(rng.integers(4, 22)))
    X.add_tags(rng, items)
    case = make_case(rng, items, n, "measured" if measured else "unitary")
    if not input_sanity(ctx, case):
        return
    rels = ("U", "D") if measured else ("U",)
    ents = [e for e in _entries(case["kind"], rels) if e.name not in ("defer_measurements",)]
    for trial in range(3 if not measured else 2):
        k = int(rng.integers(2, 4))
        stages = [ents[int(i)] for i in rng.choice(len(ents), size=k, replace=False)]
        variant = ["none", "plain", "tags"][int(rng.integers(3))]
        cur = case["circuit"]
        names, tol, weakest = [], 0.0, "U"
        nops = len(items)
        ok = True
        trail = []
        for ent in stages:
            label, kw = ent.kwsets[int(rng.integers(len(ent.kwsets)))]
            v = variant if (ent.tags or "tags" not in variant) else "plain"
            wit = _wit(case, transformer=ent.name, optionset=label, pipeline=names + [ent.name], stage_input=repr(cur)[:2500])
            res = call(ctx, ent, cur, v, kw, wit)
            if res is None:
                ok = False
                break
            names.append("%s[%s]" % (ent.name, label))
            tol += ent.tol(kw, nops)
            weakest = "D" if ent.rel == "D" else weakest
            cur = res
            trail.append((ent, kw, res, dict(wit, context=v, options=_optdesc(kw))))
        if not ok:
            continue
        # the final circuit must satisfy the weakest relation of the stages; when it does not, the first stage whose own
        # output breaks the relation (all earlier outputs still mean what the program means) is reported by its own key
        if not measured:
            final_ok = L.phase_diff(LW.lower_unitary_embed(cur, case["qubits"]), case["U"]) <= tol if all(
                cirq_has_unitary(op) for op in cur.all_operations()) else False
        else:
            final_ok = _satisfies_rel(case, cur, weakest)
        blamed = False
        if not final_ok:
            seen_d = False
            for ent, kw, res, w in trail:
                seen_d = seen_d or ent.rel == "D"
                if not measured:
                    r = judge_unitary(ctx, case, ent.name, res, ent.tol(kw, nops) * len(trail), w)
                elif seen_d:
                    r = judge_distribution(ctx, case, ent.name, res, w)
                else:
                    r = judge_distribution(ctx, case, ent.name, res, w) and judge_state(ctx, case, ent.name, res, w)
                if r is False:
                    blamed = True
                    break
        ctx.check(final_ok or blamed, "pipeline-preserved", "C06:pipeline:" + "+".join(sorted(e.name for e in stages)),
                  "the pipeline's output breaks the relation although every stage output satisfies it", output=repr(cur)[:3000],
                  **_wit(case, pipeline=names, context=variant))
    ctx.distinct(tuple(X.describe(items)), nontrivial=True)
    ctx.sample({"n": n, "measured": bool(measured), "program": X.describe(items)[:8], "last_pipeline": names})



# ------------------------------------------------------------------ section: special contracts and documented rejections
def _clifford_group():
    h = np.array([[1, 1], [1, -1]], dtype=complex) / math.sqrt(2)
    sg = np.diag([1, 1j]).astype(complex)
    group = [np.eye(2, dtype=complex)]
    frontier = list(group)
    while frontier:
        new = []
        for g in frontier:
            for m in (h, sg):
                c = m @ g
                if not any(L.phase_equal(c, x, 1e-9) for x in group):
                    group.append(c)
                    new.append(c)
        frontier = new
    return group


def _randomized_measurements(ctx, rng):
    import cirq

    n = int(rng.integers(1, 5))
    items = X.gen_unitary(rng, n, int(rng.integers(1, 8)))
    case = make_case(rng, items, n, "unitary")
    circ = case["circuit"]
    present = sorted(circ.all_qubits())
    if not present:
        raise Reject("generator: circuit without qubits")
    sub = None if rng.random() < 0.4 else sorted(int(x) for x in rng.choice(len(present), size=int(rng.integers(1, len(present) + 1)), replace=False))
    ens = ["pauli", "clifford", "cue", "PAULI"][int(rng.integers(4))]
    seed = int(rng.integers(1 << 30))
    ent = _S["reg"]["RandomizedMeasurements"]
    wit = _wit(case, transformer=ent.name, subsystem=sub, unitary_ensemble=ens, rng_seed=seed)
    variant = ["none", "plain"][int(rng.integers(2))]
    fn = lambda c, t: cirq.transformers.RandomizedMeasurements(sub)(c, unitary_ensemble=ens, rng=np.random.default_rng(seed), **({} if t is None else {"context": t}))  # noqa
    out = call(ctx, ent, circ, variant, {}, wit, fn=fn)
    if out is None:
        return
    qs = present if sub is None else [present[k] for k in sub]
    ok = len(out) == len(circ) + 2 and list(out.moments[: len(circ)]) == list(circ.moments)
    why = "input is not an unchanged prefix followed by exactly two moments"
    if ok:
        rot, meas = out.moments[-2], out.moments[-1]
        if "_C" not in _S:
            _S["_C"] = _clifford_group()
        from vf.refmodel import gates as G
        allowed = {"pauli": [G.ry(-math.pi / 2), G.rx(math.pi / 2), np.eye(2)], "clifford": _S["_C"], "cue": None}[ens.lower()]
        ok = set(rot.qubits) <= set(qs) and all(len(op.qubits) == 1 for op in rot.operations)
        why = "rotation layer acts outside the subsystem"
        for op in rot.operations:
            u = cirq.unitary(op, None)
            if u is None or not L.is_unitary(u, 1e-7) or (allowed is not None and not any(L.phase_equal(u, a, 1e-7) for a in allowed)):
                ok, why = False, "rotation %r is not a member of the %s ensemble" % (op, ens)
        mops = list(meas.operations)
        if ok:
            g = mops[0].gate if len(mops) == 1 else None
            ok = (isinstance(g, cirq.MeasurementGate) and g.key == "m" and list(mops[0].qubits) == list(qs) and not any(g.full_invert_mask())
                  and not g.confusion_map)
            why = "last moment is not one plain measurement 'm' of the subsystem in qubit order"
    ctx.check(ok, "structure-as-documented", "C06:randomized-measurements-structure", why, output=repr(out)[-2500:], **wit)


def _clean_borrow(ctx, rng):
    """map_clean_and_borrowable_qubits: system unitary unchanged when the placeholder qubits are used properly."""
    import cirq

    ns = int(rng.integers(2, 4))
    sysq = P.make_qubits(rng, (2,) * ns, kind=["line", "named", "grid"][int(rng.integers(3))])
    steps = []   # (spec name, params, wires) over wires: 0..ns-1 system, then placeholders
    place = []   # placeholder qubits in wire order
    def U(k=None):
        for _ in range(int(rng.integers(1, 4)) if k is None else k):
            st = X.gen_ustep(rng, ns, arity_w=(0.0, 0.6, 0.4, 0.0))
            steps.append((st["spec"], st["p"], st["w"]))
    U()
    for blk in range(int(rng.integers(1, 4))):
        w = ns + len(place)
        a, b = (int(x) for x in rng.choice(ns, size=2, replace=False))
        if rng.random() < 0.55:
            place.append(cirq.ops.CleanQubit(len(place), prefix="c06clean"))
            # compute a -> anc, use anc as control on b, uncompute
            steps.append(("CNOT", (), (a, w)))
            steps.append((["CZ", "CNOT"][int(rng.integers(2))], (), (w, b)))
            if rng.random() < 0.5:
                st = X.gen_ustep(rng, ns, arity_w=(0.0, 1.0, 0.0, 0.0))
                if st["w"][0] not in (a,):
                    steps.append((st["spec"], st["p"], st["w"]))
            steps.append(("CNOT", (), (a, w)))
        else:
            place.append(cirq.ops.BorrowableQubit(len(place), prefix="c06borrow"))
            # toggle detection: the borrowed qubit returns to whatever state it had
            steps += [("CNOT", (), (a, w)), ("CNOT", (), (w, b)), ("CNOT", (), (a, w)), ("CNOT", (), (w, b))]
        if rng.random() < 0.6:
            U(int(rng.integers(1, 3)))
    nt = ns + len(place)
    dims = (2,) * nt
    ref = [I.U(P.spec_by_name(nm).ref(p), w) for nm, p, w in steps]
    V = I.unitary_of(ref, dims)
    # the system part (placeholders start in |0>): block of V with placeholder digits 0 -> 0
    t = V.reshape((2,) * (2 * nt))
    idx = tuple([slice(None)] * ns + [0] * (nt - ns) + [slice(None)] * ns + [0] * (nt - ns))
    Vs = t[idx].reshape(2 ** ns, 2 ** ns)
    if not L.is_unitary(Vs, 1e-7):
        raise Reject("generator: placeholder use not clean")
    allq = list(sysq) + place
    ops = [P.spec_by_name(nm).make(p).on(*[allq[x] for x in w]) for nm, p, w in steps]
    layout = rng.random() < 0.5
    circ = cirq.Circuit(ops) if layout else cirq.Circuit([cirq.Moment([o]) for o in ops])
    if rng.random() < 0.5:
        circ = circ.freeze()
    ent = _S["reg"]["map_clean_and_borrowable_qubits"]
    case = {"items": [{"t": "U", "spec": nm, "p": p, "w": w} for nm, p, w in steps], "n": nt, "qubits": allq, "circuit": circ}
    wit = _wit(case, transformer=ent.name, system_wires=ns)
    use_qm = rng.random() < 0.5
    fn = lambda c, t_: cirq.map_clean_and_borrowable_qubits(c, **({"qm": cirq.GreedyQubitManager(prefix="c06anc", maximize_reuse=bool(rng.integers(2)))} if use_qm else {}))  # noqa
    out = call(ctx, ent, circ, "none", {}, wit, fn=fn)
    if out is None:
        return
    left = [q for q in out.all_qubits() if isinstance(q, (cirq.ops.CleanQubit, cirq.ops.BorrowableQubit))]
    ctx.check(not left, "structure-as-documented", "C06:placeholder-qubits-left", "placeholder qubits remain: %r" % left, output=repr(out)[:2500], **wit)
    extra = sorted(set(out.all_qubits()) - set(sysq))
    if left or len(extra) > 4:
        return
    order = list(sysq) + extra
    try:
        W = LW.lower_unitary_embed(out, order)
    except LW.LowerError as e:
        ctx.check(False, "unitary-preserved", "C06:output-not-unitary:" + ent.name, str(e), **wit)
        return
    ne = len(extra)
    tw = W.reshape((2,) * (2 * (ns + ne)))
    idx = tuple([slice(None)] * ns + [0] * ne + [slice(None)] * ns + [0] * ne)
    Ws = tw[idx].reshape(2 ** ns, 2 ** ns)
    d = L.phase_diff(Ws, Vs)
    ctx.check(d <= TOL and L.is_unitary(Ws, 1e-6), "unitary-preserved", "C06:unitary-changed:" + ent.name,
              "action on the system qubits (allocated qubits |0> -> |0>) differs from the input's by %.3g" % d, output=repr(out)[:3000], **wit)
    ctx.distinct(("cb", tuple(repr(s_) for s_ in steps)), nontrivial=True)


def _rejections(ctx, rng):
    """documented errors for unsupported arguments"""
    import cirq
    import cirq.transformers.gauge_compiling as GC

    q = cirq.LineQubit.range(2)
    c = cirq.Circuit(cirq.H(q[0]), cirq.CZ(*q), cirq.X(q[1]).with_tags("TO-PHXZ_0", "TO-PHXZ_1"))
    reg = _S["reg"]
    tests = [
        ("merge_k_qubit_unitaries", lambda: cirq.merge_k_qubit_unitaries(c, k=0), ValueError, r"k should be greater"),
        ("index_tags", lambda: cirq.index_tags(c, context=cirq.TransformerContext(tags_to_ignore=("a",)), target_tags={"b"}), ValueError, r"doesn't support tags_to_ignore"),
        ("remove_tags", lambda: cirq.remove_tags(c, context=cirq.TransformerContext(tags_to_ignore=("a",))), ValueError, r"doesn't support tags_to_ignore"),
        ("add_dynamical_decoupling", lambda: cirq.add_dynamical_decoupling(c, schema="NOPE"), ValueError, r"Invalid schema name"),
        ("add_dynamical_decoupling", lambda: cirq.add_dynamical_decoupling(c, schema=(cirq.X, cirq.Y)), ValueError, r"sequence product equals"),
        ("add_dynamical_decoupling", lambda: cirq.add_dynamical_decoupling(c, schema=(cirq.H, cirq.H)), ValueError, r"essentially\s+Pauli"),
        ("add_dynamical_decoupling", lambda: cirq.add_dynamical_decoupling(c, schema=(cirq.X,)), ValueError, r"more than one"),
        ("IdleMomentsGauge", lambda: GC.IdleMomentsGauge(1, gauges="nope"), ValueError, r"not a valid gauge name"),
        ("IdleMomentsGauge", lambda: GC.IdleMomentsGauge(0), ValueError, r"."),
        ("symbolize_single_qubit_gates_by_indexed_tags", lambda: cirq.symbolize_single_qubit_gates_by_indexed_tags(c), ValueError, r"Multiple tags"),
        ("drop_terminal_measurements", lambda: cirq.drop_terminal_measurements(cirq.Circuit(cirq.measure(q[0], key="a"), cirq.X(q[0]))), ValueError, r"non-terminal"),
        ("drop_terminal_measurements", lambda: cirq.drop_terminal_measurements(c, context=cirq.TransformerContext(deep=False)), ValueError, r"deep=True"),
        ("dephase_measurements", lambda: cirq.dephase_measurements(cirq.Circuit(cirq.measure(q[0], key="a"), cirq.X(q[1]).with_classical_controls("a"))), ValueError, r"defer_measurements first"),
        ("RandomizedMeasurements", lambda: cirq.transformers.RandomizedMeasurements()(c, unitary_ensemble="haar"), ValueError, r"Only pauli, clifford and cue"),
        ("stratified_circuit", lambda: cirq.stratified_circuit(c, categories=[3]), TypeError, r"Unrecognized classifier type"),
    ]
    name, f, exc, pat = tests[int(rng.integers(len(tests)))]
    try:
        f()
    except exc as e:
        ok = re.search(pat, str(e)) is not None
        ctx.check(ok, "documented-rejection", "C06:rejection-message:" + name, "message %r does not match %r" % (str(e)[:200], pat))
        ctx.reject(name + ":" + pat[:30])
        return
    ctx.check(False, "documented-rejection", "C06:rejection-missing:" + name, "the documented %s was not raised" % exc.__name__)


def sec_special(ctx, rng, case_no):
    k = int(rng.integers(5))
    if k in (0, 1):
        _randomized_measurements(ctx, rng)
        ctx.distinct(("rm", case_no), nontrivial=True)
    elif k in (2, 3):
        _clean_borrow(ctx, rng)
    else:
        _rejections(ctx, rng)


SECTIONS = [
    ("unitary", sec_unitary, 224, 6000, 5.0),
    ("measured", sec_measured, 98, 2600, 5.0),
    ("deep", sec_deep, 196, 4000, 3.0),
    ("gauge", sec_gauge, 196, 4500, 2.0),
    ("primitives", sec_primitives, 182, 4000, 3.0),
    ("sweep", sec_sweep, 210, 4000, 1.0),
    ("pipeline", sec_pipeline, 196, 4000, 1.0),
    ("special", sec_special, 420, 6000, 0.3),
]
