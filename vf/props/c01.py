"""C01 - unitary simulation equals the ordered product of operation matrices.

One abstract unitary program is pushed through every simulation entry point x
option combination; every observation is compared with the single reference
value computed from catalogue matrices by numpy contraction."""
from __future__ import annotations

import itertools

import numpy as np

from vf.refmodel import interp as I
from vf.refmodel import linalg as L
from vf.workloads import gatepool as GP
from vf.workloads import programs as P

LEVEL = "exploration"
RULE = ("abstract unitary programs over the gate catalogue (qubits and qudits, 1-6 wires, <=30 ops, explicit moment "
        "structure incl. zero-qubit global phases); each is observed through Circuit.unitary, final_state_vector, "
        "Simulator.simulate / simulate_moment_steps / simulate_sweep, DensityMatrixSimulator.simulate and the classical "
        "simulator under option combinations (dtype x split_untangled_states x initial-state form x qubit order); "
        "non-trivial = reference unitary differs from identity by >1e-6 and program has >=2 operations; distinct by program text")
ASSUMPTIONS = ["catalogue matrices (C03) are the ground truth", "complex64 tolerance 1e-4, complex128 1e-7"]
MIN_EVAL = {"Circuit.unitary": 100, "Simulator.simulate": 300, "DensityMatrixSimulator.simulate": 100,
            "simulate_moment_steps": 100, "simulate_sweep": 50, "ClassicalStateSimulator": 50}
MUST_REACH = [
    "cirq/circuits/circuit.py:_apply_unitary_circuit",
    "cirq/protocols/apply_unitary_protocol.py:apply_unitaries",
    "cirq/protocols/apply_unitary_protocol.py:_incorporate_result_into_target",
    "cirq/sim/simulation_product_state.py:SimulationProductState._act_on_fallback_",
    "cirq/sim/simulation_product_state.py:SimulationProductState.create_merged_state",
    "cirq/sim/simulator_base.py:SimulatorBase.simulate_sweep_iter",
    "cirq/linalg/transformations.py:targeted_left_multiply",
    "cirq/linalg/transformations.py:state_vector_kronecker_product",
]

TOL = {"c64": 1e-4, "c128": 1e-7}


def _tol(dtype):
    return 1e-4 if dtype == np.complex64 else 1e-7


def _permuted_reference(steps_ref, dims, order):
    """Reference program relabelled so that position j of the result is wire order[j]."""
    pos = {w: j for j, w in enumerate(order)}
    dims2 = tuple(dims[w] for w in order)
    steps2 = [I.U(s.matrix, [pos[w] for w in s.wires]) for s in steps_ref]
    return steps2, dims2


def _initial_state(rng, dims, qubits_in_order, dtype):
    """returns (cirq-side initial_state argument, reference vector, label)"""
    import cirq

    D = L.dim_of(dims)
    r = rng.random()
    if r < 0.2:
        v = np.zeros(D, dtype=complex)
        v[0] = 1
        return None, v, "none"
    if r < 0.45:
        k = int(rng.choice([0, D - 1, int(rng.integers(D))]))
        v = np.zeros(D, dtype=complex)
        v[k] = 1
        return k, v, "int"
    if r < 0.6 and all(d == 2 for d in dims):
        kets = [cirq.KET_PLUS, cirq.KET_MINUS, cirq.KET_IMAG, cirq.KET_MINUS_IMAG, cirq.KET_ZERO, cirq.KET_ONE]
        vecs = [np.array([1, 1]) / np.sqrt(2), np.array([1, -1]) / np.sqrt(2), np.array([1, 1j]) / np.sqrt(2),
                np.array([1, -1j]) / np.sqrt(2), np.array([1, 0]), np.array([0, 1])]
        ch = [int(rng.integers(6)) for _ in dims]
        ps = cirq.ProductState({q: kets[c] for q, c in zip(qubits_in_order, ch)})
        v = L.kron(*[vecs[c].reshape(2, 1) for c in ch]).reshape(-1)
        return ps, v, "product"
    v = L.random_state(rng, D)
    form = int(rng.integers(5))
    if form == 0:
        return v.astype(dtype), v.astype(dtype).astype(complex), "vector"
    if form == 1:
        a = v.astype(np.complex128).reshape(dims)
        return a, v, "tensor"
    if form == 2:
        a = np.asfortranarray(v.astype(dtype).reshape(dims))
        return a, v.astype(dtype).astype(complex), "tensor-F"
    if form == 3:
        a = v.astype(np.complex128)
        a.setflags(write=False)
        return a, v, "readonly"
    other = np.complex64 if dtype == np.complex128 else np.complex128
    return v.astype(other), v.astype(other).astype(complex), "vector-other-dtype"


def sec_programs(ctx, rng, case):
    import cirq

    nmax = 5 if ctx.tier == "quick" else 6
    dims = P.pick_dims(rng, nmax=nmax, qudit_p=0.25)
    n = len(dims)
    nsteps = int(rng.integers(1, 26))
    steps = P.gen_unitary_program(rng, dims, nsteps)
    qubits = P.make_qubits(rng, dims)
    layout = ["greedy", "serial", "random"][int(rng.integers(3))]
    moments = P.to_moments(steps, qubits, rng, layout)
    circuit = cirq.Circuit(moments)
    if rng.random() < 0.15:
        circuit = cirq.Circuit(moments[: len(moments) // 2]) + cirq.Circuit(cirq.Moment()) + cirq.Circuit(moments[len(moments) // 2:])
    ref_steps = P.to_ref(steps)
    D = L.dim_of(dims)
    wit = dict(dims=dims, program=P.describe(steps), layout=layout, qubits=[repr(q) for q in qubits])

    # qubit order: default / permutation / extra idle qubit
    r = rng.random()
    extra = []
    if r < 0.4:
        order = list(range(n))
        qorder_arg = None
    else:
        order = [int(x) for x in rng.permutation(n)]
        qorder_arg = [qubits[w] for w in order]
    rsteps, rdims = _permuted_reference(ref_steps, dims, order)
    Uref = I.unitary_of(rsteps, rdims)
    qo = qorder_arg if qorder_arg is not None else cirq.QubitOrder.DEFAULT
    all_q = set(circuit.all_qubits())
    missing = [q for q in qubits if q not in all_q]
    if missing and qorder_arg is None:
        # wires never touched are absent from the circuit: give the full order explicitly
        qo = [qubits[w] for w in order]
    wit["qubit_order"] = order

    # 1. Circuit.unitary
    got = circuit.unitary(qubit_order=qo, qubits_that_should_be_present=qubits)
    ctx.check(L.allclose(got, Uref, 1e-7), "Circuit.unitary", "C01:circuit-unitary",
              lambda: "Circuit.unitary deviates by %.3g" % L.maxdiff(got, Uref), **wit)
    got = cirq.unitary(circuit) if qorder_arg is None and not missing else None
    if got is not None:
        ctx.check(L.allclose(got, Uref, 1e-7), "cirq.unitary(circuit)", "C01:circuit-unitary-protocol", "", **wit)

    # 2. final_state_vector entry points
    for _ in range(2):
        dtype = [np.complex64, np.complex128][int(rng.integers(2))]
        init, v0, label = _initial_state(rng, rdims, [qubits[w] for w in order], dtype)
        before = None if not isinstance(init, np.ndarray) else init.copy()
        want = Uref @ v0
        tol = _tol(dtype) if label not in ("vector-other-dtype",) else 1e-4
        if rng.random() < 0.5:
            got = circuit.final_state_vector(initial_state=init if init is not None else 0, qubit_order=qo, dtype=dtype)
            name = "Circuit.final_state_vector"
        else:
            got = cirq.final_state_vector(circuit, initial_state=init if init is not None else 0, qubit_order=qo, dtype=dtype)
            name = "cirq.final_state_vector"
        ctx.check(L.allclose(got, want, tol), name, "C01:final-state-vector:" + label,
                  lambda: "%s deviates by %.3g (initial state as %s)" % (name, L.maxdiff(got, want), label), init=label, **wit)
        if before is not None:
            ctx.check(np.array_equal(before, init), "caller-initial-state-untouched", "C01:initial-state-mutated",
                      "the caller's initial_state array was written", init=label, **wit)

    # 3. Simulator.simulate under option combinations
    for dtype, split in itertools.product([np.complex64, np.complex128], [True, False]):
        if rng.random() < 0.35:
            continue
        init, v0, label = _initial_state(rng, rdims, [qubits[w] for w in order], dtype)
        before = None if not isinstance(init, np.ndarray) else init.copy()
        want = Uref @ v0
        sim = cirq.Simulator(dtype=dtype, split_untangled_states=split, seed=int(rng.integers(1 << 30)))
        full_order = [qubits[w] for w in order]
        res = sim.simulate(circuit, initial_state=init, qubit_order=full_order)
        got = res.final_state_vector
        tol = _tol(dtype) if label != "vector-other-dtype" else 1e-4
        ctx.check(L.allclose(got, want, tol), "Simulator.simulate", "C01:simulate:%s:split=%s" % (label, split),
                  lambda: "Simulator(dtype=%s, split=%s).simulate deviates by %.3g (init %s)" % (dtype.__name__, split, L.maxdiff(got, want), label),
                  init=label, dtype=dtype.__name__, split=split, **wit)
        if before is not None:
            ctx.check(np.array_equal(before, init), "caller-initial-state-untouched", "C01:initial-state-mutated",
                      "the caller's initial_state array was written by simulate", init=label, **wit)

    # 4. moment stepping: state after every moment
    dtype = [np.complex64, np.complex128][int(rng.integers(2))]
    split = bool(rng.integers(2))
    sim = cirq.Simulator(dtype=dtype, split_untangled_states=split)
    full_order = [qubits[w] for w in order]
    psi = np.zeros(D, dtype=complex)
    k0 = int(rng.integers(D))
    psi[k0] = 1
    pos = {w: j for j, w in enumerate(order)}
    stop_at = int(rng.integers(1, len(circuit) + 1)) if len(circuit) else 0
    qindex = {q: i for i, q in enumerate(qubits)}
    # reference per moment: group abstract steps by the moment their op landed in
    op_iter = iter(ref_steps)
    for mi, step in enumerate(sim.simulate_moment_steps(circuit, qubit_order=full_order, initial_state=k0)):
        for _op in circuit[mi].operations:
            st = next(op_iter)
            psi = L.apply_to_state(psi, st.matrix, [pos[w] for w in st.wires], rdims)
        got = step.state_vector(copy=bool(rng.integers(2)))
        ok = ctx.check(L.allclose(got, psi, _tol(dtype)), "simulate_moment_steps", "C01:moment-steps:split=%s" % split,
                       lambda: "state after moment %d deviates by %.3g" % (mi, L.maxdiff(got, psi)), moment=mi, **wit)
        if not ok or mi + 1 >= stop_at:
            break  # abandon the iterator early (documented as allowed)

    # 5. density matrix simulator
    if D <= 32:
        for split in ([True, False] if rng.random() < 0.5 else [bool(rng.integers(2))]):
            dtype = [np.complex64, np.complex128][int(rng.integers(2))]
            init, v0, label = _initial_state(rng, rdims, full_order, dtype)
            if label in ("tensor", "tensor-F"):
                init = np.asarray(init).reshape(-1)
            want = Uref @ v0
            dm = cirq.DensityMatrixSimulator(dtype=dtype, split_untangled_states=split)
            res = dm.simulate(circuit, initial_state=init, qubit_order=full_order)
            got = res.final_density_matrix
            wantrho = np.outer(want, want.conj())
            ctx.check(L.allclose(got, wantrho, _tol(dtype) * 2 if label != "vector-other-dtype" else 2e-4), "DensityMatrixSimulator.simulate",
                      "C01:density-matrix:split=%s" % split,
                      lambda: "final_density_matrix deviates from |psi><psi| by %.3g (init %s)" % (L.maxdiff(got, wantrho), label),
                      init=label, split=split, **wit)

    ident = L.allclose(Uref, np.eye(D), 1e-6)
    ctx.distinct(tuple(P.describe(steps)) + (dims,), nontrivial=(not ident) and len(steps) >= 2)
    ctx.sample({"dims": dims, "program": P.describe(steps)[:8], "layout": layout, "order": order})


def sec_sweeps(ctx, rng, case):
    """Sweep prefix reuse: circuits whose first parameterized op appears at a random depth."""
    import cirq
    import sympy

    dims = (2,) * int(rng.integers(1, 5))
    n = len(dims)
    nsteps = int(rng.integers(2, 16))
    eig = lambda s: s.eigen is not None and "qudit" not in s.tags  # noqa
    steps = P.gen_unitary_program(rng, dims, nsteps, pred=None)
    qubits = P.make_qubits(rng, dims)
    first = int(rng.integers(0, nsteps))
    syms = ["a", "b"]
    nres = int(rng.integers(1, 5))
    assign = [{s: float(GP.pick_exp(rng)) for s in syms} for _ in range(nres)]
    param_steps = {}
    for i in range(first, nsteps):
        if rng.random() < 0.5 or i == first:
            st = P.gen_unitary_step(rng, dims, pred=eig)
            steps[i] = st
            param_steps[i] = syms[int(rng.integers(2))]
    ops = []
    for i, st in enumerate(steps):
        spec = P.spec_by_name(st["spec"])
        if i in param_steps:
            g = spec.make((sympy.Symbol(param_steps[i]), st["p"][1]))
        else:
            g = spec.make(st["p"])
        ops.append((g.on(*[qubits[w] for w in st["w"]]), st))
    # explicit moments (greedy)
    moments, cur, used = [], [], set()
    for op, st in ops:
        if set(st["w"]) & used:
            moments.append(cirq.Moment(cur))
            cur, used = [], set()
        cur.append(op)
        used |= set(st["w"])
    if cur:
        moments.append(cirq.Moment(cur))
    circuit = cirq.Circuit(moments)
    sweep = cirq.ListSweep([cirq.ParamResolver(a) for a in assign]) if rng.random() < 0.5 else [cirq.ParamResolver(a) for a in assign]
    dtype = [np.complex64, np.complex128][int(rng.integers(2))]
    split = bool(rng.integers(2))
    sim = cirq.Simulator(dtype=dtype, split_untangled_states=split)
    D = 2 ** n
    k0 = int(rng.integers(D))
    use_state_obj = rng.random() < 0.3
    if use_state_obj:
        init = sim._create_simulation_state(k0, qubits) if hasattr(sim, "_create_simulation_state") else k0
    else:
        init = k0
    results = sim.simulate_sweep(circuit, sweep, qubit_order=qubits, initial_state=init)
    wit = dict(dims=dims, program=P.describe(steps), param_steps=param_steps, assign=assign, first=first, split=split, state_obj=use_state_obj)
    ctx.check(len(results) == nres, "simulate_sweep", "C01:sweep-length", "wrong number of results", **wit)
    for r, a in zip(results, assign):
        psi = np.zeros(D, dtype=complex)
        psi[k0] = 1
        for i, st in enumerate(steps):
            spec = P.spec_by_name(st["spec"])
            p = (a[param_steps[i]], st["p"][1]) if i in param_steps else st["p"]
            psi = L.apply_to_state(psi, spec.ref(p), st["w"], dims)
        got = r.final_state_vector
        ctx.check(L.allclose(got, psi, _tol(dtype)), "simulate_sweep", "C01:sweep-state:split=%s" % split,
                  lambda: "simulate_sweep result deviates by %.3g" % L.maxdiff(got, psi), resolver=a, **wit)
    ctx.distinct(tuple(P.describe(steps)) + (first, nres), nontrivial=nres >= 2 and first >= 1)
    ctx.sample({"program": P.describe(steps)[:6], "first_param_step": first, "resolvers": nres})


def sec_classical(ctx, rng, case):
    """ClassicalStateSimulator on reversible classical circuits vs bit permutation semantics."""
    import cirq

    n = int(rng.integers(1, 7))
    qubits = P.make_qubits(rng, (2,) * n)
    bits = [int(b) for b in rng.integers(0, 2, size=n)]
    init_bits = list(bits)
    ops, desc = [], []
    for _ in range(int(rng.integers(1, 20))):
        kind = int(rng.integers(8))
        if kind == 0 or n == 1:
            (a,) = rng.choice(n, size=1)
            e = int(rng.choice([1, 1, 3, 2, -1]))
            ops.append((cirq.X ** e)(qubits[a]))
            if e % 2:
                bits[a] ^= 1
            desc.append("X^%d@%d" % (e, a))
        elif kind == 1:
            a, b = (int(x) for x in rng.choice(n, size=2, replace=False))
            ops.append(cirq.CNOT(qubits[a], qubits[b]))
            bits[b] ^= bits[a]
            desc.append("CX@%d,%d" % (a, b))
        elif kind == 2:
            a, b = (int(x) for x in rng.choice(n, size=2, replace=False))
            ops.append(cirq.SWAP(qubits[a], qubits[b]))
            bits[a], bits[b] = bits[b], bits[a]
            desc.append("SWAP@%d,%d" % (a, b))
        elif kind == 3 and n >= 3:
            a, b, c = (int(x) for x in rng.choice(n, size=3, replace=False))
            ops.append(cirq.TOFFOLI(qubits[a], qubits[b], qubits[c]))
            bits[c] ^= bits[a] & bits[b]
            desc.append("CCX@%d,%d,%d" % (a, b, c))
        elif kind == 4 and n >= 3:
            a, b, c = (int(x) for x in rng.choice(n, size=3, replace=False))
            ops.append(cirq.CSWAP(qubits[a], qubits[b], qubits[c]))
            if bits[a]:
                bits[b], bits[c] = bits[c], bits[b]
            desc.append("CSWAP@%d,%d,%d" % (a, b, c))
        elif kind == 5 and n >= 2:
            k = int(rng.integers(1, min(n, 3)))
            sel = [int(x) for x in rng.choice(n, size=k + 1, replace=False)]
            cv = [int(x) for x in rng.integers(0, 2, size=k)]
            ops.append(cirq.X(qubits[sel[-1]]).controlled_by(*[qubits[s] for s in sel[:-1]], control_values=cv))
            if all(bits[s] == v for s, v in zip(sel[:-1], cv)):
                bits[sel[-1]] ^= 1
            desc.append("X@%d ctrl %s=%s" % (sel[-1], sel[:-1], cv))
        elif kind == 6 and n >= 2:
            k = int(rng.integers(2, min(n, 4) + 1))
            sel = [int(x) for x in rng.choice(n, size=k, replace=False)]
            perm = [int(x) for x in rng.permutation(k)]
            ops.append(cirq.QubitPermutationGate(perm).on(*[qubits[s] for s in sel]))
            old = [bits[s] for s in sel]
            for i in range(k):  # "the entry at offset i is the result of permuting i": qubit i's value moves to position perm[i]
                bits[sel[perm[i]]] = old[i]
            desc.append("PERM%s@%s" % (perm, sel))
        else:
            (a,) = rng.choice(n, size=1)
            ops.append(cirq.X(qubits[a]))
            bits[a] ^= 1
            desc.append("X@%d" % a)
    msel = [int(x) for x in rng.choice(n, size=int(rng.integers(1, n + 1)), replace=False)]
    circuit = cirq.Circuit(ops)
    circuit.append(cirq.measure(*[qubits[s] for s in msel], key="m"))
    reps = int(rng.integers(1, 4))
    sim = cirq.ClassicalStateSimulator()
    wit = dict(n=n, init=init_bits, program=desc, measured=msel)
    has_perm = any(d.startswith("PERM") for d in desc)
    mech_suffix = ":qubit-permutation" if has_perm else ""
    # initial state: the documented way is an X-prefix or initial_state in simulate; use X prefix for run
    prefix = cirq.Circuit(cirq.X(qubits[i]) for i in range(n) if init_bits[i])
    res = sim.run(prefix + circuit, repetitions=reps)
    want = [bits[s] for s in msel]
    got = res.records["m"]
    ok = got.shape == (reps, 1, len(msel)) and all(list(got[r, 0]) == want for r in range(reps))
    ctx.check(ok, "ClassicalStateSimulator", "C01:classical-run" + mech_suffix,
              "ClassicalStateSimulator.run gives %s, reversible-bit semantics give %s" % (got.tolist(), want), **wit)
    # cross-check the same circuit on the state-vector simulator (deterministic outcome)
    res2 = cirq.Simulator().run(prefix + circuit, repetitions=1)
    ctx.check(list(res2.records["m"][0, 0]) == want, "Simulator.run(classical circuit)", "C01:classical-vs-statevector", "", **wit)
    ctx.distinct(tuple(desc) + tuple(init_bits), nontrivial=len(desc) >= 2)
    ctx.sample({"init": init_bits, "program": desc[:8], "measured": msel})


SECTIONS = [
    ("programs", sec_programs, 3000, 60000, 6.0),
    ("sweeps", sec_sweeps, 1200, 20000, 1.5),
    ("classical", sec_classical, 1500, 30000, 1.0),
]
