"""C01 - unitary simulation equals the ordered product of operation matrices.

One abstract unitary program is pushed through every simulation entry point x
option combination; every observation is compared with the single reference
value computed from catalogue matrices by numpy contraction."""
from __future__ import annotations

import itertools

import numpy as np

from vf.refmodel import interp as I
from vf.refmodel import linalg as L
from vf.workloads import gatepool as GP
from vf.workloads import programs as P

LEVEL = "exploration"
RULE = ("abstract unitary programs over the gate catalogue (qubits and qudits, 1-6 wires, <=30 ops, explicit moment "
        "structure incl. zero-qubit global phases); each is observed through Circuit.unitary, final_state_vector, "
        "Simulator.simulate / simulate_moment_steps / simulate_sweep, DensityMatrixSimulator.simulate and the classical "
        "simulator under option combinations (dtype x split_untangled_states x initial-state form x qubit order); "
        "non-trivial = reference unitary differs from identity by >1e-6 and program has >=2 operations; distinct by program text")
ASSUMPTIONS = ["catalogue matrices (C03) are the ground truth", "complex64 tolerance 1e-4, complex128 1e-7"]
MIN_EVAL = {"linalg-helper": 500, "Circuit.unitary": 100, "Simulator.simulate": 300, "DensityMatrixSimulator.simulate": 100,
            "simulate_moment_steps": 100, "simulate_sweep": 50, "ClassicalStateSimulator": 50}
MUST_REACH = [
    "cirq/circuits/circuit.py:_apply_unitary_circuit",
    "cirq/protocols/apply_unitary_protocol.py:apply_unitaries",
    "cirq/protocols/apply_unitary_protocol.py:_incorporate_result_into_target",
    "cirq/sim/simulation_product_state.py:SimulationProductState._act_on_fallback_",
    "cirq/sim/simulation_product_state.py:SimulationProductState.create_merged_state",
    "cirq/sim/simulator_base.py:SimulatorBase.simulate_sweep_iter",
    "cirq/linalg/transformations.py:targeted_left_multiply",
    "cirq/linalg/transformations.py:state_vector_kronecker_product",
]

TOL = {"c64": 1e-4, "c128": 1e-7}


def _tol(dtype):
    return 1e-4 if dtype == np.complex64 else 1e-7


def _permuted_reference(steps_ref, dims, order):
    """Reference program relabelled so that position j of the result is wire order[j]."""
    pos = {w: j for j, w in enumerate(order)}
    dims2 = tuple(dims[w] for w in order)
    steps2 = [I.U(s.matrix, [pos[w] for w in s.wires]) for s in steps_ref]
    return steps2, dims2


def _initial_state(rng, dims, qubits_in_order, dtype):
    """returns (cirq-side initial_state argument, reference vector, label)"""
    import cirq

    D = L.dim_of(dims)
    r = rng.random()
    if r < 0.2:
        v = np.zeros(D, dtype=complex)
        v[0] = 1
        return None, v, "none"
    if r < 0.45:
        k = int(rng.choice([0, D - 1, int(rng.integers(D))]))
        v = np.zeros(D, dtype=complex)
        v[k] = 1
        return k, v, "int"
    if r < 0.6 and all(d == 2 for d in dims):
        kets = [cirq.KET_PLUS, cirq.KET_MINUS, cirq.KET_IMAG, cirq.KET_MINUS_IMAG, cirq.KET_ZERO, cirq.KET_ONE]
        vecs = [np.array([1, 1]) / np.sqrt(2), np.array([1, -1]) / np.sqrt(2), np.array([1, 1j]) / np.sqrt(2),
                np.array([1, -1j]) / np.sqrt(2), np.array([1, 0]), np.array([0, 1])]
        ch = [int(rng.integers(6)) for _ in dims]
        # (the factors name their qubits: the order in which they are listed carries no meaning)
        items = list(zip(qubits_in_order, ch))
        if rng.random() < 0.6:
            items = [items[int(i)] for i in rng.permutation(len(items))]
        ps = cirq.ProductState({q: kets[c] for q, c in items})
        v = L.kron(*[vecs[c].reshape(2, 1) for c in ch]).reshape(-1)
        return ps, v, "product"
    v = L.random_state(rng, D)
    form = int(rng.integers(5))
    if form == 0:
        return v.astype(dtype), v.astype(dtype).astype(complex), "vector"
    if form == 1:
        a = v.astype(np.complex128).reshape(dims)
        return a, v, "tensor"
    if form == 2:
        a = np.asfortranarray(v.astype(dtype).reshape(dims))
        return a, v.astype(dtype).astype(complex), "tensor-F"
    if form == 3:
        a = v.astype(np.complex128)
        a.setflags(write=False)
        return a, v, "readonly"
    other = np.complex64 if dtype == np.complex128 else np.complex128
    return v.astype(other), v.astype(other).astype(complex), "vector-other-dtype"


def sec_programs(ctx, rng, case):
    import cirq

    nmax = 5 if ctx.tier == "quick" else 6
    dims = P.pick_dims(rng, nmax=nmax, qudit_p=0.25)
    n = len(dims)
    nsteps = int(rng.integers(1, 26))
    steps = P.gen_unitary_program(rng, dims, nsteps)
    qubits = P.make_qubits(rng, dims)
    layout = ["greedy", "serial", "random"][int(rng.integers(3))]
    moments = P.to_moments(steps, qubits, rng, layout)
    circuit = cirq.Circuit(moments)
    if rng.random() < 0.15:
        circuit = cirq.Circuit(moments[: len(moments) // 2]) + cirq.Circuit(cirq.Moment()) + cirq.Circuit(moments[len(moments) // 2:])
    ref_steps = P.to_ref(steps)
    D = L.dim_of(dims)
    wit = dict(dims=dims, program=P.describe(steps), layout=layout, qubits=[repr(q) for q in qubits])

    # qubit order: default / permutation / extra idle qubit
    r = rng.random()
    extra = []
    if r < 0.4:
        order = list(range(n))
        qorder_arg = None
    else:
        order = [int(x) for x in rng.permutation(n)]
        qorder_arg = [qubits[w] for w in order]
    rsteps, rdims = _permuted_reference(ref_steps, dims, order)
    Uref = I.unitary_of(rsteps, rdims)
    qo = qorder_arg if qorder_arg is not None else cirq.QubitOrder.DEFAULT
    all_q = set(circuit.all_qubits())
    missing = [q for q in qubits if q not in all_q]
    if missing and qorder_arg is None:
        # wires never touched are absent from the circuit: give the full order explicitly
        qo = [qubits[w] for w in order]
    wit["qubit_order"] = order

    # 1. Circuit.unitary
    got = circuit.unitary(qubit_order=qo, qubits_that_should_be_present=qubits)
    ctx.check(L.allclose(got, Uref, 1e-7), "Circuit.unitary", "C01:circuit-unitary",
              lambda: "Circuit.unitary deviates by %.3g" % L.maxdiff(got, Uref), **wit)
    got = cirq.unitary(circuit) if qorder_arg is None and not missing else None
    if got is not None:
        ctx.check(L.allclose(got, Uref, 1e-7), "cirq.unitary(circuit)", "C01:circuit-unitary-protocol", "", **wit)

    # 2. final_state_vector entry points
    for _ in range(2):
        dtype = [np.complex64, np.complex128][int(rng.integers(2))]
        init, v0, label = _initial_state(rng, rdims, [qubits[w] for w in order], dtype)
        before = None if not isinstance(init, np.ndarray) else init.copy()
        want = Uref @ v0
        tol = _tol(dtype) if label not in ("vector-other-dtype",) else 1e-4
        if rng.random() < 0.5:
            got = circuit.final_state_vector(initial_state=init if init is not None else 0, qubit_order=qo, dtype=dtype)
            name = "Circuit.final_state_vector"
        else:
            got = cirq.final_state_vector(circuit, initial_state=init if init is not None else 0, qubit_order=qo, dtype=dtype)
            name = "cirq.final_state_vector"
        ctx.check(L.allclose(got, want, tol), name, "C01:final-state-vector:" + label,
                  lambda: "%s deviates by %.3g (initial state as %s)" % (name, L.maxdiff(got, want), label), init=label, **wit)
        if before is not None:
            ctx.check(np.array_equal(before, init), "caller-initial-state-untouched", "C01:initial-state-mutated",
                      "the caller's initial_state array was written", init=label, **wit)

    # 3. Simulator.simulate under option combinations
    for dtype, split in itertools.product([np.complex64, np.complex128], [True, False]):
        if rng.random() < 0.35:
            continue
        init, v0, label = _initial_state(rng, rdims, [qubits[w] for w in order], dtype)
        before = None if not isinstance(init, np.ndarray) else init.copy()
        want = Uref @ v0
        sim = cirq.Simulator(dtype=dtype, split_untangled_states=split, seed=int(rng.integers(1 << 30)))
        full_order = [qubits[w] for w in order]
        res = sim.simulate(circuit, initial_state=init, qubit_order=full_order)
        got = res.final_state_vector
        tol = _tol(dtype) if label != "vector-other-dtype" else 1e-4
        ctx.check(L.allclose(got, want, tol), "Simulator.simulate", "C01:simulate:%s:split=%s" % (label, split),
                  lambda: "Simulator(dtype=%s, split=%s).simulate deviates by %.3g (init %s)" % (dtype.__name__, split, L.maxdiff(got, want), label),
                  init=label, dtype=dtype.__name__, split=split, **wit)
        if before is not None:
            ctx.check(np.array_equal(before, init), "caller-initial-state-untouched", "C01:initial-state-mutated",
                      "the caller's initial_state array was written by simulate", init=label, **wit)
        # views of that final state: reduced density matrix of a subset of the qubits (in the order asked for), Bloch
        # vector of one qubit, the state vector again (with / without copy)
        nq_ = len(full_order)
        ksub = int(rng.integers(1, min(nq_, 3) + 1))
        sub = [int(x) for x in rng.choice(nq_, size=ksub, replace=False)]
        rho_full = np.outer(want, want.conj()).reshape(tuple(rdims) * 2)
        rest = [a for a in range(nq_) if a not in sub]
        red = np.einsum(rho_full, list(range(nq_)) + [nq_ + a if a in sub else a for a in range(nq_)], sub + [nq_ + a for a in sub])
        dsub = int(np.prod([rdims[a] for a in sub]))
        red = red.reshape(dsub, dsub)
        got_r = res.density_matrix_of([full_order[a] for a in sub])
        ctx.check(L.allclose(got_r, red, max(tol, 1e-6) * 4), "final-state-views", "C01:view:density_matrix_of:split=%s" % split,
                  lambda: "density_matrix_of(%s) deviates from the partial trace of the reference state by %.3g" % (sub, L.maxdiff(got_r, red)),
                  subset=sub, init=label, dtype=dtype.__name__, **wit)
        if rdims[sub[0]] == 2:
            r1 = np.einsum(rho_full, list(range(nq_)) + [nq_ + a if a == sub[0] else a for a in range(nq_)], [sub[0], nq_ + sub[0]])
            bl = np.array([2 * r1[0, 1].real, -2 * r1[0, 1].imag if False else 2 * r1[1, 0].imag, (r1[0, 0] - r1[1, 1]).real])
            got_b = res.bloch_vector_of(full_order[sub[0]])
            ctx.check(L.allclose(got_b, bl, max(tol, 1e-6) * 4), "final-state-views", "C01:view:bloch_vector_of:split=%s" % split,
                      lambda: "bloch_vector_of deviates by %.3g" % L.maxdiff(got_b, bl), wire=sub[0], init=label, **wit)
        sv2 = res.state_vector(copy=bool(rng.integers(2)))
        ctx.check(L.allclose(sv2, want, tol), "final-state-views", "C01:view:state_vector:split=%s" % split, "", init=label, **wit)

    # 3b. amplitudes of chosen basis states (from |0...0>), one circuit and a one-point sweep; qubit circuits only
    if all(d == 2 for d in rdims):
        sim = cirq.Simulator(dtype=np.complex128, split_untangled_states=bool(rng.integers(2)))
        full_order = [qubits[w] for w in order]
        e0 = np.zeros(D, dtype=complex)
        e0[0] = 1
        want0 = Uref @ e0
        idxs = [int(x) for x in rng.integers(0, D, size=int(rng.integers(1, 5)))]
        amps = sim.compute_amplitudes(circuit, idxs, qubit_order=full_order)
        ctx.check(len(amps) == len(idxs) and L.allclose(np.asarray(amps), want0[idxs], 1e-7), "final-state-views", "C01:view:compute_amplitudes",
                  lambda: "compute_amplitudes(%s) = %r, the reference amplitudes are %r" % (idxs, list(amps), list(want0[idxs])), bitstrings=idxs, **wit)
        sw = sim.compute_amplitudes_sweep(circuit, idxs, cirq.UnitSweep, qubit_order=full_order)
        ctx.check(len(sw) == 1 and L.allclose(np.asarray(sw[0]), want0[idxs], 1e-7), "final-state-views", "C01:view:compute_amplitudes_sweep", "", bitstrings=idxs, **wit)

    # 4. moment stepping: state after every moment
    dtype = [np.complex64, np.complex128][int(rng.integers(2))]
    split = bool(rng.integers(2))
    sim = cirq.Simulator(dtype=dtype, split_untangled_states=split)
    full_order = [qubits[w] for w in order]
    psi = np.zeros(D, dtype=complex)
    k0 = int(rng.integers(D))
    psi[k0] = 1
    pos = {w: j for j, w in enumerate(order)}
    stop_at = int(rng.integers(1, len(circuit) + 1)) if len(circuit) else 0
    qindex = {q: i for i, q in enumerate(qubits)}
    # reference per moment: group abstract steps by the moment their op landed in
    op_iter = iter(ref_steps)
    kept_steps = []
    for mi, step in enumerate(sim.simulate_moment_steps(circuit, qubit_order=full_order, initial_state=k0)):
        for _op in circuit[mi].operations:
            st = next(op_iter)
            psi = L.apply_to_state(psi, st.matrix, [pos[w] for w in st.wires], rdims)
        peek = int(rng.integers(4))
        if peek == 1:
            step.state_vector()  # a look without a copy first
        elif peek == 2:
            step.dirac_notation()
        elif peek == 3 and all(d == 2 for d in rdims):
            step.bloch_vector_of(full_order[0])
        got = step.state_vector(copy=bool(rng.integers(2)))
        ok = ctx.check(L.allclose(got, psi, _tol(dtype)), "simulate_moment_steps", "C01:moment-steps:split=%s" % split,
                       lambda: "state after moment %d deviates by %.3g" % (mi, L.maxdiff(got, psi)), moment=mi, **wit)
        # a copy asked for explicitly is the caller's to keep: it still shows this moment after the simulation moved on
        kept_steps.append((mi, step.state_vector(copy=True), psi.copy(), peek))
        if not ok or mi + 1 >= stop_at:
            break  # abandon the iterator early (documented as allowed)
    for mi, arr, ref_psi, peek in kept_steps:
        ctx.check(L.allclose(arr, ref_psi, _tol(dtype)), "simulate_moment_steps", "C01:moment-steps:kept-copy-overwritten:split=%s" % split,
                  lambda: "state_vector(copy=True) of moment %d (taken after peek %d) was changed by later moments (now off by %.3g)" % (mi, peek, L.maxdiff(arr, ref_psi)),
                  moment=mi, **wit)

    # 5. density matrix simulator
    if D <= 32:
        for split in ([True, False] if rng.random() < 0.5 else [bool(rng.integers(2))]):
            dtype = [np.complex64, np.complex128][int(rng.integers(2))]
            init, v0, label = _initial_state(rng, rdims, full_order, dtype)
            if label in ("tensor", "tensor-F"):
                init = np.asarray(init).reshape(-1)
            want = Uref @ v0
            dm = cirq.DensityMatrixSimulator(dtype=dtype, split_untangled_states=split)
            res = dm.simulate(circuit, initial_state=init, qubit_order=full_order)
            got = res.final_density_matrix
            wantrho = np.outer(want, want.conj())
            ctx.check(L.allclose(got, wantrho, _tol(dtype) * 2 if label != "vector-other-dtype" else 2e-4), "DensityMatrixSimulator.simulate",
                      "C01:density-matrix:split=%s" % split,
                      lambda: "final_density_matrix deviates from |psi><psi| by %.3g (init %s)" % (L.maxdiff(got, wantrho), label),
                      init=label, split=split, **wit)

    ident = L.allclose(Uref, np.eye(D), 1e-6)
    ctx.distinct(tuple(P.describe(steps)) + (dims,), nontrivial=(not ident) and len(steps) >= 2)
    ctx.sample({"dims": dims, "program": P.describe(steps)[:8], "layout": layout, "order": order})


def sec_sweeps(ctx, rng, case):
    """Sweep prefix reuse: circuits whose first parameterized op appears at a random depth."""
    import cirq
    import sympy

    dims = (2,) * int(rng.integers(1, 5))
    n = len(dims)
    nsteps = int(rng.integers(2, 16))
    eig = lambda s: s.eigen is not None and "qudit" not in s.tags  # noqa
    steps = P.gen_unitary_program(rng, dims, nsteps, pred=None)
    qubits = P.make_qubits(rng, dims)
    first = int(rng.integers(0, nsteps))
    syms = ["a", "b"]
    nres = int(rng.integers(1, 5))
    assign = [{s: float(GP.pick_exp(rng)) for s in syms} for _ in range(nres)]
    param_steps = {}
    for i in range(first, nsteps):
        if rng.random() < 0.5 or i == first:
            st = P.gen_unitary_step(rng, dims, pred=eig)
            steps[i] = st
            param_steps[i] = syms[int(rng.integers(2))]
    ops = []
    for i, st in enumerate(steps):
        spec = P.spec_by_name(st["spec"])
        if i in param_steps:
            g = spec.make((sympy.Symbol(param_steps[i]), st["p"][1]))
        else:
            g = spec.make(st["p"])
        ops.append((g.on(*[qubits[w] for w in st["w"]]), st))
    # explicit moments (greedy)
    moments, cur, used = [], [], set()
    for op, st in ops:
        if set(st["w"]) & used:
            moments.append(cirq.Moment(cur))
            cur, used = [], set()
        cur.append(op)
        used |= set(st["w"])
    if cur:
        moments.append(cirq.Moment(cur))
    circuit = cirq.Circuit(moments)
    sweep = cirq.ListSweep([cirq.ParamResolver(a) for a in assign]) if rng.random() < 0.5 else [cirq.ParamResolver(a) for a in assign]
    dtype = [np.complex64, np.complex128][int(rng.integers(2))]
    split = bool(rng.integers(2))
    sim = cirq.Simulator(dtype=dtype, split_untangled_states=split)
    D = 2 ** n
    k0 = int(rng.integers(D))
    use_state_obj = rng.random() < 0.3
    if use_state_obj:
        init = sim._create_simulation_state(k0, qubits) if hasattr(sim, "_create_simulation_state") else k0
    else:
        init = k0
    results = sim.simulate_sweep(circuit, sweep, qubit_order=qubits, initial_state=init)
    wit = dict(dims=dims, program=P.describe(steps), param_steps=param_steps, assign=assign, first=first, split=split, state_obj=use_state_obj)
    ctx.check(len(results) == nres, "simulate_sweep", "C01:sweep-length", "wrong number of results", **wit)
    for r, a in zip(results, assign):
        psi = np.zeros(D, dtype=complex)
        psi[k0] = 1
        for i, st in enumerate(steps):
            spec = P.spec_by_name(st["spec"])
            p = (a[param_steps[i]], st["p"][1]) if i in param_steps else st["p"]
            psi = L.apply_to_state(psi, spec.ref(p), st["w"], dims)
        got = r.final_state_vector
        ctx.check(L.allclose(got, psi, _tol(dtype)), "simulate_sweep", "C01:sweep-state:split=%s" % split,
                  lambda: "simulate_sweep result deviates by %.3g" % L.maxdiff(got, psi), resolver=a, **wit)
    ctx.distinct(tuple(P.describe(steps)) + (first, nres), nontrivial=nres >= 2 and first >= 1)
    ctx.sample({"program": P.describe(steps)[:6], "first_param_step": first, "resolvers": nres})


def sec_classical(ctx, rng, case):
    """ClassicalStateSimulator on reversible classical circuits vs bit permutation semantics."""
    import cirq

    n = int(rng.integers(1, 7))
    qubits = P.make_qubits(rng, (2,) * n)
    bits = [int(b) for b in rng.integers(0, 2, size=n)]
    init_bits = list(bits)
    ops, desc = [], []
    for _ in range(int(rng.integers(1, 20))):
        kind = int(rng.integers(8))
        if kind == 0 or n == 1:
            (a,) = rng.choice(n, size=1)
            e = int(rng.choice([1, 1, 3, 2, -1]))
            ops.append((cirq.X ** e)(qubits[a]))
            if e % 2:
                bits[a] ^= 1
            desc.append("X^%d@%d" % (e, a))
        elif kind == 1:
            a, b = (int(x) for x in rng.choice(n, size=2, replace=False))
            ops.append(cirq.CNOT(qubits[a], qubits[b]))
            bits[b] ^= bits[a]
            desc.append("CX@%d,%d" % (a, b))
        elif kind == 2:
            a, b = (int(x) for x in rng.choice(n, size=2, replace=False))
            ops.append(cirq.SWAP(qubits[a], qubits[b]))
            bits[a], bits[b] = bits[b], bits[a]
            desc.append("SWAP@%d,%d" % (a, b))
        elif kind == 3 and n >= 3:
            a, b, c = (int(x) for x in rng.choice(n, size=3, replace=False))
            ops.append(cirq.TOFFOLI(qubits[a], qubits[b], qubits[c]))
            bits[c] ^= bits[a] & bits[b]
            desc.append("CCX@%d,%d,%d" % (a, b, c))
        elif kind == 4 and n >= 3:
            a, b, c = (int(x) for x in rng.choice(n, size=3, replace=False))
            ops.append(cirq.CSWAP(qubits[a], qubits[b], qubits[c]))
            if bits[a]:
                bits[b], bits[c] = bits[c], bits[b]
            desc.append("CSWAP@%d,%d,%d" % (a, b, c))
        elif kind == 5 and n >= 2 and rng.random() < 0.5:
            k = int(rng.integers(1, min(n, 3)))
            sel = [int(x) for x in rng.choice(n, size=k + 1, replace=False)]
            cv = [int(x) for x in rng.integers(0, 2, size=k)]
            ops.append(cirq.X(qubits[sel[-1]]).controlled_by(*[qubits[s] for s in sel[:-1]], control_values=cv))
            if all(bits[s] == v for s, v in zip(sel[:-1], cv)):
                bits[sel[-1]] ^= 1
            desc.append("X@%d ctrl %s=%s" % (sel[-1], sel[:-1], cv))
        elif kind == 5 and n >= 2:
            # every documented form of control values: per-control alternatives (product of sums) and an explicit list of
            # allowed control tuples (sum of products); the gate fires iff the control bits are one of the allowed tuples
            k = int(rng.integers(1, min(n, 4)))
            sel = [int(x) for x in rng.choice(n, size=k + 1, replace=False)]
            ctrl, tgt = sel[:-1], sel[-1]
            if rng.random() < 0.5:
                pos = [[(0,), (1,), (0, 1)][int(rng.integers(3))] for _ in range(k)]
                allowed = set(itertools.product(*pos))
                cvs = cirq.ProductOfSums([tuple(p_) for p_ in pos])
                label = "PoS%s" % pos
            else:
                all_t = list(itertools.product((0, 1), repeat=k))
                m_ = int(rng.integers(1, len(all_t) + 1))
                prods = [all_t[int(i)] for i in rng.choice(len(all_t), size=m_, replace=False)]
                allowed = set(prods)
                cvs = cirq.SumOfProducts([list(t_) for t_ in prods])
                label = "SoP%s" % sorted(prods)
            if rng.random() < 0.5:
                ops.append(cirq.ControlledGate(cirq.X, num_controls=k, control_values=cvs).on(*[qubits[s] for s in ctrl], qubits[tgt]))
            else:
                ops.append(cirq.X(qubits[tgt]).controlled_by(*[qubits[s] for s in ctrl], control_values=cvs))
            if tuple(bits[s] for s in ctrl) in allowed:
                bits[tgt] ^= 1
            desc.append("X@%d ctrl %s in %s" % (tgt, ctrl, label))
        elif kind == 6 and n >= 2:
            k = int(rng.integers(2, min(n, 4) + 1))
            sel = [int(x) for x in rng.choice(n, size=k, replace=False)]
            perm = [int(x) for x in rng.permutation(k)]
            ops.append(cirq.QubitPermutationGate(perm).on(*[qubits[s] for s in sel]))
            old = [bits[s] for s in sel]
            for i in range(k):  # "the entry at offset i is the result of permuting i": qubit i's value moves to position perm[i]
                bits[sel[perm[i]]] = old[i]
            desc.append("PERM%s@%s" % (perm, sel))
        else:
            (a,) = rng.choice(n, size=1)
            ops.append(cirq.X(qubits[a]))
            bits[a] ^= 1
            desc.append("X@%d" % a)
    msel = [int(x) for x in rng.choice(n, size=int(rng.integers(1, n + 1)), replace=False)]
    circuit = cirq.Circuit(ops)
    circuit.append(cirq.measure(*[qubits[s] for s in msel], key="m"))
    reps = int(rng.integers(1, 4))
    sim = cirq.ClassicalStateSimulator()
    wit = dict(n=n, init=init_bits, program=desc, measured=msel)
    has_perm = any(d.startswith("PERM") for d in desc)
    mech_suffix = ":qubit-permutation" if has_perm else ""
    # initial state: the documented way is an X-prefix or initial_state in simulate; use X prefix for run
    prefix = cirq.Circuit(cirq.X(qubits[i]) for i in range(n) if init_bits[i])
    res = sim.run(prefix + circuit, repetitions=reps)
    want = [bits[s] for s in msel]
    got = res.records["m"]
    ok = got.shape == (reps, 1, len(msel)) and all(list(got[r, 0]) == want for r in range(reps))
    ctx.check(ok, "ClassicalStateSimulator", "C01:classical-run" + mech_suffix,
              "ClassicalStateSimulator.run gives %s, reversible-bit semantics give %s" % (got.tolist(), want), **wit)
    # cross-check the same circuit on the state-vector simulator (deterministic outcome)
    res2 = cirq.Simulator().run(prefix + circuit, repetitions=1)
    ctx.check(list(res2.records["m"][0, 0]) == want, "Simulator.run(classical circuit)", "C01:classical-vs-statevector", "", **wit)
    ctx.distinct(tuple(desc) + tuple(init_bits), nontrivial=len(desc) >= 2)
    ctx.sample({"init": init_bits, "program": desc[:8], "measured": msel})



def sec_helpers(ctx, rng, case):
    """the numeric helpers the simulators rely on, on the kind of arguments the simulators pass
    (transposed / strided views, aliased out= buffers, non-adjacent axes), judged by plain numpy"""
    import cirq

    kind = case % 9
    n = int(rng.integers(1, 5))
    dims = [int(rng.choice([2, 2, 2, 3])) for _ in range(n)]
    D = L.dim_of(dims)
    dtype = [np.complex64, np.complex128][int(rng.integers(2))]
    tol = 2e-5 if dtype == np.complex64 else 1e-9
    wit = dict(kind=kind, dims=dims, dtype=dtype.__name__)
    if kind == 0:  # targeted_left_multiply with out=None / fresh out / strided target
        k = int(rng.integers(1, n + 1))
        axes = [int(x) for x in rng.choice(n, size=k, replace=False)]
        sub = [dims[a] for a in axes]
        m = (rng.standard_normal((L.dim_of(sub),) * 2) + 1j * rng.standard_normal((L.dim_of(sub),) * 2)).astype(dtype)
        t = (rng.standard_normal(D) + 1j * rng.standard_normal(D)).astype(dtype).reshape(dims)
        if rng.random() < 0.5:
            perm = [int(x) for x in rng.permutation(n)]
            t = np.transpose(np.ascontiguousarray(np.transpose(t, perm)), [int(x) for x in np.argsort(perm)])
        orig = t.copy()
        out = None if rng.random() < 0.4 else np.full(t.shape, np.nan, dtype=dtype)
        got = cirq.targeted_left_multiply(m.reshape(sub + sub), t, axes, out=out)
        want = L.apply_on_axes(orig, m, axes, sub)
        ok = L.allclose(got, want, tol * 10 * max(1, np.abs(want).max())) and np.array_equal(t, orig) and (out is None or got is out)
        ctx.check(ok, "linalg-helper", "C01:helper:targeted_left_multiply", "axes %s" % axes, axes=axes, **wit)
    elif kind == 1:  # apply_matrix_to_slices
        a = int(rng.integers(n))
        d = dims[a]
        t = (rng.standard_normal(D) + 1j * rng.standard_normal(D)).astype(dtype).reshape(dims)
        m = (rng.standard_normal((d, d)) + 1j * rng.standard_normal((d, d))).astype(dtype)
        slices = [tuple([slice(None)] * a + [i]) for i in range(d)]
        orig = t.copy()
        out = None if rng.random() < 0.5 else np.full(t.shape, np.nan, dtype=dtype)
        got = cirq.apply_matrix_to_slices(t, m, slices, out=out)
        want = L.apply_on_axes(orig, m, [a], [d])
        ctx.check(L.allclose(got, want, tol * 10 * max(1, np.abs(want).max())) and np.array_equal(t, orig), "linalg-helper", "C01:helper:apply_matrix_to_slices", "", axis=a, **wit)
    elif kind == 2:  # partial_trace
        rho = L.random_rho(rng, D).astype(dtype)
        keep = sorted(int(x) for x in rng.choice(n, size=int(rng.integers(0, n + 1)), replace=False))
        order = [int(x) for x in rng.permutation(len(keep))]
        keep_arg = [keep[i] for i in order]
        got = cirq.partial_trace(rho.reshape(dims + dims), keep_arg)
        want = L.ptrace_keep(rho, keep, dims)
        kd = [dims[k] for k in keep]
        want = L.permute_wires(want, order, kd) if keep else want
        dk = L.dim_of(kd)
        ctx.check(L.allclose(np.asarray(got).reshape(dk, dk), want.reshape(dk, dk), tol * 10), "linalg-helper", "C01:helper:partial_trace", "keep %s" % keep_arg, keep=keep_arg, **wit)
    elif kind == 3:  # kronecker products
        n2 = int(rng.integers(1, 3))
        dims2 = [int(rng.choice([2, 3])) for _ in range(n2)]
        a = L.random_state(rng, D).astype(dtype).reshape(dims)
        b = L.random_state(rng, L.dim_of(dims2)).astype(dtype).reshape(dims2)
        got = cirq.linalg.transformations.state_vector_kronecker_product(a, b)
        want = np.kron(a.reshape(-1), b.reshape(-1)).reshape(dims + dims2)
        ctx.check(got.shape == want.shape and L.allclose(got, want, tol), "linalg-helper", "C01:helper:state_vector_kronecker_product", "", **wit)
        ra = L.random_rho(rng, D).astype(dtype).reshape(dims + dims)
        rb = L.random_rho(rng, L.dim_of(dims2)).astype(dtype).reshape(dims2 + dims2)
        got = cirq.linalg.transformations.density_matrix_kronecker_product(ra, rb)
        want = np.kron(ra.reshape(D, D), rb.reshape(L.dim_of(dims2), L.dim_of(dims2))).reshape(dims + dims2 + dims + dims2)
        ctx.check(got.shape == want.shape and L.allclose(got, want, tol), "linalg-helper", "C01:helper:density_matrix_kronecker_product", "", **wit)
    elif kind == 4 and n >= 2:  # factor_state_vector on a product state, random axes
        k = int(rng.integers(1, n))
        axes = [int(x) for x in rng.choice(n, size=k, replace=False)]
        rest = [i for i in range(n) if i not in axes]
        ea = L.random_state(rng, L.dim_of([dims[a] for a in axes]))
        er = L.random_state(rng, L.dim_of([dims[a] for a in rest]))
        full = np.kron(ea, er).reshape([dims[a] for a in axes] + [dims[a] for a in rest])
        t = np.moveaxis(full, range(k), axes) if False else np.transpose(full, [int(x) for x in np.argsort(axes + rest)])
        t = t.astype(dtype)
        ex, rem = cirq.linalg.transformations.factor_state_vector(t, axes, validate=True, atol=1e-4)
        ok = (L.phase_equal(ex.reshape(-1), ea, tol * 50) and L.phase_equal(rem.reshape(-1), er, tol * 50)
              and L.allclose(np.kron(ex.reshape(-1), rem.reshape(-1)), np.kron(ea, er).astype(dtype), tol * 50))
        ctx.check(ok, "linalg-helper", "C01:helper:factor_state_vector", "axes %s" % axes, axes=axes, **wit)
        ent = L.random_state(rng, D).astype(dtype).reshape(dims)
        try:
            cirq.linalg.transformations.factor_state_vector(ent, axes, validate=True)
            ctx.check(False, "linalg-helper", "C01:helper:factor_state_vector-accepts-entangled", "", axes=axes, **wit)
        except ValueError:
            ctx.reject("factor-entangled")
    elif kind == 5 and n >= 2:  # factor_density_matrix
        k = int(rng.integers(1, n))
        axes = [int(x) for x in rng.choice(n, size=k, replace=False)]
        rest = [i for i in range(n) if i not in axes]
        da, dr = L.dim_of([dims[a] for a in axes]), L.dim_of([dims[a] for a in rest])
        ra, rr = L.random_rho(rng, da), L.random_rho(rng, dr)
        full = np.kron(ra, rr).reshape([dims[a] for a in axes] + [dims[a] for a in rest] + [dims[a] for a in axes] + [dims[a] for a in rest])
        inv = [int(x) for x in np.argsort(axes + rest)]
        t = np.transpose(full, inv + [n + i for i in inv]).astype(dtype)
        ex, rem = cirq.linalg.transformations.factor_density_matrix(t, axes, validate=True, atol=1e-4)
        ok = L.allclose(np.asarray(ex).reshape(da, da), ra, tol * 50) and L.allclose(np.asarray(rem).reshape(dr, dr), rr, tol * 50)
        ctx.check(ok, "linalg-helper", "C01:helper:factor_density_matrix", "axes %s" % axes, axes=axes, **wit)
    elif kind == 6:  # transposes
        t = (rng.standard_normal(D) + 1j * rng.standard_normal(D)).astype(dtype).reshape(dims)
        axes = [int(x) for x in rng.permutation(n)]
        got = cirq.linalg.transformations.transpose_state_vector_to_axis_order(t, axes)
        ctx.check(np.array_equal(got, np.transpose(t, axes)), "linalg-helper", "C01:helper:transpose_state_vector_to_axis_order", "", axes=axes, **wit)
        r = (rng.standard_normal(D * D)).astype(dtype).reshape(dims + dims)
        got = cirq.linalg.transformations.transpose_density_matrix_to_axis_order(r, axes)
        ctx.check(np.array_equal(got, np.transpose(r, axes + [n + a for a in axes])), "linalg-helper", "C01:helper:transpose_density_matrix_to_axis_order", "", axes=axes, **wit)
        flat = t.reshape(-1)
        got = cirq.linalg.transformations.transpose_flattened_array(flat, dims, axes)
        ctx.check(np.array_equal(got, np.transpose(t, axes).reshape(-1)), "linalg-helper", "C01:helper:transpose_flattened_array", "", axes=axes, **wit)
    elif kind == 7 and n >= 2:  # sub_state_vector
        k = int(rng.integers(1, n))
        keep = sorted(int(x) for x in rng.choice(n, size=k, replace=False))  # the result is over the kept qubits in index order
        rest = [i for i in range(n) if i not in keep]
        if any(d != 2 for d in dims):
            return
        ea = L.random_state(rng, 2 ** k)
        er = L.random_state(rng, 2 ** (n - k))
        full = np.kron(ea, er).reshape([2] * n)
        t = np.transpose(full, [int(x) for x in np.argsort(keep + rest)]).reshape(-1)
        got = cirq.sub_state_vector(t, keep, atol=1e-6)
        ctx.check(got is not None and L.phase_equal(np.asarray(got).reshape(-1), ea, 1e-6), "linalg-helper", "C01:helper:sub_state_vector", "keep %s" % keep, keep=keep, **wit)
        ent = L.random_state(rng, 2 ** n)
        ctx.check(cirq.sub_state_vector(ent, keep, default=None, atol=1e-8) is None, "linalg-helper", "C01:helper:sub_state_vector-accepts-entangled", "", keep=keep, **wit)
    else:  # to_valid_state_vector / one_hot basis states in mixed radix (big endian)
        idx = int(rng.integers(D))
        v = cirq.to_valid_state_vector(idx, qid_shape=tuple(dims), dtype=dtype)
        want = np.zeros(D)
        want[idx] = 1
        ctx.check(v.shape == (D,) and np.array_equal(v, want.astype(dtype)), "linalg-helper", "C01:helper:to_valid_state_vector-int", "", index=idx, **wit)
        digs = list(L.index_to_digits(idx, dims))
        if len(set(dims)) == 1 or True:
            v2 = cirq.to_valid_state_vector(digs, qid_shape=tuple(dims), dtype=dtype) if n > 0 else v
            ctx.check(np.array_equal(v2, want.astype(dtype)), "linalg-helper", "C01:helper:to_valid_state_vector-digits", "digits %s" % digs, digits=digs, **wit)
    ctx.distinct((kind, tuple(dims), dtype.__name__, int(rng.integers(1 << 30))))


SECTIONS = [
    ("programs", sec_programs, 3000, 60000, 6.0),
    ("sweeps", sec_sweeps, 1200, 20000, 1.5),
    ("classical", sec_classical, 1500, 30000, 1.0),
    ("helpers", sec_helpers, 2700, 60000, 1.0),
]
