"""C10 - parameter resolution and sweeps commute with everything else.

Monitors: ParamResolver.value_of (direct calls and every top-level call Cirq makes
internally, wrapped in setup), cirq.resolve_parameters / is_parameterized /
parameter_names on gates, operations, moments, circuits, CircuitOperations and
tags, every sweep class, the sweepable converters, Simulator.simulate_sweep /
run_sweep and cirq.flatten*.

Oracles (none shares code with Cirq's resolver): a plain recursive float
evaluator over the expression tree (vf.refmodel.expr_eval), sympy's own
xreplace + evalf, the closed-form gate catalogue with the numbers substituted,
pure-Python sweep definitions (vf.refmodel.sweeps_model), numpy state evolution.
"""
from __future__ import annotations

import math
import numbers
import warnings

import numpy as np

from vf.refmodel import expr_eval as EV
from vf.refmodel import linalg as L
from vf.refmodel import sweeps_model as SM
from vf.workloads import exprgen as XG
from vf.workloads import gatepool as GP

LEVEL = "exploration"
RULE = ("expression trees of depth <= 4 over + - * / ** (and sin/cos/exp) with 1-4 symbols, real and finite at every "
        "sub-expression for the chosen assignment; resolvers with str/Symbol keys, partial, chained a->b->c, looping; "
        "library gates built with such expressions as parameters; random moments/circuits/CircuitOperations/tags; sweep "
        "trees nested to depth 3 over every sweep class incl. empty and single-point; simulate_sweep/run_sweep circuits "
        "whose first parameterized op is at a random depth; flattening.  A case is non-trivial when it contains at least "
        "one symbol that the resolver/sweep binds (expressions, gates, circuits) or the sweep has >= 2 points or depth "
        ">= 2; distinct by the printed expression / gate family+expressions / sweep structure")
ASSUMPTIONS = [
    "ordinary algebra = real floating point evaluation; expressions leaving the real/finite domain at any sub-expression "
    "are outside the property (np.float_power vs complex algebra) and are rejected by the generator",
    "the gate catalogue (vf/refmodel/gates.py) is the specification of the library gates (property C03)",
    "tolerances: 1e-9 relative on expression values, 1e-7 on complex128 matrices, 1e-5 (sweep vs single) and "
    "2e-5*sqrt(dim) (vs numpy) on complex64 simulator states",
]
MIN_EVAL = {"value_of==algebra": 300, "value_of-in-situ": 300, "unitary(resolve)==catalogue": 300, "sweep-list": 100,
            "sweep-getitem": 300, "simulate_sweep[i]==simulate(s[i])": 50, "run_sweep-deterministic": 20,
            "flatten-gate-by-gate": 100, "moment-identity-shortcut": 100, "circuit-op-resolved": 50}
MUST_REACH = [
    "cirq/study/resolver.py:ParamResolver.value_of",
    "cirq/study/resolver.py:ParamResolver._value_of_recursive",
    "cirq/study/resolver.py:ParamResolver._resolve_parameters_",
    "cirq/circuits/moment.py:Moment._resolve_parameters_",
    "cirq/circuits/circuit.py:AbstractCircuit._resolve_parameters_",
    "cirq/circuits/circuit_operation.py:CircuitOperation._resolve_parameters_",
    "cirq/study/sweeps.py:Sweep.__getitem__",
    "cirq/study/sweeps.py:Product.param_tuples",
    "cirq/study/sweeps.py:Zip.param_tuples",
    "cirq/study/sweeps.py:ZipLongest.param_tuples",
    "cirq/study/sweeps.py:Concat.param_tuples",
    "cirq/study/sweeps.py:SingleSweep.param_tuples",
    "cirq/study/sweeps.py:ListSweep.param_tuples",
    "cirq/sim/simulator_base.py:SimulatorBase.simulate_sweep_iter",
    "cirq/study/flatten_expressions.py:_ParamFlattener.value_of",
    "cirq/study/flatten_expressions.py:ExpressionMap.transform_sweep",
    "cirq/study/flatten_expressions.py:ExpressionMap.transform_params",
]

ATOL_M = 1e-7
REL_V = 1e-9
_S = {}

# mechanism keys of the genuine defects this driver knows how to recognise ("explained-by" classification below)
K_POW = "C10:partial-resolution-pow-number-base-symbolic-exponent-TypeError"
K_PHFSIM = "C10:parameter-names-missing:PhasedFSimGate"
K_ZIPLONGEST = "C10:sweep-add-flattens-ZipLongest-operand"
K_MOMENT_EQ = "C10:moment-resolve-returns-self-for-value-equal-operation"


# =============================================================================================== helpers
def _close(x, y, scale=1.0):
    try:
        x, y = complex(x), complex(y)
    except (TypeError, ValueError):
        return False
    return abs(x - y) <= REL_V * max(1.0, abs(y), scale)


def _is_plain_number(v):
    import sympy

    return isinstance(v, numbers.Number) and not isinstance(v, sympy.Basic)


def _sympy_opinion(expr, env):
    """Second oracle opinion: sympy's own xreplace + evalf."""
    import sympy

    r = expr.xreplace({sympy.Symbol(k): sympy.Float(v, 17) for k, v in env.items()})
    r = sympy.N(r, 17)
    if r.free_symbols:
        raise EV.Unassigned(str(r.free_symbols))
    c = complex(r)
    if abs(c.imag) > 1e-12 * max(1.0, abs(c.real)) or not math.isfinite(c.real):
        raise EV.OutOfDomain("sympy says non-real")
    return c.real


def two_opinions(ctx, expr, env):
    """(value, scale) agreed by both oracle opinions, or None (counted) when they disagree or leave the domain."""
    tr = EV.Trace()
    try:
        v1 = EV.evaluate(expr, env, tr)
        v2 = _sympy_opinion(expr, env)
    except EV.OutOfDomain:
        ctx.reject("expression-out-of-real-domain")
        return None
    if not _close(v1, v2, tr.scale * 10):
        ctx.event("oracle-opinions-disagree")
        return None
    return v1, tr.scale


def mk_resolver(rng, env, wrap=None, sympy_values=False):
    """A resolver for `env` (name -> number | sympy expr) with random key style (str / Symbol / mixed) and value
    style (float / int when integral / numpy float; sympy numbers only on request - they are "expressions" to Cirq and
    are only meaningful with recursive resolution); returns a dict or a cirq.ParamResolver."""
    import cirq
    import sympy

    style = int(rng.integers(3))
    d = {}
    for k, v in env.items():
        key = k if style == 0 or (style == 2 and rng.random() < 0.5) else sympy.Symbol(k)
        if isinstance(v, float):
            r = rng.random()
            if r < 0.08 and v == int(v):
                v = int(v)
            elif r < 0.16:
                v = np.float64(v)
            elif r < 0.30 and sympy_values:
                v = sympy.Float(v, 17) if v != int(v) or rng.random() < 0.5 else sympy.Integer(int(v))
        d[key] = v
    if wrap is None:
        wrap = rng.random() < 0.6
    return cirq.ParamResolver(d) if wrap else d


def _pow_pattern(expr, bound):
    """Does the tree contain a Pow whose base becomes a number once `bound` names are resolved while the exponent keeps
    a free symbol?  (the shape on which ParamResolver.value_of calls np.float_power(number, sympy expr))"""
    if getattr(expr, "is_Pow", False) and len(expr.args) == 2:
        bn, en = EV.free_names(expr.args[0]), EV.free_names(expr.args[1])
        if bn <= bound and not en <= bound:
            return True
    return any(_pow_pattern(a, bound) for a in (getattr(expr, "args", ()) or ()))


def _sym_exponent(expr):
    if getattr(expr, "is_Pow", False) and len(expr.args) == 2 and EV.free_names(expr.args[1]):
        return True
    return any(_sym_exponent(a) for a in (getattr(expr, "args", ()) or ()))


def guarded_partial(ctx, fn, exprs, bound, monitor, what, **wit):
    wit["bound"] = list(bound)
    """Run a partial resolution.  The one known failure (TypeError from np.float_power on a number base with a still
    symbolic exponent) is keyed by mechanism only when the tree really has that shape; anything else propagates."""
    try:
        return True, fn()
    except TypeError as e:
        if "float_power" in str(e) and any(_pow_pattern(x, set(bound)) for x in exprs):
            ctx.check(False, monitor, K_POW,
                      "%s: resolving only %s raises TypeError(%s) instead of leaving the unresolved symbol in place"
                      % (what, sorted(bound), str(e)[:80]), **wit)
            return False, None
        raise


# =============================================================================================== in-situ monitor
def setup(ctx):
    import cirq

    _S["gspecs"] = [s for s in GP.build_specs() if _symbolic_idx(s, None) is not None]
    _S["allspecs"] = GP.build_specs()
    # a known mechanism is reported a few times per worker, then only counted (it must not crowd out new violations)
    orig_fail, seen = ctx.fail, {}

    def fail(mech, msg, **witness):
        if mech in (K_POW, K_PHFSIM, K_ZIPLONGEST, K_MOMENT_EQ):
            seen[mech] = seen.get(mech, 0) + 1
            if seen[mech] > 3:
                ctx.event("repeat:" + mech)
                return
        orig_fail(mech, msg, **witness)

    ctx.fail = fail
    cls = cirq.ParamResolver
    orig = cls.value_of
    state = {"depth": 0}

    def value_of(self, value, recursive=True):
        state["depth"] += 1
        try:
            out = orig(self, value, recursive)
        finally:
            state["depth"] -= 1
        if state["depth"] == 0 and type(self) is cls:
            try:
                _observe_value_of(ctx, self, value, recursive, out)
            except EV.OutOfDomain:
                pass
        return out

    value_of.__doc__ = orig.__doc__
    cls.value_of = value_of
    _S["orig_value_of"] = orig


def _observe_value_of(ctx, resolver, value, recursive, out):
    """Oracle for every top-level value_of call Cirq (or the driver) makes with a purely numeric resolver."""
    import sympy

    if not isinstance(value, sympy.Basic) or isinstance(value, sympy.Symbol) or not value.free_symbols:
        return
    env = {}
    for k, v in resolver.param_dict.items():
        name = k.name if isinstance(k, sympy.Symbol) else k
        f = EV._num(v)
        if f is None or not isinstance(name, str):
            return  # symbolic values: recursion semantics are judged by the dedicated section
        env[name] = f
    if not EV.free_names(value) <= set(env):
        return
    tr = EV.Trace()
    want = EV.evaluate(value, env, tr)
    ok = _is_plain_number(out) and _close(out, want, tr.scale)
    ctx.check(ok, "value_of-in-situ", "C10:value_of-in-situ:" + type(value).__name__,
              lambda: "value_of(%s) under %r returned %r, ordinary algebra gives %r" % (value, env, out, want),
              expr=str(value), env=env, got=repr(out), want=want)


# =============================================================================================== 1. expressions
def sec_expr(ctx, rng, case):
    import cirq
    import sympy

    kind = case % 6
    c = XG.gen_case(rng)
    if c is None:
        ctx.reject("no-in-domain-expression")
        return
    tree, expr, env = c
    names = EV.free_names(expr)
    txt = XG.show(tree)
    ctx.event("root:" + type(expr).__name__)
    wit = dict(expr=str(expr), tree=txt, env=env)
    op = two_opinions(ctx, expr, env)
    if op is None:
        return
    want, scale = op
    ctx.distinct(("expr", kind, txt), nontrivial=bool(names))

    if kind == 0:  # full numeric resolver, every entry point
        r = mk_resolver(rng, env)
        pr = cirq.ParamResolver(r)
        for how, fn in (("value_of", lambda: pr.value_of(expr)), ("value_of(recursive=False)", lambda: pr.value_of(expr, recursive=False)),
                        ("resolve_parameters", lambda: cirq.resolve_parameters(expr, r)), ("getitem", lambda: pr[expr]),
                        ("resolve_parameters_once", lambda: cirq.resolve_parameters_once(expr, r))):
            got = fn()
            ctx.check(_is_plain_number(got) and _close(got, want, scale), "value_of==algebra",
                      "C10:value_of:" + type(expr).__name__,
                      lambda: "%s(%s) = %r, ordinary algebra gives %r" % (how, expr, got, want), how=how, got=repr(got), want=want, **wit)
        again = pr.value_of(expr)
        ctx.check(_close(again, want, scale), "value_of-repeatable", "C10:value_of-second-call-differs", "", **wit)
        ps = cirq.ParamResolver(mk_resolver(rng, env, wrap=False, sympy_values=True))  # sympy numbers as values: recursive path
        got = ps.value_of(expr, recursive=True)
        ctx.check(_is_plain_number(got) and _close(got, want, scale), "value_of==algebra", "C10:value_of:sympy-number-values",
                  lambda: "value_of(%s) = %r with sympy numbers as resolver values, ordinary algebra gives %r" % (expr, got, want),
                  got=repr(got), want=want, resolver=repr(ps), **wit)
        ctx.check(cirq.is_parameterized(expr) is True and cirq.parameter_names(expr) == names, "parameter_names(expr)",
                  "C10:parameter-names:expr", "%r != %r" % (cirq.parameter_names(expr), names), **wit)
        for s in sorted(names):  # symbols and names resolve by exact match, str and Symbol alike
            ctx.check(_close(pr.value_of(s), env[s]) and _close(pr.value_of(sympy.Symbol(s)), env[s]), "value_of(symbol)",
                      "C10:value_of:symbol-lookup", "", symbol=s, **wit)
        ctx.sample({"expr": str(expr), "env": env, "value": want})

    elif kind == 1:  # partial resolver: the rest survives untouched, names shrink, completing it gives the full value
        if len(names) < 2:
            extra = sorted(names)[0]
            expr = expr + sympy.Symbol("u") * 0.5
            env = dict(env, u=XG.gen_value(rng))
            names = EV.free_names(expr)
            op = two_opinions(ctx, expr, env)
            if op is None:
                return
            want, scale = op
            wit = dict(expr=str(expr), tree=txt + " + u*0.5", env=env)
        ordered = sorted(names)
        k = int(rng.integers(1, len(ordered)))
        bound = [ordered[i] for i in rng.permutation(len(ordered))[:k]]
        r1 = mk_resolver(rng, {s: env[s] for s in bound})
        ok, got = guarded_partial(ctx, lambda: cirq.resolve_parameters(expr, r1), [expr], bound, "partial-resolution",
                                  "expression " + str(expr), **wit)
        if not ok:
            return
        gn = cirq.parameter_names(got)
        ctx.check(gn <= names - set(bound), "partial-names-shrink", "C10:partial:names",
                  "names after resolving %s: %s" % (bound, sorted(gn)), bound=bound, got=str(got), **wit)
        rest = {s: env[s] for s in names if s not in bound}
        try:
            v = EV.evaluate(got, rest) if isinstance(got, sympy.Basic) else float(got)
        except EV.OutOfDomain:
            ctx.reject("partial-result-out-of-domain")
            return
        ctx.check(_close(v, want, scale), "partial-then-rest==algebra", "C10:partial:value",
                  lambda: "resolve(%s, %s) = %s which evaluates to %r, expected %r" % (expr, bound, got, v, want),
                  bound=bound, got=str(got), want=want, **wit)
        got2 = cirq.resolve_parameters(got, mk_resolver(rng, rest))
        ctx.check(_is_plain_number(got2) and _close(got2, want, scale), "value_of==algebra", "C10:partial:compose",
                  "two-step resolution differs from algebra", bound=bound, got=repr(got2), want=want, **wit)

    elif kind == 2:  # resolver none of whose keys occurs: nothing changes
        r = mk_resolver(rng, {"zz": 1.25, "yy": -0.5})
        ok, got = guarded_partial(ctx, lambda: cirq.resolve_parameters(expr, r), [expr], (), "unrelated-untouched",
                                  "unrelated resolver on " + str(expr), **wit)
        if not ok:
            return
        gn = cirq.parameter_names(got)
        # (rebuilding the tree with floats may cancel a symbol algebraically, so the names can only shrink; the value decides)
        ctx.check(gn <= names, "unrelated-untouched", "C10:unrelated:names", "%s not within %s" % (sorted(gn), sorted(names)), **wit)
        try:
            v = EV.evaluate(got, env)
        except EV.OutOfDomain:
            ctx.reject("partial-result-out-of-domain")
            return
        ctx.check(_close(v, want, scale), "unrelated-untouched", "C10:unrelated:value", "", got=str(got), **wit)
        pr = cirq.ParamResolver({"zz": 1.0})
        ctx.check(pr.value_of("qq") == sympy.Symbol("qq") and pr.value_of(sympy.Symbol("qq")) == sympy.Symbol("qq"),
                  "unrelated-untouched", "C10:unrelated:symbol", "")
        for x in (1.5, 3, -2.25, np.float64(0.5), 0):
            ctx.check(pr.value_of(x) == x and _is_plain_number(pr.value_of(x)), "numbers-pass-through", "C10:number-changed", "", x=repr(x))

    elif kind == 3:  # chains a -> f(b) -> g(c) -> number; recursive and single step
        _expr_chain(ctx, rng, expr, env, names, want, scale, wit)

    elif kind == 4:  # loops raise RecursionError
        _expr_loop(ctx, rng, expr, env, names, wit)

    else:  # two resolvers with the same symbol names and different bindings, interleaved: no state may leak
        env2 = {s: XG.gen_value(rng) for s in env}
        op2 = two_opinions(ctx, expr, env2)
        if op2 is None:
            return
        want2, scale2 = op2
        ch1, ch2 = _chain_defs(rng, env, names), _chain_defs(rng, env2, names)
        if ch1 is None or ch2 is None:
            ctx.reject("chain-out-of-domain")
            return
        # the chains reproduce env only up to rounding; x**y with x < 0 is discontinuous in y, so the expected values are
        # the model's values at the chains' own fixed points (out-of-domain there -> rejected, counted)
        o1, o2 = _chain_want(ctx, expr, ch1, names), _chain_want(ctx, expr, ch2, names)
        if o1 is None or o2 is None:
            return
        (want, scale), (want2, scale2) = o1, o2
        p1, p2 = cirq.ParamResolver(mk_resolver(rng, ch1, wrap=False)), cirq.ParamResolver(mk_resolver(rng, ch2, wrap=False))
        for rnd in range(2):
            g1, g2 = p1.value_of(expr), p2.value_of(expr)
            ctx.check(_close(g1, want, scale) and _close(g2, want2, scale2), "resolvers-independent", "C10:state-leak-between-resolvers",
                      lambda: "interleaved resolvers: got %r / %r, expected %r / %r" % (g1, g2, want, want2),
                      defs1={k: str(v) for k, v in ch1.items()}, defs2={k: str(v) for k, v in ch2.items()}, **wit)
        p3 = cirq.ParamResolver(mk_resolver(rng, ch1, wrap=False))  # equal resolver built afresh
        ctx.check(_close(p3.value_of(expr), want, scale), "resolvers-independent", "C10:state-leak-between-resolvers", "fresh equal resolver differs", **wit)


def _chain_defs(rng, env, names):
    """Definitions name -> expr such that iterated substitution ends in env's numbers: each symbol s of the
    expression is defined through fresh symbols s1 (and s2) whose numeric values make s come out as env[s]."""
    import sympy

    defs = {}
    for s in sorted(names):
        v = env[s]
        depth = int(rng.integers(1, 4))
        if depth == 1:
            defs[s] = v
            continue
        s1, s2 = s + "1", s + "2"
        form = int(rng.integers(4))
        if form == 0:      # s = s1 + k
            k = float(round(rng.uniform(-1, 1), 3))
            defs[s], v1 = sympy.Symbol(s1) + k, v - k
        elif form == 1:    # s = k * s1
            k = float(rng.choice([2.0, 0.5, -1.5, 3.0]))
            defs[s], v1 = k * sympy.Symbol(s1), v / k
        elif form == 2:    # s = s1 (bare symbol, or its name as a string)
            defs[s], v1 = (sympy.Symbol(s1) if rng.random() < 0.6 else s1), v
        else:              # s = s1 / 2 + 1/4
            defs[s], v1 = sympy.Symbol(s1) / 2 + sympy.Rational(1, 4), (v - 0.25) * 2
        if depth == 2:
            defs[s1] = float(v1)
        else:
            k = float(round(rng.uniform(0.5, 2), 3))
            defs[s1] = sympy.Symbol(s2) * k
            defs[s2] = float(v1 / k)
    return defs


def _chain_want(ctx, expr, defs, names):
    """(value, scale) of expr at the fixed point of the chain definitions, by the model; None when out of domain there"""
    import sympy

    tdefs = {k: (sympy.Symbol(v) if isinstance(v, str) else v) for k, v in defs.items()}
    menv, looping, open_ = EV.fixed_point_env(tdefs)
    if looping or open_:
        raise AssertionError("chain generator produced a loop")
    return two_opinions(ctx, expr, {s_: float(menv[s_]) for s_ in names})


def _expr_chain(ctx, rng, expr, env, names, want, scale, wit):
    import cirq
    import sympy

    defs = _chain_defs(rng, env, names)
    op_ = _chain_want(ctx, expr, defs, names)
    if op_ is None:
        return
    want, scale = op_
    tdefs = {k: (sympy.Symbol(v) if isinstance(v, str) else v) for k, v in defs.items()}
    menv, looping, open_ = EV.fixed_point_env(tdefs)
    if looping or open_:
        raise AssertionError("chain generator produced a loop")
    wit = dict(wit, defs={k: str(v) for k, v in defs.items()})
    # the model's own fixed point must reproduce env (harness self-check), then judges Cirq
    for s in names:
        if not _close(menv[s], env[s], 1e3):
            raise AssertionError("chain model inconsistent")
    pr = cirq.ParamResolver(mk_resolver(rng, defs, wrap=False))
    got = pr.value_of(expr, recursive=True)
    ctx.check(_is_plain_number(got) and _close(got, want, scale * 10), "recursive==fixed-point", "C10:recursive:value",
              lambda: "recursive value_of(%s) = %r, iterated substitution gives %r" % (expr, got, want), got=repr(got), want=want, **wit)
    got_b = cirq.resolve_parameters(expr, pr)  # default recursive=True
    ctx.check(_is_plain_number(got_b) and _close(got_b, want, scale * 10), "recursive==fixed-point", "C10:recursive:value", "", got=repr(got_b), **wit)
    for s in sorted(names):
        g = pr.value_of(s)
        ctx.check(_is_plain_number(g) and _close(g, env[s], 10), "recursive==fixed-point", "C10:recursive:symbol",
                  "value_of(%r) = %r, expected %r" % (s, g, env[s]), **wit)
    # single step: one simultaneous substitution
    model_once = EV.substitute(expr, tdefs)
    ok, once = guarded_partial(ctx, lambda: pr.value_of(expr, recursive=False), [model_once], (), "single-step==one-substitution",
                               "single step on " + str(expr), **wit)
    if not ok:
        return
    probe = dict(menv)
    try:
        w1 = EV.evaluate(model_once, probe)
        g1 = EV.evaluate(once, probe) if isinstance(once, sympy.Basic) else float(once)
    except EV.OutOfDomain:
        ctx.reject("single-step-out-of-domain")
        return
    # menv is consistent, so the probe cannot tell a one-step from a two-step substitution by value; the free symbols can
    want_names = EV.free_names(model_once)
    got_names = EV.free_names(once) if isinstance(once, sympy.Basic) else set()
    ctx.check(_close(g1, w1, scale * 10) and got_names <= want_names, "single-step==one-substitution", "C10:single-step",
              lambda: "value_of(%s, recursive=False) = %s; one substitution step gives %s" % (expr, once, model_once),
              got=str(once), want=str(model_once), **wit)
    # an inconsistent probe distinguishes the number of steps taken
    probe2 = {k: XG.gen_value(rng) for k in probe}
    try:
        w2 = EV.evaluate(model_once, probe2)
        g2 = EV.evaluate(once, probe2) if isinstance(once, sympy.Basic) else float(once)
        tr = EV.Trace()
        EV.evaluate(model_once, probe2, tr)
    except EV.OutOfDomain:
        return
    ctx.check(_close(g2, w2, tr.scale * 10), "single-step==one-substitution", "C10:single-step",
              lambda: "value_of(%s, recursive=False) = %s; one substitution step gives %s" % (expr, once, model_once),
              got=str(once), want=str(model_once), probe=probe2, **wit)
    ctx.sample({"expr": str(expr), "defs": {k: str(v) for k, v in defs.items()}, "value": want})


def _expr_loop(ctx, rng, expr, env, names, wit):
    import cirq
    import sympy

    ordered = sorted(names)
    s = ordered[int(rng.integers(len(ordered)))]
    S = sympy.Symbol
    form = int(rng.integers(4))
    defs = {n: env[n] for n in ordered if n != s}
    if form == 0:
        defs[s] = S(s) + 1
    elif form == 1:
        defs[s], defs["lp"] = S("lp"), S(s)
    elif form == 2:
        defs[s], defs["lp"], defs["lq"] = S("lp") * 2, S("lq") + 1, S(s) / 2
    else:
        defs[s], defs["lp"] = S("lp") + 0.5, 2 * S("lp")  # s leads into a cycle it is not on
    _, looping, _ = EV.fixed_point_env(defs)
    if s not in looping:
        raise AssertionError("loop generator did not produce a loop")
    wit = dict(wit, defs={k: str(v) for k, v in defs.items()})
    pr = cirq.ParamResolver(mk_resolver(rng, defs, wrap=False))
    for attempt in range(2):  # the second call must still refuse (sentinel left in the memo or not)
        try:
            got = pr.value_of(expr, recursive=True)
            ctx.check(False, "loop-raises-RecursionError", "C10:loop-not-detected",
                      "value_of(%s) returned %r although %s is defined through itself" % (expr, got, s), **wit)
        except RecursionError:
            ctx.ok("loop-raises-RecursionError")
    try:
        cirq.resolve_parameters(expr, pr)
        ctx.check(False, "loop-raises-RecursionError", "C10:loop-not-detected", "resolve_parameters did not raise", **wit)
    except RecursionError:
        ctx.ok("loop-raises-RecursionError")
    # single step never loops
    model_once = EV.substitute(expr, defs)
    ok, once = guarded_partial(ctx, lambda: pr.value_of(expr, recursive=False), [model_once], (), "single-step==one-substitution",
                               "single step on " + str(expr), **wit)
    if not ok:
        return
    probe = {k: XG.gen_value(rng) for k in EV.free_names(model_once) | (EV.free_names(once) if isinstance(once, sympy.Basic) else set())}
    try:
        tr = EV.Trace()
        w = EV.evaluate(model_once, probe, tr)
        g = EV.evaluate(once, probe) if isinstance(once, sympy.Basic) else float(once)
    except EV.OutOfDomain:
        return
    ctx.check(_close(g, w, tr.scale * 10), "single-step==one-substitution", "C10:single-step", "", got=str(once), want=str(model_once), **wit)
    # symbols that do not reach the loop still resolve
    for n in ordered:
        if n != s:
            ctx.check(_close(pr.value_of(n), env[n]), "loop-leaves-others-resolvable", "C10:loop-poisons-others", "", symbol=n, **wit)


# =============================================================================================== 2. gates
def _symbolic_idx(spec, p):
    """Indices of the constructor parameters that accept sympy expressions (exponent / phase_exponent / angles; never
    global_shift).  None when the family takes no symbolic parameter."""
    n = spec.name
    if spec.eigen:
        return [0]
    if n in ("rx", "ry", "rz", "Rx", "Ry", "Rz", "ms", "givens", "cphase") or n.startswith("PhaseGradient"):
        return [0]
    if n in ("PhasedXPow", "FSim", "PhasedISwapPow", "PhasedISwapPowShift"):
        return [0, 1]
    if n == "PhasedXZ":
        return [0, 1, 2]
    if n == "PhasedFSim":
        return [0, 1, 2, 3, 4]
    if n.startswith("Diagonal") or n in ("TwoQubitDiagonal", "ThreeQubitDiagonal"):
        return list(range(len(p))) if p is not None else []
    return None


def gen_param_expr(rng, syms, env, general=True, allow_sym_exponent=True):
    """(sympy expr, value) over `syms`, in the domain under env, |value| <= 12."""
    import sympy

    for _ in range(30):
        r = rng.random()
        s = syms[int(rng.integers(len(syms)))]
        if r < 0.3:
            t = ("sym", s)
        elif r < 0.55 or not general:
            k = float(rng.choice([2.0, 0.5, -1.0, 0.25, 3.0, -0.5]))
            c = float(rng.choice([0.0, 0.25, -0.5, 1.0]))
            t = ("add", ("mul", ("float", k), ("sym", s)), ("float", c)) if c else ("mul", ("float", k), ("sym", s))
            if rng.random() < 0.3 and len(syms) > 1:
                t = ("add", t, ("sym", syms[int(rng.integers(len(syms)))]))
        else:
            t = XG.gen_expr(rng, syms, int(rng.integers(1, 4)), 0.05)
        try:
            va = XG.eval_abstract(t, env)
            e = XG.to_sympy(t)
            if not EV.free_names(e):
                continue
            v = EV.evaluate(e, env)
        except (EV.OutOfDomain, ZeroDivisionError, OverflowError, ValueError):
            continue
        if abs(va - v) > 1e-9 * max(1, abs(v)) or abs(v) > 12:
            continue
        if not allow_sym_exponent and _sym_exponent(e):
            continue
        return e, v
    e = sympy.Symbol(syms[0])
    return e, float(env[syms[0]])


class MOp:
    """Model operation: gate family + parameters (numbers or sympy expressions) + wires + tags."""

    def __init__(self, spec, params, wires, tags=()):
        self.spec, self.params, self.wires, self.tags = spec, list(params), tuple(wires), list(tags)

    def exprs(self):
        import sympy

        out = [p for p in self.params if isinstance(p, sympy.Basic)]
        for t in self.tags:
            if t[0] in ("symtag", "ptag"):
                out.append(t[1])
        return out

    def gate_names(self):
        import sympy

        s = set()
        for p in self.params:
            if isinstance(p, sympy.Basic):
                s |= EV.free_names(p)
        return s

    def tag_names(self):
        s = set()
        for t in self.tags:
            if t[0] in ("symtag", "ptag"):
                s |= EV.free_names(t[1])
        return s

    def names(self):
        return self.gate_names() | self.tag_names()

    def numeric(self, env, subst=None):
        import sympy

        out = []
        for p in self.params:
            if isinstance(p, sympy.Basic):
                e = p
                for m in (subst or ()):
                    e = EV.substitute(e, m)
                out.append(EV.evaluate(e, env) if isinstance(e, sympy.Basic) else float(e))
            else:
                out.append(p)
        return tuple(out)

    def ref(self, env, subst=None):
        return self.spec.ref(self.numeric(env, subst))

    def gate(self):
        return self.spec.make(tuple(self.params))

    def show(self):
        return "%s(%s)@%s" % (self.spec.name, ",".join(str(p)[:40] if not isinstance(p, np.ndarray) else "M" for p in self.params), list(self.wires))


class ParamTag:
    """A harness-defined tag that carries a sympy expression and implements the parameterization protocol."""

    def __init__(self, value):
        self.value = value

    def _is_parameterized_(self):
        import cirq

        return cirq.is_parameterized(self.value)

    def _parameter_names_(self):
        import cirq

        return cirq.parameter_names(self.value)

    def _resolve_parameters_(self, resolver, recursive):
        import cirq

        return ParamTag(cirq.resolve_parameters(self.value, resolver, recursive))

    def __eq__(self, other):
        return isinstance(other, ParamTag) and self.value == other.value

    def __hash__(self):
        return hash(("ParamTag", self.value))

    def __repr__(self):
        return "ParamTag(%r)" % (self.value,)


def gen_symbolic_mop(rng, spec, syms, env, wires, general=True, allow_sym_exponent=True, all_idx=False):
    p = list(spec.sample(rng))
    idx = _symbolic_idx(spec, p)
    k = len(idx) if all_idx else int(rng.integers(1, len(idx) + 1))
    chosen = [idx[i] for i in rng.permutation(len(idx))[:k]]
    for i in chosen:
        e, _ = gen_param_expr(rng, syms, env, general, allow_sym_exponent)
        p[i] = e
    return MOp(spec, p, wires)


def _qids(spec, wires=None):
    import cirq

    wires = range(len(spec.shape)) if wires is None else wires
    return [cirq.LineQid(w, d) for w, d in zip(wires, spec.shape)]


def _names_check(ctx, obj, want, what, phfsim_only, **wit):
    """parameter_names(obj) == want.  A miss is attributed to the PhasedFSimGate defect only when the names that are
    missing are exactly those visible through PhasedFSimGate parameters alone."""
    import cirq

    got = set(cirq.parameter_names(obj))
    if got == want:
        ctx.ok("parameter_names==model")
        return True
    mech = "C10:parameter-names:" + what
    if phfsim_only and got == want - phfsim_only and not hasattr(cirq.PhasedFSimGate, "_parameter_names_"):
        mech = K_PHFSIM
    ctx.check(False, "parameter_names==model", mech,
              "parameter_names(%s) = %s, the symbols inside are %s" % (what, sorted(got), sorted(want)), **wit)
    return False


def _identity_check(ctx, obj, res, resolvable, what, **wit):
    """When resolution hands back the very same object, nothing resolvable may have been inside."""
    if res is obj:
        ctx.check(not resolvable, "identity-shortcut", "C10:identity-shortcut:" + what,
                  "%s: resolve returned self although %s were bound by the resolver" % (what, sorted(resolvable)), **wit)
    else:
        ctx.ok("identity-shortcut")


def sec_gates(ctx, rng, case):
    import cirq
    import sympy

    specs = _S["gspecs"]
    spec = specs[case % len(specs)]
    nsyms = int(rng.integers(1, 4))
    syms = XG.SYMS[:nsyms]
    env = {s: XG.gen_value(rng) for s in syms}
    m = gen_symbolic_mop(rng, spec, syms, env, range(len(spec.shape)))
    try:
        ref = m.ref(env)
    except EV.OutOfDomain:
        ctx.reject("expression-out-of-real-domain")
        return
    names = m.names()
    g = m.gate()
    fam = spec.name
    wit = dict(family=fam, params=[str(p) for p in m.params], env=env)
    ctx.check(cirq.is_parameterized(g) is True, "is_parameterized", "C10:is-parameterized-false:" + fam, "", **wit)
    _names_check(ctx, g, names, "gate:" + fam, names if fam == "PhasedFSim" else set(), **wit)
    if fam != "PhasedFSim":
        ctx.check(cirq.parameter_symbols(g) == {sympy.Symbol(n) for n in names}, "parameter_names==model", "C10:parameter-symbols:" + fam, "", **wit)

    def matrix_ok(obj, want, how):
        u = cirq.unitary(obj, None)
        ok = u is not None and L.allclose(u, want, ATOL_M)
        ctx.check(ok, "unitary(resolve)==catalogue", "C10:commute-unitary:%s:%s" % (how, fam),
                  lambda: "%s: unitary after resolution %s" % (how, "is missing" if u is None else "differs from the catalogue by %.3g" % L.maxdiff(u, want)),
                  how=how, **wit)
        return ok

    full = mk_resolver(rng, env)
    g1 = cirq.resolve_parameters(g, full)
    ctx.check(not cirq.is_parameterized(g1) and not cirq.parameter_names(g1), "resolved-not-parameterized", "C10:still-parameterized:" + fam, repr(g1)[:200], **wit)
    matrix_ok(g1, ref, "gate")
    _identity_check(ctx, g, g1, names, "gate:" + fam, **wit)
    qs = _qids(spec)
    form = int(rng.integers(5))
    if form == 0:
        op = g.on(*qs)
        matrix_ok(cirq.resolve_parameters(op, full), ref, "operation")
        _names_check(ctx, op, names, "operation:" + fam, names if fam == "PhasedFSim" else set(), **wit)
    elif form == 1:
        tsym = sympy.Symbol(syms[0])
        op = g.on(*qs).with_tags("plain", tsym, ParamTag(tsym * 2))
        ro = cirq.resolve_parameters(op, full)
        matrix_ok(ro, ref, "tagged-operation")
        tv = ro.tags
        ok = (len(tv) == 3 and tv[0] == "plain" and _is_plain_number(tv[1]) and _close(tv[1], env[syms[0]])
              and isinstance(tv[2], ParamTag) and _is_plain_number(tv[2].value) and _close(tv[2].value, 2 * env[syms[0]]))
        ctx.check(ok, "tags-resolved", "C10:tags-not-resolved", "tags after resolution: %r" % (tv,), **wit)
        ctx.check(not cirq.is_parameterized(ro), "resolved-not-parameterized", "C10:still-parameterized:tagged", "", **wit)
        _names_check(ctx, op, names | {syms[0]}, "tagged-operation:" + fam, (names - {syms[0]}) if fam == "PhasedFSim" else set(), **wit)
        # a tag may be the only parameterized thing
        op2 = cirq.X(cirq.LineQubit(0)).with_tags(tsym)
        r2 = cirq.resolve_parameters(op2, full)
        ctx.check(cirq.is_parameterized(op2) and cirq.parameter_names(op2) == {syms[0]} and not cirq.is_parameterized(r2)
                  and _close(r2.tags[0], env[syms[0]]), "tags-resolved", "C10:tags-not-resolved", "tag-only operation", **wit)
    elif form == 2:
        cg = cirq.ControlledGate(g)
        d = L.dim_of(spec.shape)
        want = np.eye(2 * d, dtype=complex)
        want[d:, d:] = ref
        matrix_ok(cirq.resolve_parameters(cg, full), want, "controlled-gate")
        _names_check(ctx, cg, names, "controlled:" + fam, names if fam == "PhasedFSim" else set(), **wit)
    elif form == 3:
        inv = cirq.inverse(g, None)
        if inv is not None:
            matrix_ok(cirq.resolve_parameters(inv, full), ref.conj().T, "inverse")
        else:
            ctx.event("no-symbolic-inverse:" + fam)
    elif spec.eigen:
        k = float(rng.choice([2.0, 0.5, -1.0, 3.0, 0.25]))
        gk = g ** k
        num = m.numeric(env)
        matrix_ok(cirq.resolve_parameters(gk, full), spec.ref((num[0] * k, num[1])), "gate**k")
    # partial resolution, then the rest
    if len(names) >= 2:
        ordered = sorted(names)
        kk = int(rng.integers(1, len(ordered)))
        bound = [ordered[i] for i in rng.permutation(len(ordered))[:kk]]
        ok, g2 = guarded_partial(ctx, lambda: cirq.resolve_parameters(g, mk_resolver(rng, {s: env[s] for s in bound})),
                                 m.exprs(), bound, "partial-resolution", "gate " + fam, **wit)
        if ok:
            if fam != "PhasedFSim":
                gn = set(cirq.parameter_names(g2))
                ctx.check(gn <= names - set(bound) and (not gn or cirq.is_parameterized(g2)), "partial-names-shrink",
                          "C10:partial:names:" + fam, "names after resolving %s: %s" % (bound, sorted(gn)), bound=bound, **wit)
            _identity_check(ctx, g, g2, set(bound), "gate:" + fam, **wit)
            g3 = cirq.resolve_parameters(g2, mk_resolver(rng, {s: env[s] for s in names if s not in bound}))
            matrix_ok(g3, ref, "partial-then-rest")
    # unrelated resolver
    ok, g4 = guarded_partial(ctx, lambda: cirq.resolve_parameters(g, {"zz": 0.5}), m.exprs(), (), "unrelated-untouched", "gate " + fam, **wit)
    if ok:
        if fam != "PhasedFSim":
            ctx.check(set(cirq.parameter_names(g4)) <= names, "unrelated-untouched", "C10:unrelated:names:" + fam, "", **wit)
        matrix_ok(cirq.resolve_parameters(g4, full), ref, "unrelated-then-full")
    # recursive chain through a gate, and resolver composition
    defs = _chain_defs(rng, env, names)
    # the chain reproduces env only up to rounding and x**y (x < 0) is discontinuous in y: the expected matrix is the
    # catalogue matrix at the chain's own fixed point (out of the real domain there -> counted, not judged)
    menv, looping, open_ = EV.fixed_point_env({k: (sympy.Symbol(v) if isinstance(v, str) else v) for k, v in defs.items()})
    if looping or open_:
        raise AssertionError("chain generator produced a loop")
    try:
        ref_chain = m.ref({s_: (float(menv[s_]) if s_ in menv else env[s_]) for s_ in env})
    except EV.OutOfDomain:
        ref_chain = None
        ctx.reject("chain-fixed-point-out-of-real-domain")
    if ref_chain is not None:
        matrix_ok(cirq.resolve_parameters(g, mk_resolver(rng, defs)), ref_chain, "chain-resolver")
    S = sympy.Symbol
    r1 = {s: S(s + "_") * 2 for s in names}
    r2 = {s + "_": env[s] / 2 for s in names}
    r12 = cirq.resolve_parameters(cirq.ParamResolver(mk_resolver(rng, r1, wrap=False)), cirq.ParamResolver(mk_resolver(rng, r2, wrap=False)))
    ctx.check(isinstance(r12, cirq.ParamResolver), "resolver-composition", "C10:composition:type", repr(r12)[:200], **wit)
    matrix_ok(cirq.resolve_parameters(g, r12), ref, "composed-resolver")
    ok, mid = guarded_partial(ctx, lambda: cirq.resolve_parameters(g, r1), m.exprs(), (), "partial-resolution", "gate " + fam + " symbol->expression", **wit)
    if ok:
        matrix_ok(cirq.resolve_parameters(mid, r2), ref, "two-step-resolution")
    # composition with overlapping keys: r1 rewrites some symbols (to a number, or to an expression in a symbol it leaves alone),
    # r2 binds every symbol.  Resolving with the composed resolver == resolving with r1 and then with r2.
    ordered = sorted(names)
    if ordered:
        env_b = {s_: XG.gen_value(rng) for s_ in ordered}
        rewritten = [s_ for s_ in ordered if rng.random() < 0.6] or ordered[:1]
        kept = [s_ for s_ in ordered if s_ not in rewritten]
        r1o, env_seq = {}, dict(env_b)
        for s_ in rewritten:
            if kept and rng.random() < 0.55:
                o_ = kept[int(rng.integers(len(kept)))]
                k_ = float(round(rng.uniform(-1, 1), 3))
                r1o[s_], env_seq[s_] = S(o_) + k_, env_b[o_] + k_
            else:
                v_ = XG.gen_value(rng)
                r1o[s_], env_seq[s_] = v_, v_
        try:
            ref_seq = m.ref(env_seq)
        except EV.OutOfDomain:
            ref_seq = None
            ctx.reject("composition-out-of-real-domain")
        if ref_seq is not None:
            w_o = dict(wit, r1={k_: str(v_) for k_, v_ in r1o.items()}, r2=env_b)
            comp = cirq.resolve_parameters(cirq.ParamResolver(mk_resolver(rng, r1o, wrap=False)), cirq.ParamResolver(mk_resolver(rng, env_b, wrap=False)))
            u_c = cirq.unitary(cirq.resolve_parameters(g, comp), None)
            ctx.check(u_c is not None and L.allclose(u_c, ref_seq, ATOL_M), "resolver-composition", "C10:composition:overlapping-keys:" + fam,
                      "resolving with the composition of r1 and r2 differs from resolving with r1, then r2", **w_o)
            ok, mid2 = guarded_partial(ctx, lambda: cirq.resolve_parameters(g, mk_resolver(rng, r1o)), m.exprs(), tuple(r1o), "partial-resolution", "gate " + fam + " r1 of a composition", **w_o)
            if ok:
                u_s = cirq.unitary(cirq.resolve_parameters(mid2, mk_resolver(rng, env_b)), None)
                ctx.check(u_s is not None and L.allclose(u_s, ref_seq, ATOL_M), "resolver-composition", "C10:composition:sequential:" + fam,
                          "resolving with r1 and then r2 differs from the model", **w_o)
    ctx.distinct(("gate", fam, tuple(str(p) for p in m.params)), nontrivial=bool(names) and not L.allclose(ref, np.eye(ref.shape[0]), 1e-6))
    ctx.sample({"family": fam, "params": [str(p) for p in m.params], "env": env})


# =============================================================================================== 3. moments, circuits, tags
def _wire_qid(w, d):
    import cirq

    return cirq.LineQubit(w) if d == 2 else cirq.LineQid(w, d)


def gen_model_circuit(rng, dims, nmoments, syms, env, p_sym=0.5, general=True, allow_sym_exponent=False, p_tag=0.2,
                      pool=None, fill=0.8):
    """List of moments (lists of MOp) over wires with dimensions `dims`."""
    import sympy

    pool = pool if pool is not None else [s for s in _S["allspecs"] if len(s.shape) >= 1]
    sym_ok = {s.name for s in _S["gspecs"]}
    moments = []
    for _ in range(nmoments):
        free = [int(w) for w in rng.permutation(len(dims))]
        ops = []
        for _try in range(len(dims) + 2):
            if not free or rng.random() > fill:
                break
            spec = pool[int(rng.integers(len(pool)))]
            wires, left = [], list(free)
            for d in spec.shape:
                cand = [w for w in left if dims[w] == d]
                if not cand:
                    wires = None
                    break
                wires.append(cand[0])
                left.remove(cand[0])
            if wires is None:
                continue
            free = left
            if spec.name in sym_ok and syms and rng.random() < p_sym:
                m = gen_symbolic_mop(rng, spec, syms, env, wires, general, allow_sym_exponent)
            else:
                m = MOp(spec, spec.sample(rng), wires)
            if syms and rng.random() < p_tag:
                r = rng.random()
                if r < 0.3:
                    m.tags.append(("plain", "t%d" % int(rng.integers(3))))
                elif r < 0.65:
                    m.tags.append(("symtag", sympy.Symbol(syms[int(rng.integers(len(syms)))])))
                else:
                    m.tags.append(("ptag", gen_param_expr(rng, syms, env, False, False)[0]))
            ops.append(m)
        moments.append(ops)
    return moments


def build_op(m, dims):
    op = m.gate().on(*[_wire_qid(w, dims[w]) for w in m.wires])
    if m.tags:
        op = op.with_tags(*[(t[1] if t[0] != "ptag" else ParamTag(t[1])) for t in m.tags])
    return op


def build_circuit(moments, dims):
    import cirq

    return cirq.Circuit([cirq.Moment([build_op(m, dims) for m in ops]) for ops in moments])


def _agg_names(mops):
    names, other = set(), set()
    for m in mops:
        names |= m.names()
        other |= m.tag_names()
        if m.spec.name != "PhasedFSim":
            other |= m.gate_names()
    return names, names - other  # (all names, names visible through PhasedFSimGate parameters only)


def _eq_blind(m):
    """Is this a PhasedFSimGate whose value equality ignores a parameter that is symbolic here (theta = pi/2 mod pi
    ignores zeta, theta = 0 mod pi ignores chi) while another parameter stays symbolic?  Moment resolution decides
    "changed" by value equality, so resolving only the ignored parameter is silently dropped."""
    import sympy

    if m.spec.name != "PhasedFSim" or isinstance(m.params[0], sympy.Basic):
        return False
    th = float(m.params[0])
    blind = None
    if abs(math.cos(th)) < 1e-7:
        blind = 1
    elif abs(math.sin(th)) < 1e-7:
        blind = 2
    return blind is not None and isinstance(m.params[blind], sympy.Basic)


def check_resolved_ops(ctx, got_ops, mops, dims, env, how, subst=None, multi_step=False, **wit):
    """Gate by gate: same wires, not parameterized any more, matrix == catalogue with the numbers substituted,
    tags resolved to the numbers."""
    import cirq

    if len(got_ops) != len(mops):
        ctx.check(False, "unitary(resolve)==catalogue", "C10:structure-changed:" + how,
                  "%d operations after resolution, %d expected" % (len(got_ops), len(mops)), **wit)
        return False
    allok = True
    for op, m in zip(got_ops, mops):
        want_q = tuple(_wire_qid(w, dims[w]) for w in m.wires)
        u = None if cirq.is_parameterized(op) else cirq.unitary(op, None)
        ref = m.ref(env, subst)
        ok = tuple(op.qubits) == want_q and u is not None and L.allclose(u, ref, ATOL_M)
        if not ok:
            allok = False
            mech = "C10:commute-unitary:%s:%s" % (how, m.spec.name)
            if multi_step and u is None and _eq_blind(m) and tuple(op.qubits) == want_q:
                mech = K_MOMENT_EQ  # explained: the moment kept `self` in an earlier step because the op compared equal
            ctx.check(False, "unitary(resolve)==catalogue", mech,
                      "%s: %s resolved to %s; %s" % (how, m.show(), repr(op)[:160],
                                                     "still parameterized / no unitary" if u is None else "matrix differs by %.3g" % L.maxdiff(u, ref)),
                      op=m.show(), **wit)
        else:
            ctx.ok("unitary(resolve)==catalogue")
        sym_tags = [t for t in m.tags if t[0] != "plain"]
        if sym_tags:
            tv = list(op.tags)
            good = len(tv) == len(m.tags)
            for t, v in zip(m.tags, tv):
                if not good:
                    break
                if t[0] == "plain":
                    good = v == t[1]
                else:
                    e = t[1]
                    for mp in (subst or ()):
                        e = EV.substitute(e, mp)
                    want = EV.evaluate(e, env)
                    val = v.value if (t[0] == "ptag" and isinstance(v, ParamTag)) else (v if t[0] == "symtag" else None)
                    good = val is not None and _is_plain_number(val) and _close(val, want, 10)
            ctx.check(good, "tags-resolved", "C10:tags-not-resolved:" + how, "tags %r for %s" % (tv, m.show()), **wit)
            allok = allok and good
    return allok


def sec_circuits(ctx, rng, case):
    import cirq
    import sympy

    nw = int(rng.integers(2, 5))
    dims = [2] * nw
    if rng.random() < 0.25:
        dims[int(rng.integers(nw))] = 3
    nsyms = int(rng.integers(1, 5))
    syms = XG.SYMS[:nsyms]
    env = {s: XG.gen_value(rng) for s in syms}
    moments = gen_model_circuit(rng, dims, int(rng.integers(2, 7)), syms, env, p_sym=float(rng.choice([0.25, 0.5, 0.8])))
    flat = [m for ops in moments for m in ops]
    try:
        for m in flat:
            m.ref(env)
            for t in m.tags:
                if t[0] != "plain":
                    EV.evaluate(t[1], env)
    except EV.OutOfDomain:
        ctx.reject("expression-out-of-real-domain")
        return
    C = build_circuit(moments, dims)
    frozen = case % 3 == 1
    ctag = None
    if case % 4 == 3:
        ctag = sympy.Symbol(syms[-1])
        C = C.with_tags(ctag, "plain-circuit-tag")
    if frozen:
        C = C.freeze()
    names, ph_only = _agg_names(flat)
    if ctag is not None:
        ph_only = ph_only - {ctag.name}
        names = names | {ctag.name}
    wit = dict(circuit=[[m.show() for m in ops] for ops in moments], values=env, frozen=frozen, circuit_tag=str(ctag))
    # ---- names / is_parameterized at every level (twice: the second call reads the caches)
    for rnd in range(2):
        _names_check(ctx, C, names, "circuit", ph_only, **wit)
        ctx.check(cirq.is_parameterized(C) == bool(names), "is_parameterized", "C10:is-parameterized:circuit", "", **wit)
    for i, ops in enumerate(moments):
        mn, mph = _agg_names(ops)
        _names_check(ctx, C[i], mn, "moment", mph, moment=i, **wit)
        ctx.check(cirq.is_parameterized(C[i]) == bool(mn), "is_parameterized", "C10:is-parameterized:moment", "", moment=i, **wit)
        for op, m in zip(C[i].operations, ops):
            _names_check(ctx, op, m.names(), "operation:" + m.spec.name, m.gate_names() - m.tag_names() if m.spec.name == "PhasedFSim" else set(), op=m.show(), **wit)
    # ---- full resolution
    full = mk_resolver(rng, env)
    R = cirq.resolve_parameters(C, full)
    ctx.check(type(R) is type(C) and len(R) == len(C), "resolve-keeps-type", "C10:resolve-type", "%s -> %s" % (type(C).__name__, type(R).__name__), **wit)
    ctx.check(not cirq.is_parameterized(R) and not cirq.parameter_names(R), "resolved-not-parameterized", "C10:still-parameterized:circuit", "", **wit)
    for i, ops in enumerate(moments):
        check_resolved_ops(ctx, list(R[i].operations), ops, dims, env, "circuit", moment=i, **wit)
    _identity_check(ctx, C, R, names, "circuit", **wit)
    if ctag is not None:
        tv = R.tags
        ctx.check(len(tv) == 2 and _is_plain_number(tv[0]) and _close(tv[0], env[ctag.name]) and tv[1] == "plain-circuit-tag",
                  "tags-resolved", "C10:tags-not-resolved:circuit", "circuit tags after resolution %r" % (tv,), **wit)
    # ---- partial resolution: moment by moment, identity short-cut in both directions that are promised
    if names:
        ordered = sorted(names)
        k = int(rng.integers(1, len(ordered) + 1))
        bound = set(ordered[i] for i in rng.permutation(len(ordered))[:k])
        if rng.random() < 0.3:
            bound_env = dict({s: env[s] for s in bound}, zz=0.75)
        else:
            bound_env = {s: env[s] for s in bound}
        r1 = mk_resolver(rng, bound_env)
        rest = mk_resolver(rng, {s: env[s] for s in names if s not in bound})
        for i, ops in enumerate(moments):
            mn, _ = _agg_names(ops)
            Rm = cirq.resolve_parameters(C[i], r1)
            resolvable = mn & bound
            if Rm is C[i]:
                mech = "C10:identity-shortcut:moment"
                if resolvable:
                    # explained-by: every operation that holds a bound symbol resolves correctly on its own but compares
                    # equal to the original (value equality blind to the changed parameter)
                    hit = [(op, m) for op, m in zip(C[i].operations, ops) if m.names() & bound]
                    if hit and all(_eq_blind(m) and cirq.resolve_parameters(op, r1) == op for op, m in hit):
                        mech = K_MOMENT_EQ
                ctx.check(not resolvable, "moment-identity-shortcut", mech,
                          "Moment resolution returned self although %s occur in it" % sorted(resolvable), moment=i, bound=sorted(bound), **wit)
            else:
                ctx.ok("moment-identity-shortcut")
            left = set()
            for op, m in zip(Rm.operations, ops):
                if m.spec.name != "PhasedFSim":
                    left |= set(cirq.parameter_names(op))
            ctx.check(not (left & bound) and left <= mn, "partial-names-shrink", "C10:partial:names:moment",
                      "after resolving %s the moment still names %s" % (sorted(bound), sorted(left)), moment=i, **wit)
            Rm2 = cirq.resolve_parameters(Rm, rest) if rest else Rm
            check_resolved_ops(ctx, list(Rm2.operations), ops, dims, env, "moment-partial-then-rest", multi_step=True, moment=i, bound=sorted(bound), **wit)
        R1 = cirq.resolve_parameters(C, r1)
        if R1 is C and (names & bound) and all(_eq_blind(m) for m in flat if m.names() & bound):
            ctx.check(False, "identity-shortcut", K_MOMENT_EQ, "circuit: resolve returned self although %s were bound (every moment kept self)" % sorted(names & bound),
                      bound=sorted(bound), **wit)
        else:
            _identity_check(ctx, C, R1, names & bound, "circuit", bound=sorted(bound), **wit)
        got_left = set(cirq.parameter_names(R1))
        ctx.check(not (got_left & bound), "partial-names-shrink", "C10:partial:names:circuit", "still names %s" % sorted(got_left & bound), **wit)
        R2 = cirq.resolve_parameters(R1, rest) if rest else R1
        for i, ops in enumerate(moments):
            check_resolved_ops(ctx, list(R2[i].operations), ops, dims, env, "circuit-partial-then-rest", multi_step=True, moment=i, bound=sorted(bound), **wit)
    # ---- unrelated resolver: nothing resolvable, any `is` answer is fine, the content must not change
    Ru = cirq.resolve_parameters(C, {"zz": 0.5, sympy.Symbol("yy"): 1.5})
    _identity_check(ctx, C, Ru, set(), "circuit", **wit)
    Ru2 = cirq.resolve_parameters(Ru, full)
    for i, ops in enumerate(moments):
        check_resolved_ops(ctx, list(Ru2[i].operations), ops, dims, env, "unrelated-then-full", multi_step=True, moment=i, **wit)
    # ---- resolver composition and recursion through the circuit
    if names:
        S = sympy.Symbol
        ra = {s: S(s + "_") * 2 for s in names}
        rb = {s + "_": env[s] / 2 for s in names}
        r12 = cirq.resolve_parameters(cirq.ParamResolver(mk_resolver(rng, ra, wrap=False)), cirq.ParamResolver(mk_resolver(rng, rb, wrap=False)))
        Rc = cirq.resolve_parameters(C, r12)
        Rt = cirq.resolve_parameters(cirq.resolve_parameters(C, ra), rb)
        Rr = cirq.resolve_parameters(C, dict(ra, **rb))  # one resolver holding the chain, recursive by default
        for i, ops in enumerate(moments):
            check_resolved_ops(ctx, list(Rc[i].operations), ops, dims, env, "composed-resolver", moment=i, **wit)
            check_resolved_ops(ctx, list(Rt[i].operations), ops, dims, env, "two-step-resolution", multi_step=True, moment=i, **wit)
            check_resolved_ops(ctx, list(Rr[i].operations), ops, dims, env, "chain-resolver", moment=i, **wit)
        # single step leaves the intermediate symbols
        Ro = cirq.resolve_parameters_once(C, dict(ra, **rb))
        want_once = {s + "_" for s in names}
        got_once = set(cirq.parameter_names(Ro)) | ({n + "_" for n in ph_only})
        ctx.check(got_once == want_once, "single-step==one-substitution",
                  K_MOMENT_EQ if any(_eq_blind(m) for m in flat) and got_once - want_once <= names else "C10:single-step:circuit",
                  "names after one step %s, expected %s" % (sorted(got_once), sorted(want_once)), **wit)
    _derived_after_queries(ctx, rng, moments, dims, env, full, wit)
    nsym_ops = sum(1 for m in flat if m.names())
    ctx.distinct(("circuit", tuple(tuple(m.show() for m in ops) for ops in moments), frozen), nontrivial=nsym_ops >= 1 and len(flat) >= 2)
    ctx.sample({"circuit": wit["circuit"], "env": env})


def _derived_after_queries(ctx, rng, moments, dims, env, full, wit):
    """A circuit that has already answered parameter questions (its answers are cached) is used to build other circuits
    through every public route; each result must answer for the operations it holds now."""
    import cirq

    k = int(rng.integers(0, len(moments) + 1))
    head, tail = moments[:k], moments[k:]
    T = build_circuit(tail, dims)
    hops = [build_op(m, dims) for ops in head for m in ops]
    hflat, tflat = [m for ops in head for m in ops], [m for ops in tail for m in ops]
    asked = []
    for q in rng.permutation(4)[: int(rng.integers(1, 4))]:
        asked.append(["is_parameterized", "parameter_names", "resolve", "resolve-unrelated"][int(q)])
        [lambda: cirq.is_parameterized(T), lambda: cirq.parameter_names(T), lambda: cirq.resolve_parameters(T, full),
         lambda: cirq.resolve_parameters(T, {"zz": 0.5})][int(q)]()
    routes = []
    if hops:
        routes += [("ops + circuit", lambda: hops + T, hflat + tflat), ("circuit + Circuit(ops)", lambda: T + cirq.Circuit(hops), hflat + tflat),
                   ("Moment + circuit", lambda: cirq.Moment(hops[:1]) + T, hflat[:1] + tflat)]

        def appended():
            c = T.copy()
            c.append(hops)
            return c

        def inserted():
            c = T.copy()
            c.insert(int(rng.integers(len(c) + 1)), hops[0])
            return c

        def iadded():
            c = T.copy()
            c += hops
            return c

        def set_item():
            c = T.copy()
            if len(c):
                c[0] = cirq.Moment(hops[:1])
                return c, hflat[:1] + [m for ops in tail[1:] for m in ops]
            return c, tflat

        def batch_inserted():
            c = T.copy()
            c.batch_insert([(0, hops[0])])
            return c

        routes += [("copy().append", appended, hflat + tflat), ("copy().insert", inserted, hflat[:1] + tflat),
                   ("copy() +=", iadded, hflat + tflat), ("copy().batch_insert", batch_inserted, hflat[:1] + tflat)]
        c_, flat_ = set_item()
        routes.append(("copy()[0] = Moment", lambda c_=c_: c_, flat_))
    routes += [("circuit * 2", lambda: T * 2, tflat), ("copy()", lambda: T.copy(), tflat), ("circuit[:]", lambda: T[:], tflat),
               ("freeze().unfreeze()", lambda: T.freeze().unfreeze(), tflat), ("unfreeze(copy=True)", lambda: T.unfreeze(copy=True), tflat),
               ("circuit[1:]", lambda: T[1:], [m for ops in tail[1:] for m in ops])]
    for i in rng.permutation(len(routes))[: 5]:
        what, mk, holds = routes[int(i)]
        D = mk()
        want, ph_only = _agg_names(holds)
        w2 = dict(wit, route=what, asked_before=asked, split=k)
        _names_check(ctx, D, want, "derived-circuit", ph_only, **w2)
        ctx.check(cirq.is_parameterized(D) == bool(want), "derived-circuit-answers-for-its-own-ops", "C10:derived-circuit:is_parameterized",
                  "%s: is_parameterized says %s, the circuit holds symbols %s" % (what, cirq.is_parameterized(D), sorted(want)), **w2)
        Rd = cirq.resolve_parameters(D, full)
        left = [op for op in Rd.all_operations() if cirq.is_parameterized(op)]
        ctx.check(not left and not cirq.is_parameterized(Rd), "derived-circuit-answers-for-its-own-ops", "C10:derived-circuit:not-resolved",
                  "%s: after full resolution %d operations are still symbolic" % (what, len(left)), **w2)


# =============================================================================================== 4. CircuitOperation
def _gen_inner_resolver(rng, body_names, fresh):
    """param_resolver of a CircuitOperation: maps some body symbols to numbers, other symbols or simple expressions."""
    import sympy

    S = sympy.Symbol
    mp = {}
    for s in sorted(body_names):
        r = rng.random()
        if r < 0.4:
            continue
        if r < 0.55:
            mp[s] = float(XG.gen_value(rng))
        elif r < 0.7:
            mp[s] = S(fresh[int(rng.integers(len(fresh)))])
        elif r < 0.8 and len(body_names) > 1:
            others = sorted(body_names - {s})
            mp[s] = S(others[int(rng.integers(len(others)))])  # collides with a body symbol: substitution is simultaneous
        elif r < 0.9:
            mp[s] = S(fresh[int(rng.integers(len(fresh)))]) * 2
        else:
            mp[s] = S(fresh[int(rng.integers(len(fresh)))]) + 0.5
    return mp


def sec_circuitop(ctx, rng, case):
    import cirq
    import sympy

    S = sympy.Symbol
    nw = int(rng.integers(1, 4))
    dims = [2] * nw
    syms = XG.SYMS[:int(rng.integers(1, 4))]
    fresh = ["p", "q"]
    env = {s: XG.gen_value(rng) for s in syms + fresh}
    pool = [s for s in _S["allspecs"] if 1 <= len(s.shape) <= nw and "qudit" not in s.tags and max(s.shape) == 2]
    with_phfsim = case % 10 == 9
    if not with_phfsim:
        pool = [s for s in pool if s.name != "PhasedFSim"]
    body = gen_model_circuit(rng, dims, int(rng.integers(1, 4)), syms, env, p_sym=0.7, general=False, p_tag=0.0, pool=pool, fill=0.95)
    flat = [m for ops in body for m in ops]
    if not flat:
        ctx.reject("empty-body")
        return
    body_names, _ = _agg_names(flat)
    inner = _gen_inner_resolver(rng, body_names, fresh)
    nested = case % 4 == 2
    mid = _gen_inner_resolver(rng, {n for v in inner.values() for n in EV.free_names(v)} | (body_names - set(inner)), fresh) if nested else None
    rep_kind = int(rng.integers(4))
    rep_val = int(rng.integers(1, 4))
    if rep_kind in (1, 2) and rng.random() < 0.3:
        rep_val = -int(rng.integers(1, 3))  # a symbolic count that resolves to a negative integer: the inverse loop
    env["n"] = float(rep_val)
    rep = [rep_val, S("n"), S("n"), S("n") + 1][rep_kind]
    if rep_kind == 3:
        env["n"] = float(rep_val - 1)
    substs = [inner] + ([mid] if nested else [])
    try:
        for m in flat:
            m.ref(env, substs)
    except EV.OutOfDomain:
        ctx.reject("expression-out-of-real-domain")
        return
    fz = build_circuit(body, dims).freeze()
    inner_key = {(S(k) if rng.random() < 0.5 else k): v for k, v in inner.items()}
    if nested:
        co_in = cirq.CircuitOperation(fz, param_resolver=inner_key)
        co = cirq.CircuitOperation(cirq.FrozenCircuit(co_in), param_resolver=mid, repetitions=rep)
        inner_reps = 1
    else:
        co = cirq.CircuitOperation(fz, param_resolver=inner_key, repetitions=rep)
    # model: names = symbols of the body after the substitutions + repetition symbols
    eff_names, eff_ph = set(), set()
    other = set()
    for m in flat:
        for p in m.params:
            if isinstance(p, sympy.Basic):
                e = p
                for mp in substs:
                    e = EV.substitute(e, mp)
                fn = EV.free_names(e) if isinstance(e, sympy.Basic) else set()
                eff_names |= fn
                if m.spec.name != "PhasedFSim":
                    other |= fn
    rep_names = EV.free_names(rep) if isinstance(rep, sympy.Basic) else set()
    names = eff_names | rep_names
    ph_only = eff_names - other - rep_names
    wit = dict(body=[[m.show() for m in ops] for ops in body], param_resolver={k: str(v) for k, v in inner.items()},
               outer_param_resolver=None if mid is None else {k: str(v) for k, v in mid.items()}, repetitions=str(rep), values=env)
    # the PhasedFSimGate defect matters here only when some body symbol is visible through PhasedFSimGate parameters alone
    has_ph = bool(_agg_names(flat)[1])
    no_ph_attr = not hasattr(cirq.PhasedFSimGate, "_parameter_names_")

    def ph_key(default):
        return K_PHFSIM if (has_ph and no_ph_attr) else default

    got_names = set(cirq.parameter_names(co))
    if has_ph and no_ph_attr:
        ctx.check(got_names == names, "parameter_names==model", K_PHFSIM if got_names != names else "-",
                  "parameter_names(CircuitOperation) = %s, the symbols inside are %s" % (sorted(got_names), sorted(names)), **wit)
    else:
        _names_check(ctx, co, names, "circuit-operation", set(), **wit)
    ctx.check(cirq.is_parameterized(co) == bool(names), "is_parameterized", ph_key("C10:is-parameterized:circuit-operation"),
              "is_parameterized=%s, model names %s" % (cirq.is_parameterized(co), sorted(names)), **wit)
    # when a substitution makes symbols cancel (b -> c in c - b), sympy leaves a sympy number behind, which Cirq documents
    # as "parameterized without free symbols"; binding only the named symbols is then not a full resolution
    cancels = False
    for m in flat:
        for p in m.params:
            if isinstance(p, sympy.Basic):
                e, expect = p, EV.free_names(p)
                for mp in substs:
                    e = EV.substitute(e, mp)
                    expect = set().union(*[EV.free_names(mp[x]) if x in mp else {x} for x in expect]) if expect else set()
                if (EV.free_names(e) if isinstance(e, sympy.Basic) else set()) != expect:
                    cancels = True
                # sympy itself may cancel terms that the model's substitution keeps apart (-1.0*a + c with c -> a): compare
                # the names sympy leaves after every step with the names the substitution is expected to leave
                es, expect2 = p, EV.free_names(p)
                for mp in substs:
                    if isinstance(es, sympy.Basic):
                        es = es.subs({sympy.Symbol(k_): (sympy.Symbol(v_) if isinstance(v_, str) else v_) for k_, v_ in mp.items()}, simultaneous=True)
                    expect2 = set().union(*[EV.free_names(mp[x]) if x in mp else {x} for x in expect2]) if expect2 else set()
                    left = {str(x) for x in es.free_symbols} if isinstance(es, sympy.Basic) else set()
                    if left != expect2:
                        cancels = True
    if cancels:
        ctx.event("circuit-op-substitution-cancels-symbols")
    outer = mk_resolver(rng, {k: env[k] for k in sorted(names)} if (rng.random() < 0.5 and not cancels) else dict(env))
    emb = case % 2 == 0
    if emb:  # resolve through an enclosing circuit
        host = cirq.Circuit(cirq.Moment([co]), cirq.Moment([cirq.X(cirq.LineQubit(0)) ** S(syms[0])]))
        Rh = cirq.resolve_parameters(host, outer)
        r = list(Rh[0].operations)[0]
        r = r.untagged if hasattr(r, "untagged") else r
    else:
        r = cirq.resolve_parameters(co, outer)
    if not isinstance(r, cirq.CircuitOperation):
        ctx.check(False, "circuit-op-resolved", "C10:circuit-op:type", "resolved to %r" % type(r).__name__, **wit)
        return
    ok_rep = isinstance(r.repetitions, (int, np.integer)) and int(r.repetitions) == rep_val
    ctx.check(ok_rep, "circuit-op-resolved", "C10:circuit-op:repetitions", "repetitions %r, expected %d" % (r.repetitions, rep_val), **wit)
    unrolled = list(r.mapped_circuit(deep=True).all_operations())
    if cancels:
        # symbols that cancel inside a nested substitution (b -> c in b - c) leave a sympy number behind, which Cirq documents
        # as parameterized (is_parameterized: "any instance of sympy.Basic ... covers sympy constants"); what must hold is
        # that no *name* is left (the content comparison needs plain numbers and is skipped)
        still = bool(cirq.parameter_names(r)) or any(cirq.parameter_names(o) for o in unrolled)
    else:
        still = cirq.is_parameterized(r) or any(cirq.is_parameterized(o) for o in unrolled)
    ctx.check(not still, "resolved-not-parameterized", ph_key("C10:still-parameterized:circuit-operation"),
              "CircuitOperation still parameterized after resolving every symbol: %s" % repr(r)[:400], **wit)
    if ok_rep and not still and not cancels and rep_val < 0:
        # the inverse loop: compared as a whole (the unrolled operations are the inverses in reverse order)
        wires_all = list(range(len(dims)))
        Utot = np.eye(L.dim_of(dims), dtype=complex)
        for m_ in flat:
            Utot = L.embed(m_.ref(env, substs), list(m_.wires), dims) @ Utot
        want_u = np.linalg.matrix_power(Utot.conj().T, -rep_val)
        qids = [_wire_qid(w_, dims[w_]) for w_ in wires_all]
        got_u = cirq.Circuit(unrolled).unitary(qubit_order=qids, qubits_that_should_be_present=qids)
        ctx.check(L.allclose(got_u, want_u, ATOL_M * 10), "circuit-op-resolved", "C10:circuit-op:negative-repetitions",
                  lambda: "CircuitOperation with repetitions resolved to %d is not the inverse body applied %d times (deviation %.3g)" % (rep_val, -rep_val, L.maxdiff(got_u, want_u)), **wit)
    elif ok_rep and not still and not cancels:
        got_ops = unrolled
        want_ops = []
        for _ in range(rep_val):
            want_ops.extend(flat)
        good = check_resolved_ops(ctx, got_ops, want_ops, dims, env, "circuit-operation", substs, **wit)
        ctx.check(good, "circuit-op-resolved", "C10:circuit-op:content", "unrolled resolved CircuitOperation differs from the model", **wit)
    # partial: only the repetition count, only the gate symbols
    if rep_names and eff_names - rep_names and not cancels:
        r_n = cirq.resolve_parameters(co, {"n": env["n"]})
        ctx.check(isinstance(r_n.repetitions, (int, np.integer)) and int(r_n.repetitions) == rep_val
                  and (has_ph or set(cirq.parameter_names(r_n)) == names - {"n"}), "circuit-op-partial", "C10:circuit-op:partial-repetitions",
                  "repetitions %r names %s" % (r_n.repetitions, sorted(cirq.parameter_names(r_n))), **wit)
        r_s = cirq.resolve_parameters(co, {k: env[k] for k in eff_names - rep_names})
        ctx.check(cirq.is_parameterized(r_s) and (has_ph or set(cirq.parameter_names(r_s)) == rep_names), "circuit-op-partial",
                  "C10:circuit-op:partial-symbols", "names %s, expected %s" % (sorted(cirq.parameter_names(r_s)), sorted(rep_names)), **wit)
        r_both = cirq.resolve_parameters(r_s, {"n": env["n"]})
        if not has_ph and rep_val > 0:
            got_ops = list(r_both.mapped_circuit(deep=True).all_operations())
            check_resolved_ops(ctx, got_ops, flat * rep_val, dims, env, "circuit-operation-two-steps", substs, **wit)
    ctx.distinct(("cop", tuple(m.show() for m in flat), tuple(sorted((k, str(v)) for k, v in inner.items())), str(rep), nested, emb),
                 nontrivial=bool(eff_names))
    ctx.sample({"body": wit["body"], "param_resolver": wit["param_resolver"], "repetitions": str(rep)})


# =============================================================================================== 5. sweeps
_VALS = [0.0, 1.0, -1.0, 0.5, 2.0, 0.25, -0.75, 3.0, 1e-9, 1e6]


def _vals(rng, n):
    return [float(_VALS[int(rng.integers(len(_VALS)))]) if rng.random() < 0.6 else float(round(rng.uniform(-5, 5), 4)) for _ in range(n)]


def _pick_len(rng, allow_empty=True):
    r = rng.random()
    if r < 0.1 and allow_empty:
        return 0
    if r < 0.3:
        return 1
    return int(rng.integers(2, 5))


def gen_leaf_spec(rng, keys, allow_empty=True):
    """Abstract leaf over exactly `keys` (one key: Points / Linspace / ListSweep; several: ListSweep)."""
    n = _pick_len(rng, allow_empty)
    if len(keys) == 0:
        return ("unit",)
    if len(keys) == 1:
        r = rng.random()
        sym = bool(rng.random() < 0.3)
        if r < 0.45:
            return ("points", keys[0], _vals(rng, n), sym)
        if r < 0.85:
            a, b = _vals(rng, 2)
            return ("linspace", keys[0], a, b, n, sym)
    return ("list", [[(k, v) for k, v in zip(keys, _vals(rng, len(keys)))] for _ in range(n)], bool(rng.random() < 0.3))


def gen_sweep_spec(rng, depth, keygen, keys=None, allow_empty=True):
    """Abstract sweep tree.  `keys` fixes the key list (needed under Concat); otherwise fresh keys are drawn."""
    if depth <= 1 or rng.random() < 0.25:
        if keys is None:
            keys = [keygen() for _ in range(1 if rng.random() < 0.8 else int(rng.integers(0, 3)))]
        return gen_leaf_spec(rng, keys, allow_empty)
    kind = ["product", "zip", "ziplongest", "concat"][int(rng.integers(4))]
    if kind == "concat":
        if keys is None:
            keys = [keygen() for _ in range(int(rng.integers(1, 3)))]
        return ("concat", [gen_sweep_spec(rng, depth - 1, keygen, keys, allow_empty) for _ in range(int(rng.integers(1, 4)))])
    ne = allow_empty and kind != "ziplongest"
    if keys is None:
        nk = int(rng.integers(0, 4)) if rng.random() < 0.1 else int(rng.integers(1, 4))
        return (kind, [gen_sweep_spec(rng, depth - 1, keygen, None, ne) for _ in range(nk)])
    # split the fixed key list over the children, in order
    if len(keys) <= 1 or rng.random() < 0.3:
        parts = [keys]
    else:
        cut = int(rng.integers(1, len(keys)))
        parts = [keys[:cut], keys[cut:]]
    return (kind, [gen_sweep_spec(rng, depth - 1, keygen, p, ne) for p in parts])


def build_model_sweep(spec):
    k = spec[0]
    if k == "unit":
        return SM.Unit()
    if k == "points":
        return SM.Points(spec[1], spec[2])
    if k == "linspace":
        return SM.Linspace(spec[1], spec[2], spec[3], spec[4])
    if k == "list":
        return SM.ListSweep(spec[1])
    kids = [build_model_sweep(c) for c in spec[1]]
    return {"product": SM.Product, "zip": SM.Zip, "ziplongest": SM.ZipLongest, "concat": SM.Concat}[k](*kids)


def build_cirq_sweep(spec):
    import cirq
    import sympy

    k = spec[0]
    if k == "unit":
        return cirq.UnitSweep
    if k == "points":
        return cirq.Points(sympy.Symbol(spec[1]) if spec[3] else spec[1], list(spec[2]))
    if k == "linspace":
        return cirq.Linspace(sympy.Symbol(spec[1]) if spec[5] else spec[1], spec[2], spec[3], spec[4])
    if k == "list":
        rs = [{(sympy.Symbol(kk) if spec[2] else kk): v for kk, v in a} for a in spec[1]]
        return cirq.ListSweep([cirq.ParamResolver(r) if i % 2 else r for i, r in enumerate(rs)])
    kids = [build_cirq_sweep(c) for c in spec[1]]
    return {"product": cirq.Product, "zip": cirq.Zip, "ziplongest": cirq.ZipLongest, "concat": cirq.Concat}[k](*kids)


def _norm_resolver(r):
    return tuple((str(k), v) for k, v in r.param_dict.items())


def _same_assignment(a, b):
    if len(a) != len(b):
        return False
    for (k1, v1), (k2, v2) in zip(a, b):
        if str(k1) != str(k2):
            return False
        if not (v1 == v2 or abs(v1 - v2) <= 1e-12 * max(1.0, abs(v1), abs(v2))):
            return False
    return True


def _same_points(xs, ys):
    return len(xs) == len(ys) and all(_same_assignment(a, b) for a, b in zip(xs, ys))


def _spec_depth(spec):
    if spec[0] in ("product", "zip", "ziplongest", "concat"):
        return 1 + max([_spec_depth(c) for c in spec[1]], default=0)
    return 1


def _mutate(rng, spec):
    """A structurally different spec (one leaf value / length changed) - must compare unequal."""
    k = spec[0]
    if k == "unit":
        return None
    if k == "points":
        return ("points", spec[1], list(spec[2]) + [7.5], spec[3])
    if k == "linspace":
        return ("linspace", spec[1], spec[2], spec[3], spec[4] + 1, spec[5])
    if k == "list":
        return ("list", list(spec[1]) + [[(kk, 9.25) for kk, _ in (spec[1][0] if spec[1] else [("w", 0)])]], spec[2])
    if not spec[1]:
        return None
    j = int(rng.integers(len(spec[1])))
    mj = _mutate(rng, spec[1][j])
    if mj is None:
        return None
    return (k, [mj if i == j else c for i, c in enumerate(spec[1])])


def sec_sweeps(ctx, rng, case):
    import cirq

    counter = [0]

    def keygen():
        counter[0] += 1
        return "k%d" % counter[0]

    depth = 1 + case % 3
    for _ in range(20):
        counter[0] = 0
        spec = gen_sweep_spec(rng, depth, keygen)
        try:
            M = build_model_sweep(spec)
        except SM.ModelError as e:
            # the definition rejects it (documented ValueError): Cirq must reject it too
            try:
                build_cirq_sweep(spec)
                ctx.check(False, "sweep-documented-rejection", "C10:sweep-accepts-invalid", "model: %s; Cirq accepted %r" % (e, spec), spec=spec)
            except ValueError:
                ctx.ok("sweep-documented-rejection")
                ctx.reject("sweep-constructor:ValueError")
            continue
        if M.formula_len() <= 150:
            break
    else:
        ctx.reject("no-small-sweep")
        return
    pts = M.points()
    if len(pts) != M.formula_len():
        raise AssertionError("sweep model inconsistent: %s" % M.describe())
    s = build_cirq_sweep(spec)
    n = len(pts)
    desc = M.describe()
    wit = dict(sweep=desc, spec=spec, repr=repr(s)[:400])
    ctx.check(len(s) == n, "sweep-len", "C10:sweep-len:" + M.kind, "len = %d, the definition enumerates %d points" % (len(s), n), **wit)
    lst = list(s)
    got = [_norm_resolver(r) for r in lst]
    ctx.check(all(isinstance(r, cirq.ParamResolver) for r in lst) and _same_points(got, pts), "sweep-list", "C10:sweep-iter:" + M.kind,
              lambda: "list(sweep) = %r, definition gives %r" % (got[:6], pts[:6]), **wit)
    ctx.check(len(lst) == len(s), "sweep-len", "C10:sweep-len-vs-iter:" + M.kind, "len %d, iteration yields %d" % (len(s), len(lst)), **wit)
    pt = [tuple(t) for t in s.param_tuples()]
    ctx.check(_same_points(pt, pts), "sweep-param_tuples", "C10:sweep-param-tuples:" + M.kind, lambda: "param_tuples %r" % (pt[:6],), **wit)
    ctx.check([str(k) for k in s.keys] == M.keys(), "sweep-keys", "C10:sweep-keys:" + M.kind, "keys %r, definition order %r" % (s.keys, M.keys()), **wit)
    # indexing
    idx = list(range(-n, n)) if n <= 12 else sorted(set([0, n - 1, -1, -n] + [int(x) for x in rng.integers(-n, n, size=8)]))
    for i in idx:
        r = s[i]
        ctx.check(isinstance(r, cirq.ParamResolver) and _same_assignment(_norm_resolver(r), pts[i]), "sweep-getitem", "C10:sweep-getitem:" + M.kind,
                  lambda: "sweep[%d] = %r, expected %r" % (i, r, pts[i]), index=i, **wit)
    for i in (n, -n - 1, n + 3):
        try:
            r = s[i]
            ctx.check(False, "sweep-getitem-range", "C10:sweep-getitem-no-IndexError:" + M.kind, "sweep[%d] returned %r for a sweep of %d points" % (i, r, n), **wit)
        except IndexError:
            ctx.ok("sweep-getitem-range")
    # slicing
    for _ in range(4):
        def pick(lo, hi):
            return None if rng.random() < 0.3 else int(rng.integers(lo, hi))
        step = None if rng.random() < 0.4 else int(rng.choice([1, 2, 3, -1, -2]))
        sl = slice(pick(-n - 2, n + 3), pick(-n - 2, n + 3), step)
        sub = s[sl]
        want = pts[sl]
        g = [_norm_resolver(r) for r in sub]
        ctx.check(isinstance(sub, cirq.Sweep) and len(sub) == len(want) and _same_points(g, want), "sweep-slice", "C10:sweep-slice:" + M.kind,
                  lambda: "sweep[%s] = %r, list slicing gives %r" % (sl, g[:6], want[:6]), slice=str(sl), **wit)
    # equality
    s2 = build_cirq_sweep(spec)
    ctx.check((s == s2) is True and (s != s2) is False, "sweep-eq", "C10:sweep-eq:" + M.kind, "a sweep rebuilt from the same definition is not equal", **wit)
    try:
        h1, h2 = hash(s), hash(s2)
        ctx.check(h1 == h2, "sweep-eq", "C10:sweep-hash:" + M.kind, "equal sweeps hash differently", **wit)
    except TypeError:
        ctx.event("sweep-unhashable:" + M.kind)
    mspec = _mutate(rng, spec)
    if mspec is not None:
        try:
            sm = build_cirq_sweep(mspec)
            ctx.check((s == sm) is False and (s != sm) is True, "sweep-eq", "C10:sweep-eq-distinguishes:" + M.kind, "sweeps with different definitions compare equal", other=repr(sm)[:300], **wit)
        except ValueError:
            pass
    # sweepable converters on a sweep
    ctx.check(cirq.to_sweep(s) is s and cirq.to_sweeps(s) == [s], "sweepable", "C10:sweepable:sweep-identity", "", **wit)
    tr = [_norm_resolver(r) for r in cirq.to_resolvers(s)]
    ctx.check(_same_points(tr, pts), "sweepable", "C10:sweepable:to_resolvers", "", **wit)
    # operators: '*' = Cartesian product, '+' = zip, on key-disjoint operands
    counter[0] = 100
    spec_b = gen_sweep_spec(rng, max(1, depth - 1), keygen)
    try:
        Mb = build_model_sweep(spec_b)
    except SM.ModelError:
        Mb = None
    if Mb is not None and n * max(1, Mb.formula_len()) <= 400:
        sb = build_cirq_sweep(spec_b)
        prod, zp = s * sb, s + sb
        wp, wz = SM.Product(M, Mb).points(), SM.Zip(M, Mb).points()
        gp, gz = [_norm_resolver(r) for r in prod], [_norm_resolver(r) for r in zp]
        ctx.check(isinstance(prod, cirq.Product) and len(prod) == len(wp) and _same_points(gp, wp), "sweep-operators", "C10:sweep-mul",
                  lambda: "a*b enumerates %r, the Cartesian product is %r" % (gp[:5], wp[:5]), other=Mb.describe(), **wit)
        if ("zip", []) not in (tuple(spec[:2]), tuple(spec_b[:2])):  # a Zip of no sweeps has no documented meaning as an operand
            ok_add = isinstance(zp, cirq.Zip) and len(zp) == len(wz) and _same_points(gz, wz)
            mech = "C10:sweep-add"
            if not ok_add and "ziplongest" in (spec[0], spec_b[0]):
                # explained-by: '+' splices the components of a ZipLongest operand into a plain Zip (isinstance(x, Zip) is
                # true for the subclass), which stops at the shortest component instead of zipping with the padded sweep
                parts = []
                for sp, mm in ((spec, M), (spec_b, Mb)):
                    parts.extend(mm.sweeps if sp[0] in ("zip", "ziplongest") else [mm])
                if _same_points(gz, SM.Zip(*parts).points()):
                    mech = K_ZIPLONGEST
            ctx.check(ok_add, "sweep-operators", mech,
                      lambda: "a+b enumerates %d points %r, zipping a with b gives %d points %r" % (len(gz), gz[:4], len(wz), wz[:4]), other=Mb.describe(),
                      a=repr(s)[:300], b=repr(sb)[:300], **wit)
        ctx.check([str(k) for k in prod.keys] == M.keys() + Mb.keys() and [str(k) for k in zp.keys] == M.keys() + Mb.keys(), "sweep-keys", "C10:sweep-keys:operators", "", **wit)
    ctx.distinct(("sweep", desc, tuple(pts[:3])), nontrivial=n >= 2 or _spec_depth(spec) >= 2)
    ctx.sample({"sweep": desc, "len": n, "first": pts[:3]})


def sec_sweepable(ctx, rng, case):
    import cirq
    import sympy

    kind = case % 7
    S = sympy.Symbol

    def norm(rs):
        return [_norm_resolver(r) for r in rs]

    if kind == 0:
        ctx.check(norm(cirq.to_resolvers(None)) == [()] and cirq.to_sweeps(None) == [cirq.UnitSweep], "sweepable", "C10:sweepable:None", "")
        ctx.check(len(cirq.UnitSweep) == 1 and norm(cirq.UnitSweep) == [()] and cirq.UnitSweep.keys == [] and norm([cirq.UnitSweep[0]]) == [()],
                  "sweepable", "C10:sweepable:unit", "")
        e = cirq.ListSweep([])
        ctx.check(len(e) == 0 and list(e) == [] and e.keys == [] and norm(e[0:2]) == [], "sweepable", "C10:sweepable:empty-list-sweep", "")
        ctx.distinct(("sweepable", "none"))
    elif kind == 1:
        d = {("s%d" % i if rng.random() < 0.5 else S("s%d" % i)): v for i, v in enumerate(_vals(rng, int(rng.integers(0, 4))))}
        want = [tuple((str(k), v) for k, v in d.items())]
        pr = cirq.ParamResolver(d)
        sw = cirq.to_sweeps(pr)
        ctx.check(_same_points(norm(cirq.to_resolvers(pr)), want) and len(sw) == 1 and len(sw[0]) == 1 and _same_points(norm(sw[0]), want),
                  "sweepable", "C10:sweepable:resolver", "to_sweeps(%r) = %r" % (pr, sw))
        ts = cirq.to_sweep(pr)
        ctx.check(isinstance(ts, cirq.ListSweep) and _same_points(norm(ts), want), "sweepable", "C10:sweepable:to_sweep(resolver)", "")
        ts = cirq.to_sweep(d)
        ctx.check(isinstance(ts, cirq.ListSweep) and _same_points(norm(ts), want), "sweepable", "C10:sweepable:to_sweep(dict)", "")
        ctx.check(_same_points(norm(cirq.to_resolvers(d)), want), "sweepable", "C10:sweepable:dict", "")
        ctx.distinct(("sweepable", "resolver", tuple(want[0])), nontrivial=len(d) > 0)
    elif kind in (2, 3):
        nk = int(rng.integers(1, 4))
        d = {}
        for i in range(nk):
            k = "s%d" % i if rng.random() < 0.6 else S("s%d" % i)
            d[k] = _vals(rng, _pick_len(rng)) if rng.random() < 0.7 else _vals(rng, 1)[0]
        md = {str(k): v for k, v in d.items()}
        wp, wz = SM.dict_product_points(md).points(), SM.dict_zip_points(md).points()
        p, z = cirq.dict_to_product_sweep(d), cirq.dict_to_zip_sweep(d)
        ctx.check(isinstance(p, cirq.Product) and len(p) == len(wp) and _same_points(norm(p), wp), "sweepable", "C10:sweepable:dict_to_product_sweep",
                  lambda: "%r enumerates %r, expected %r" % (p, norm(p)[:5], wp[:5]), d=repr(d))
        ctx.check(isinstance(z, cirq.Zip) and len(z) == len(wz) and _same_points(norm(z), wz), "sweepable", "C10:sweepable:dict_to_zip_sweep",
                  lambda: "%r enumerates %r, expected %r" % (z, norm(z)[:5], wz[:5]), d=repr(d))
        with warnings.catch_warnings():
            warnings.simplefilter("ignore")
            rs = norm(cirq.to_resolvers(d))
            sws = cirq.to_sweeps(d)
        ctx.check(_same_points(rs, wp) and len(sws) == len(wp) and all(len(x) == 1 for x in sws), "sweepable", "C10:sweepable:dict-expansion",
                  lambda: "to_resolvers(%r) = %r, the Cartesian product is %r" % (d, rs[:5], wp[:5]))
        # a list of assignments (each a dict, written in its own key order) as one Zip: point i is the i-th dict
        nkeys = int(rng.integers(1, 4))
        names_ = ["s%d" % i for i in range(nkeys)]
        rows = []
        for _ in range(int(rng.integers(1, 5))):
            order_ = [names_[int(i)] for i in rng.permutation(nkeys)]
            rows.append({k_: float(_vals(rng, 1)[0]) for k_ in order_})
        lz = cirq.list_of_dicts_to_zip(rows)
        want_rows = [tuple(sorted(r.items())) for r in rows]
        got_rows = [tuple(sorted((str(k_), float(v_)) for k_, v_ in r.param_dict.items())) for r in cirq.to_resolvers(lz)]
        ctx.check(isinstance(lz, cirq.Zip) and got_rows == want_rows, "sweepable", "C10:sweepable:list_of_dicts_to_zip",
                  lambda: "list_of_dicts_to_zip(%r) enumerates %r" % (rows, got_rows), rows=repr(rows))
        ctx.distinct(("sweepable", "dict", tuple(wp[:3]), len(wp)), nontrivial=len(wp) >= 2)
    elif kind == 4:
        # nested iterables of everything sweepable: concatenation in order
        counter = [0]

        def keygen():
            counter[0] += 1
            return "k%d" % counter[0]

        items, want = [], []

        def one():
            r = rng.random()
            if r < 0.15:
                return None, [()]
            if r < 0.4:
                d = {"s%d" % i: v for i, v in enumerate(_vals(rng, int(rng.integers(1, 3))))}
                return (cirq.ParamResolver(d) if rng.random() < 0.5 else d), [tuple(d.items())]
            spec = gen_sweep_spec(rng, 2, keygen)
            try:
                M = build_model_sweep(spec)
            except SM.ModelError:
                return None, [()]
            if M.formula_len() > 60:
                return None, [()]
            return build_cirq_sweep(spec), M.points()
        for _ in range(int(rng.integers(1, 5))):
            if rng.random() < 0.25:
                sub, subw = [], []
                for _ in range(int(rng.integers(0, 3))):
                    o, w = one()
                    sub.append(o)
                    subw.extend(w)
                items.append(sub if rng.random() < 0.5 else tuple(sub))
                want.extend(subw)
            else:
                o, w = one()
                items.append(o)
                want.extend(w)
        got = norm(cirq.to_resolvers(items))
        ctx.check(_same_points(got, want), "sweepable", "C10:sweepable:nested-iterable", lambda: "to_resolvers gives %r, expected %r" % (got[:6], want[:6]), items=repr(items)[:400])
        sws = cirq.to_sweeps(items)
        ctx.check(all(isinstance(x, cirq.Sweep) for x in sws) and sum(len(x) for x in sws) == len(want), "sweepable", "C10:sweepable:to_sweeps-len", "", items=repr(items)[:400])
        ctx.distinct(("sweepable", "nested", tuple(want[:4]), len(want)), nontrivial=len(want) >= 2)
    elif kind == 5:
        n = int(rng.integers(0, 5))
        keys = ["s0", "s1"][:int(rng.integers(1, 3))]
        rs = [{k: v for k, v in zip(keys, _vals(rng, len(keys)))} for _ in range(n)]
        want = [tuple(r.items()) for r in rs]
        mixed = [cirq.ParamResolver(r) if i % 2 else r for i, r in enumerate(rs)]
        ts = cirq.to_sweep(mixed if rng.random() < 0.5 else iter(mixed))
        ctx.check(isinstance(ts, cirq.ListSweep) and len(ts) == n and _same_points(norm(ts), want) and ts.keys == (keys if n else []),
                  "sweepable", "C10:sweepable:to_sweep(list)", "to_sweep gave %r" % (ts,))
        if n:
            z = cirq.list_of_dicts_to_zip(rs)
            ctx.check(isinstance(z, cirq.Zip) and len(z) == n and _same_points(norm(z), want), "sweepable", "C10:sweepable:list_of_dicts_to_zip", "%r" % (z,))
        ctx.distinct(("sweepable", "list", tuple(want[:3]), n), nontrivial=n >= 2)
    else:
        # documented type errors
        for bad in ("abc", 5, 1.5):
            try:
                cirq.to_sweeps(bad)
                ctx.check(False, "sweepable-rejects", "C10:sweepable:accepts-non-sweepable", "to_sweeps(%r) did not raise" % (bad,))
            except TypeError:
                ctx.ok("sweepable-rejects")
        try:
            cirq.ListSweep([1.0])
            ctx.check(False, "sweepable-rejects", "C10:sweepable:accepts-non-sweepable", "ListSweep([1.0]) did not raise")
        except TypeError:
            ctx.ok("sweepable-rejects")
        for fn in (lambda: cirq.Points("a", [1]) * 3, lambda: cirq.Points("a", [1]) + 3):
            try:
                fn()
                ctx.check(False, "sweepable-rejects", "C10:sweepable:accepts-non-sweepable", "sweep op with a number did not raise")
            except TypeError:
                ctx.ok("sweepable-rejects")
        ctx.distinct(("sweepable", "rejects"), nontrivial=False)


# =============================================================================================== 6. simulate_sweep / run_sweep
def _gen_sweep_over(rng, syms, max_points=6):
    """A (cirq sweep, list of env dicts) over exactly `syms`, built from Points/Linspace leaves under Product/Zip."""
    import cirq
    import sympy

    leaves, mleaves = [], []
    for s_ in syms:
        n = int(rng.integers(1, 4))
        key = sympy.Symbol(s_) if rng.random() < 0.4 else s_
        if rng.random() < 0.5:
            vals = [XG.gen_value(rng) for _ in range(n)]
            leaves.append(cirq.Points(key, vals))
            mleaves.append(SM.Points(s_, vals))
        else:
            a, b = XG.gen_value(rng), XG.gen_value(rng)
            leaves.append(cirq.Linspace(key, a, b, n))
            mleaves.append(SM.Linspace(s_, a, b, n))
    kind = int(rng.integers(3))
    if kind == 0 or len(leaves) == 1:
        sw, M = cirq.Product(*leaves), SM.Product(*mleaves)
    elif kind == 1:
        sw, M = cirq.Zip(*leaves), SM.Zip(*mleaves)
    else:
        sw, M = cirq.Product(leaves[0], cirq.Zip(*leaves[1:])), SM.Product(mleaves[0], SM.Zip(*mleaves[1:]))
    pts = M.points()
    if len(pts) > max_points:
        sw, pts = sw[:max_points], pts[:max_points]
        if rng.random() < 0.5:
            sw = list(sw)  # a plain list of resolvers is a Sweepable too
    return sw, [dict(p) for p in pts]


def _ref_state(moments, nq, envv, initial):
    psi = np.zeros(2 ** nq, dtype=complex)
    psi[initial] = 1.0
    dims = [2] * nq
    for ops in moments:
        for m in ops:
            psi = L.apply_to_state(psi, m.ref(envv), list(m.wires), dims)
    return psi


def sec_simsweep(ctx, rng, case):
    import cirq

    nq = int(rng.integers(2, 5))
    dims = [2] * nq
    syms = XG.SYMS[:int(rng.integers(1, 4))]
    sweep, envs = _gen_sweep_over(rng, syms)
    if not envs:
        ctx.reject("empty-sweep")
        return
    env0 = envs[0]
    pool = [s for s in _S["allspecs"] if 1 <= len(s.shape) <= nq and max(s.shape) == 2]
    depth_total = int(rng.integers(2, 9))
    first_param = int(rng.integers(0, depth_total))  # the first parameterized operation appears here
    pre = gen_model_circuit(rng, dims, first_param, [], env0, p_sym=0.0, p_tag=0.0, pool=pool)
    post = gen_model_circuit(rng, dims, depth_total - first_param, syms, env0, p_sym=0.6, general=False, p_tag=0.1, pool=pool)
    if not any(m.names() for ops in post for m in ops):
        sp = [s for s in _S["gspecs"] if s.shape == (2,)][int(rng.integers(4))]
        post[0] = [gen_symbolic_mop(rng, sp, syms, env0, [int(rng.integers(nq))], False, False)]
    moments = pre + post
    try:
        refs = [_ref_state(moments, nq, e, 0) for e in envs]
    except EV.OutOfDomain:
        ctx.reject("expression-out-of-real-domain")
        return
    qs = [cirq.LineQubit(i) for i in range(nq)]
    C = build_circuit(moments, dims)
    # a parameterized operation on no qubits at all: exp(i pi s) as a global phase (its own component of a split state)
    gphase = None
    if rng.random() < 0.3:
        import sympy
        gs = syms[int(rng.integers(len(syms)))]
        C.insert(int(rng.integers(0, len(C) + 1)), cirq.Moment([cirq.global_phase_operation(sympy.exp(sympy.I * sympy.pi * sympy.Symbol(gs)))]))
        gphase = gs
        refs = [r * np.exp(1j * math.pi * e[gs]) for r, e in zip(refs, envs)]
    # a classical flag qubit: only X gates and a measurement with a certain outcome, at a random position
    flag = cirq.LineQubit(nq)
    with_flag = case % 3 == 0
    flag_bit = 0
    if with_flag:
        pos_x = int(rng.integers(0, len(C) + 1))
        C.insert(pos_x, cirq.Moment([cirq.X(flag)]))
        flag_bit = 1
        pos_m = int(rng.integers(pos_x + 1, len(C) + 1))
        C.insert(pos_m, cirq.Moment([cirq.measure(flag, key="flag")]))
        order = qs + [flag]
    else:
        order = qs
    initial = int(rng.integers(0, 2 ** nq)) if rng.random() < 0.4 else 0
    if initial:
        refs = [_ref_state(moments, nq, e, initial) * (np.exp(1j * math.pi * e[gphase]) if gphase else 1.0) for e in envs]
    dtype = np.complex64 if case % 4 != 1 else np.complex128
    split = case % 5 != 2
    sim = cirq.Simulator(dtype=dtype, split_untangled_states=split, seed=int(rng.integers(1 << 30)))
    init_full = (initial << 1) if with_flag else initial
    wit = dict(circuit=[[m.show() for m in ops] for ops in moments], first_parameterized_moment=first_param, points=envs, initial=initial,
               dtype=str(np.dtype(dtype)), split=split, flag=with_flag, global_phase_symbol=gphase)
    results = sim.simulate_sweep(C, sweep, qubit_order=order, initial_state=init_full)
    ctx.check(len(results) == len(envs), "simulate_sweep-len", "C10:simulate_sweep:count", "%d results for %d assignments" % (len(results), len(envs)), **wit)
    tol_pair = 1e-5 if dtype == np.complex64 else 1e-7
    dim = 2 ** len(order)
    tol_ref = 2e-5 * math.sqrt(dim) if dtype == np.complex64 else 1e-7
    sw_list = list(cirq.to_resolvers(sweep))
    for i, (res, e) in enumerate(zip(results, envs)):
        got = np.asarray(res.final_state_vector)
        single = sim.simulate(C, sw_list[i], qubit_order=order, initial_state=init_full)
        one = np.asarray(single.final_state_vector)
        ctx.check(got.dtype == np.dtype(dtype) and L.allclose(got, one, tol_pair), "simulate_sweep[i]==simulate(s[i])", "C10:simulate_sweep!=simulate",
                  lambda: "assignment %d: sweep result differs from the single simulation by %.3g" % (i, L.maxdiff(got, one)), index=i, **wit)
        want = refs[i]
        if with_flag:
            want = np.kron(want, np.array([0.0, 1.0]))
        ctx.check(L.allclose(got, want, tol_ref), "simulate_sweep==numpy", "C10:simulate_sweep!=catalogue-evolution",
                  lambda: "assignment %d: sweep state differs from the numpy evolution with the numbers substituted by %.3g" % (i, L.maxdiff(got, want)), index=i, **wit)
        pn = {str(k): float(v) for k, v in res.params.param_dict.items()}
        ctx.check(all(abs(pn.get(k, 1e99) - v) <= 1e-12 * max(1, abs(v)) for k, v in e.items()) and len(pn) == len(e), "sweep-result-params",
                  "C10:simulate_sweep:params", "result %d carries params %r, assignment is %r" % (i, pn, e), **wit)
        if with_flag:
            mm, ms = res.measurements, single.measurements
            ctx.check(list(mm) == ["flag"] and mm["flag"].tolist() == [flag_bit] and ms["flag"].tolist() == [flag_bit], "simulate_sweep-measurements",
                      "C10:simulate_sweep:measurements", "measurements %r / %r, expected flag=%d" % (mm, ms, flag_bit), **wit)
    # expectation values over the same sweep: one list per assignment, observables in the order given
    if not with_flag:
        obs = [cirq.Z(q_) for q_ in qs] + ([cirq.X(qs[0]) * cirq.Z(qs[-1])] if nq >= 2 else [cirq.X(qs[0]) + 0.5 * cirq.Z(qs[0])])
        evs = sim.simulate_expectation_values_sweep(C, obs, sweep, qubit_order=order, initial_state=init_full)
        okev = len(evs) == len(envs)
        worst = 0.0
        for i, row in enumerate(evs if okev else []):
            psi_ = refs[i]
            mats = [L.embed(np.diag([1.0, -1.0]).astype(complex), [j], dims) for j in range(nq)]
            xmat = np.array([[0, 1], [1, 0]], dtype=complex)
            mats.append(L.embed(xmat, [0], dims) @ mats[-1] if nq >= 2 else xmat + 0.5 * np.diag([1.0, -1.0]))
            want_ev = [complex(np.vdot(psi_, m_ @ psi_)) for m_ in mats]
            okev = okev and len(row) == len(want_ev)
            if okev:
                worst = max(worst, max(abs(complex(a_) - b_) for a_, b_ in zip(row, want_ev)))
        ctx.check(okev and worst <= 10 * tol_ref, "simulate_sweep==numpy", "C10:simulate_expectation_values_sweep",
                  lambda: "expectation values over the sweep deviate from <psi|O|psi> of the numpy states by %.3g" % worst, **wit)
    ctx.distinct(("simsweep", tuple(tuple(m.show() for m in ops) for ops in moments), len(envs), first_param), nontrivial=len(envs) >= 2)
    ctx.sample({"circuit": wit["circuit"], "first_parameterized_moment": first_param, "points": envs[:3]})


def sec_runsweep(ctx, rng, case):
    """Deterministic circuits: X**(integer-valued expression), CNOT, SWAP on basis states; every repetition must give
    the bits of the classical model, for every assignment of the sweep, and equal Simulator.run on that assignment."""
    import cirq
    import sympy

    S = sympy.Symbol
    nq = int(rng.integers(1, 5))
    syms = XG.SYMS[:int(rng.integers(1, 4))]
    pts = {s_: [float(x) for x in rng.integers(0, 4, size=int(rng.integers(1, 4)))] for s_ in syms}
    leaves = [cirq.Points(S(s_) if rng.random() < 0.3 else s_, pts[s_]) for s_ in syms]
    mleaves = [SM.Points(s_, pts[s_]) for s_ in syms]
    if rng.random() < 0.5 or len(syms) == 1:
        sweep, M = cirq.Product(*leaves), SM.Product(*mleaves)
    else:
        sweep, M = cirq.Zip(*leaves), SM.Zip(*mleaves)
    envs = [dict(p) for p in M.points()][:8]
    sweep = sweep[:8] if len(M.points()) > 8 else sweep
    qs = cirq.LineQubit.range(nq)
    ops, model = [], []  # model: list of ("x", wire, expr|int) | ("cx", c, t) | ("swap", a, b) | ("m", key, wires)
    nfirst = int(rng.integers(0, 4))
    nkeys = 0
    for step in range(int(rng.integers(2, 10))):
        r = rng.random()
        w = int(rng.integers(nq))
        if r < 0.45:
            if step < nfirst:
                k = int(rng.integers(0, 3))
                ops.append(cirq.X(qs[w]) ** k)
                model.append(("x", w, k))
            else:
                form = int(rng.integers(4))
                a = S(syms[int(rng.integers(len(syms)))])
                b = S(syms[int(rng.integers(len(syms)))])
                e = [a, a + b, 2 * a + 1, a * b][form]
                ops.append(cirq.X(qs[w]) ** e)
                model.append(("x", w, e))
        elif r < 0.65 and nq > 1:
            c, t = [int(x) for x in rng.permutation(nq)[:2]]
            ops.append(cirq.CNOT(qs[c], qs[t]))
            model.append(("cx", c, t))
        elif r < 0.75 and nq > 1:
            c, t = [int(x) for x in rng.permutation(nq)[:2]]
            ops.append(cirq.SWAP(qs[c], qs[t]))
            model.append(("swap", c, t))
        elif r < 0.9:
            k = int(rng.integers(1, nq + 1))
            ws = [int(x) for x in rng.permutation(nq)[:k]]
            key = "m%d" % nkeys
            nkeys += 1
            ops.append(cirq.measure(*[qs[x] for x in ws], key=key))
            model.append(("m", key, ws))
    key = "final"
    ops.append(cirq.measure(*qs, key=key))
    model.append(("m", key, list(range(nq))))
    C = cirq.Circuit(ops)
    reps = int(rng.integers(1, 6))
    sim = cirq.Simulator(seed=int(rng.integers(1 << 30)))
    wit = dict(circuit=[(m[0], str(m[1]), str(m[2])) for m in model], points=envs, repetitions=reps)
    results = sim.run_sweep(C, sweep, repetitions=reps)
    ctx.check(len(results) == len(envs), "run_sweep-len", "C10:run_sweep:count", "%d results for %d assignments" % (len(results), len(envs)), **wit)
    sw_list = list(cirq.to_resolvers(sweep))
    for i, (res, e) in enumerate(zip(results, envs)):
        bits = [0] * nq
        want = {}
        for m in model:
            if m[0] == "x":
                v = m[2] if isinstance(m[2], int) else EV.evaluate(m[2], e)
                if int(round(v)) % 2:
                    bits[m[1]] ^= 1
            elif m[0] == "cx":
                bits[m[2]] ^= bits[m[1]]
            elif m[0] == "swap":
                bits[m[1]], bits[m[2]] = bits[m[2]], bits[m[1]]
            else:
                want[m[1]] = [bits[x] for x in m[2]]
        got = {k: v for k, v in res.measurements.items()}
        ok = set(got) == set(want) and all(np.asarray(got[k]).shape == (reps, len(want[k])) and (np.asarray(got[k]) == np.array(want[k])[None, :]).all() for k in want)
        ctx.check(ok, "run_sweep-deterministic", "C10:run_sweep!=classical-model",
                  lambda: "assignment %d %r: measured %r, the classical model gives %r" % (i, e, {k: np.asarray(v).tolist() for k, v in got.items()}, want), index=i, **wit)
        single = sim.run(C, sw_list[i], repetitions=reps)
        same = set(single.measurements) == set(got) and all((np.asarray(single.measurements[k]) == np.asarray(got[k])).all() for k in got)
        ctx.check(same, "run_sweep[i]==run(s[i])", "C10:run_sweep!=run", "assignment %d: run_sweep and run disagree" % i, index=i, **wit)
        pn = {str(k): float(v) for k, v in res.params.param_dict.items()}
        ctx.check(pn == {k: float(v) for k, v in e.items()}, "sweep-result-params", "C10:run_sweep:params", "result %d carries %r, assignment is %r" % (i, pn, e), **wit)
    ctx.distinct(("runsweep", tuple(wit["circuit"]), tuple(tuple(sorted(e.items())) for e in envs)), nontrivial=len(envs) >= 2)
    ctx.sample({"circuit": wit["circuit"], "points": envs[:3]})


# =============================================================================================== 7. flattening
def sec_flatten(ctx, rng, case):
    import cirq
    import sympy

    S = sympy.Symbol
    nw = int(rng.integers(1, 4))
    dims = [2] * nw
    syms = XG.SYMS[:int(rng.integers(1, 4))]
    sweep, envs = _gen_sweep_over(rng, syms, max_points=4)
    if not envs:
        ctx.reject("empty-sweep")
        return
    pool = [s for s in _S["allspecs"] if 1 <= len(s.shape) <= nw and max(s.shape) == 2]
    moments = gen_model_circuit(rng, dims, int(rng.integers(1, 5)), syms, envs[0], p_sym=0.8, general=True, allow_sym_exponent=True, p_tag=0.0, pool=pool)
    collide = case % 8 == 7
    if collide:
        # a real symbol whose name is exactly what flatten would call the expression a + 1
        xs = [s_ for s_ in _S["gspecs"] if s_.name == "XPow"][0]
        moments.append([MOp(xs, [S("a") + 1, 0.0], [0])])
        moments.append([MOp(xs, [S("<a + 1>"), 0.0], [0])])
        if rng.random() < 0.5:
            moments.reverse()
        envs = [dict(e, **{"<a + 1>": XG.gen_value(rng)}) for e in envs]
        sweep = [cirq.ParamResolver(e) for e in envs]
    flat_ops = [m for ops in moments for m in ops]
    if not any(m.names() for m in flat_ops):
        ctx.reject("nothing-symbolic")
        return
    good_envs = []
    for e in envs:
        try:
            for m in flat_ops:
                m.ref(e)
            good_envs.append(e)
        except EV.OutOfDomain:
            pass
    if not good_envs:
        ctx.reject("expression-out-of-real-domain")
        return
    C = build_circuit(moments, dims)
    if case % 3 == 1:
        C = C.freeze()
    wit = dict(circuit=[[m.show() for m in ops] for ops in moments], points=envs)
    c_flat, emap = cirq.flatten(C)
    # every expression of the original is a key, every value is a plain symbol, the flat circuit names exactly those symbols
    vals_ok = all(isinstance(v, sympy.Symbol) for v in emap.values()) and len(set(emap.values())) == len(emap)
    ctx.check(isinstance(emap, cirq.ExpressionMap) and vals_ok, "flatten-map", "C10:flatten:map-values", "expression map %r" % (emap,), **wit)
    has_ph = any(m.spec.name == "PhasedFSim" and m.gate_names() for m in flat_ops)
    if not has_ph:
        ctx.check(set(cirq.parameter_names(c_flat)) == {v.name for v in emap.values()}, "flatten-map", "C10:flatten:flat-names",
                  "flattened circuit names %s, map values %s" % (sorted(cirq.parameter_names(c_flat)), sorted(v.name for v in emap.values())), **wit)
    # each parameter of the flattened circuit is a number or a bare symbol: resolving it with a resolver that only knows
    # the new symbols must leave nothing behind
    sw_list = list(cirq.to_resolvers(sweep))
    tsweep = emap.transform_sweep(sweep)
    ctx.check(isinstance(tsweep, cirq.Sweep) and len(tsweep) == len(envs), "flatten-sweep", "C10:flatten:transform_sweep-len", "%d vs %d" % (len(tsweep), len(envs)), **wit)
    c_flat2, sweep2 = cirq.flatten_with_sweep(C, sweep)
    for i, e in enumerate(envs):
        if e not in good_envs:
            continue
        tp = emap.transform_params(sw_list[i])
        # values of the new symbols = ordinary algebra on the formulas
        okv = True
        for formula, sym in emap.items():
            want = EV.evaluate(formula, e)
            got = tp.get(sym, None)
            okv = okv and got is not None and _is_plain_number(got) and _close(got, want, 100)
        ctx.check(okv and len(tp) == len(emap), "flatten-params", "C10:flatten:transform_params",
                  lambda: "transform_params(%r) = %r for map %r" % (e, tp, emap), index=i, **wit)
        ts_i = {str(k): v for k, v in tsweep[i].param_dict.items()}
        ctx.check(len(ts_i) == len(tp) and all(_close(ts_i.get(k.name, 1e99), v, 100) for k, v in tp.items()), "flatten-sweep", "C10:flatten:transform_sweep!=transform_params",
                  "transform_sweep[%d] = %r, transform_params = %r" % (i, ts_i, tp), index=i, **wit)
        for how, cf, res in (("flatten+transform_params", c_flat, tp), ("flatten+transform_sweep", c_flat, tsweep[i]),
                             ("flatten_with_sweep", c_flat2, sweep2[i]), ("flatten_with_params", None, None)):
            if how == "flatten_with_params":
                cf, res = cirq.flatten_with_params(C, sw_list[i])
            R = cirq.resolve_parameters(cf, res)
            allok = True
            for j, ops in enumerate(moments):
                allok = check_resolved_ops(ctx, list(R[j].operations), ops, dims, e, how, multi_step=True, moment=j, index=i, **wit) and allok
            ctx.check(allok, "flatten-gate-by-gate", K_MOMENT_EQ if any(_eq_blind(m) for m in flat_ops) else "C10:flatten:" + how, "resolve(flat, transformed assignment) differs gate by gate from the original with the numbers substituted", index=i, **wit)
        Ro = cirq.resolve_parameters(C, sw_list[i])
        for j, ops in enumerate(moments):
            check_resolved_ops(ctx, list(Ro[j].operations), ops, dims, e, "original", moment=j, index=i, **wit)
    # the same assignment given as a chain (a -> link -> number): the new symbols still get numbers, and the flattened
    # circuit resolved with them equals the original with the numbers substituted
    e = good_envs[0]
    used = sorted(n_ for n_ in e if any(n_ in m.names() for m in flat_ops))
    if used and not collide:
        a_ = used[int(rng.integers(len(used)))]
        chain = {k: v for k, v in e.items()}
        chain[a_] = S("zz_link")
        if rng.random() < 0.5:
            chain["zz_link"] = S("zz_link2")
            chain["zz_link2"] = e[a_]
        else:
            chain["zz_link"] = e[a_]
        chain_res = cirq.ParamResolver(chain)
        ctx.event("flatten:chained-assignment")
        tpc = emap.transform_params(chain_res)
        okc = True
        for formula, sym in emap.items():
            got = tpc.get(sym, None)
            okc = okc and got is not None and _is_plain_number(got) and _close(got, EV.evaluate(formula, e), 100)
        ctx.check(okc, "flatten-params", "C10:flatten:transform_params-chained-assignment",
                  lambda: "transform_params(%r) = %r for map %r" % (chain, tpc, emap), **wit)
        tsc = emap.transform_sweep([chain_res])
        ts0 = {str(k): v for k, v in tsc[0].param_dict.items()}
        okc = all(_is_plain_number(ts0.get(sym.name)) and _close(ts0.get(sym.name), EV.evaluate(formula, e), 100) for formula, sym in emap.items())
        ctx.check(okc, "flatten-sweep", "C10:flatten:transform_sweep-chained-assignment",
                  lambda: "transform_sweep([%r])[0] = %r for map %r" % (chain, ts0, emap), **wit)
        for how in ("flatten_with_params", "flatten_with_sweep"):
            if how == "flatten_with_params":
                cf, res = cirq.flatten_with_params(C, chain_res)
            else:
                cf, sw_ = cirq.flatten_with_sweep(C, [chain_res])
                res = sw_[0]
            R = cirq.resolve_parameters(cf, res)
            allok = not cirq.is_parameterized(R)
            ctx.check(allok, "flatten-gate-by-gate", "C10:flatten:chained-assignment-leaves-symbols:" + how,
                      "resolve(flat, transformed chain) is still parameterized: %s" % sorted(cirq.parameter_names(R)), **wit)
            if allok:
                for j, ops in enumerate(moments):
                    allok = check_resolved_ops(ctx, list(R[j].operations), ops, dims, e, how + ":chained", multi_step=True, moment=j, **wit) and allok
                ctx.check(allok, "flatten-gate-by-gate", K_MOMENT_EQ if any(_eq_blind(m) for m in flat_ops) else "C10:flatten:chained:" + how, "", **wit)
    # single gates and operations flatten too
    m0 = [m for m in flat_ops if m.gate_names()][0]
    g = m0.gate()
    gf, gmap = cirq.flatten(g)
    e = good_envs[0]
    r0 = {k: e[k] for k in e}
    u = cirq.unitary(cirq.resolve_parameters(gf, gmap.transform_params(r0)), None)
    ctx.check(u is not None and L.allclose(u, m0.ref(e), ATOL_M), "flatten-gate-by-gate", "C10:flatten:gate:" + m0.spec.name, "flattened gate differs", op=m0.show(), **wit)
    ctx.distinct(("flatten", tuple(tuple(m.show() for m in ops) for ops in moments), len(envs)), nontrivial=any(not isinstance(k, sympy.Symbol) for k in emap))
    ctx.sample({"circuit": wit["circuit"], "map": {str(k): str(v) for k, v in emap.items()}})

# (name, function, quick cases, thorough cases, time weight ~ expected seconds of the quick tier over all shards)
SECTIONS = [
    ("expr", sec_expr, 4000, 100000, 110.0),
    ("gates", sec_gates, 3000, 75000, 27.0),
    ("circuits", sec_circuits, 1000, 25000, 27.0),
    ("circuitop", sec_circuitop, 1000, 25000, 11.0),
    ("sweeps", sec_sweeps, 4000, 100000, 6.0),
    ("sweepable", sec_sweepable, 1400, 35000, 1.0),
    ("simsweep", sec_simsweep, 900, 22500, 15.0),
    ("runsweep", sec_runsweep, 500, 12500, 8.0),
    ("flatten", sec_flatten, 700, 17500, 13.0),
]
