"""C05 - circuits stay well-formed and order-preserving under any edit history.

Random histories of public mutating and querying calls on cirq.Circuit.  Every
operation carries a unique tag, so after each call an offline checker over the
before/after moment lists decides: moment well-formedness, conservation (no op
lost or duplicated), the order relation the edit prescribes for conflicting
operations, documented placement where unambiguous, and fresh-rebuild
equivalence of every query."""
from __future__ import annotations

import numpy as np

LEVEL = "exploration"
RULE = ("edit histories of 5-30 public calls (append/insert with every strategy, insert_into_range, insert_at_frontier, "
        "batch_insert/_into/_remove/_replace, clear_operations_touching, item/slice assignment and deletion, +, *, +=, *=, "
        "zip, concat_ragged, transform_qubits, with_tags, copy, freeze/unfreeze) over 2-5 qubits with measurement and control "
        "keys, interleaved with queries; every op uniquely tagged; non-trivial = history has >=3 successful edits and >=2 "
        "conflicting operation pairs; distinct by history text")
ASSUMPTIONS = ["insert_into_range, insert_at_frontier and concat_ragged are documented as purely qubit-geometric: for them only qubit conflicts are ordered",
               "order exemption as stated by the property: several operations inserted mid-circuit with EARLIEST may land at or after the insertion point",
               "documented exceptions (ValueError/IndexError for bad indices or colliding batch edits) are expected rejections and must leave the circuit unchanged"]
MIN_EVAL = {"moments-well-formed": 3000, "conservation": 3000, "order-existing": 3000, "order-inserted": 1500, "fresh-rebuild-queries": 3000}
MUST_REACH = [
    "cirq/circuits/circuit.py:Circuit.insert", "cirq/circuits/circuit.py:Circuit._insert_latest",
    "cirq/circuits/circuit.py:Circuit._load_contents_with_earliest_strategy", "cirq/circuits/circuit.py:_PlacementCache.append",
    "cirq/circuits/circuit.py:get_earliest_accommodating_moment_index", "cirq/circuits/circuit.py:_group_into_moment_compatible",
    "cirq/circuits/circuit.py:Circuit._can_add_op_at", "cirq/circuits/circuit.py:Circuit.earliest_available_moment",
    "cirq/circuits/circuit.py:Circuit.batch_insert", "cirq/circuits/circuit.py:Circuit.batch_insert_into",
    "cirq/circuits/circuit.py:Circuit.batch_remove", "cirq/circuits/circuit.py:Circuit.batch_replace",
    "cirq/circuits/circuit.py:Circuit.insert_into_range", "cirq/circuits/circuit.py:Circuit.insert_at_frontier",
    "cirq/circuits/circuit.py:Circuit.clear_operations_touching", "cirq/circuits/circuit.py:Circuit._mutated",
    "cirq/circuits/moment.py:Moment.with_operation", "cirq/circuits/moment.py:Moment.with_operations",
]

KEYS = ["a", "b"]


class Hist:
    """One history: the circuit under test, the op registry and the text log."""

    def __init__(self, rng, cirq):
        self.rng, self.cirq = rng, cirq
        self.n = int(rng.integers(2, 6))
        self.qubits = list(cirq.LineQubit.range(self.n))
        self.next_id = 0
        self.info = {}  # id -> (frozenset qubit idx, frozenset mkeys, frozenset ckeys)
        self.log = []
        self.edits = 0

    def new_op(self):
        cirq, rng = self.cirq, self.rng
        r = rng.random()
        oid = self.next_id
        self.next_id += 1
        if r < 0.15:
            k = KEYS[int(rng.integers(len(KEYS)))]
            w = [int(rng.integers(self.n))]
            op = cirq.measure(self.qubits[w[0]], key=k)
            inf = (frozenset(w), frozenset([k]), frozenset())
        elif r < 0.27:
            k = KEYS[int(rng.integers(len(KEYS)))]
            w = [int(rng.integers(self.n))]
            op = cirq.X(self.qubits[w[0]]).with_classical_controls(k)
            inf = (frozenset(w), frozenset(), frozenset([k]))
        elif r < 0.31:
            # an operation on no qubits at all (conflicts with nothing unless it is classically controlled)
            w = []
            op = cirq.global_phase_operation([1j, -1, np.exp(0.3j)][int(rng.integers(3))])
            inf = (frozenset(), frozenset(), frozenset())
            if rng.random() < 0.3:
                k = KEYS[int(rng.integers(len(KEYS)))]
                op = op.with_classical_controls(k)
                inf = (frozenset(), frozenset(), frozenset([k]))
        elif r < 0.65:
            w = [int(rng.integers(self.n))]
            g = [cirq.X, cirq.Y, cirq.Z, cirq.H, cirq.S, cirq.T][int(rng.integers(6))]
            if rng.random() < 0.2:
                import sympy
                g = g ** sympy.Symbol(["a", "b", "c"][int(rng.integers(3))])  # a symbolic operation: the parameter caches have something to go stale on
            op = g(self.qubits[w[0]])
            inf = (frozenset(w), frozenset(), frozenset())
        elif r < 0.97 or self.n < 3:
            w = [int(x) for x in rng.choice(self.n, size=2, replace=False)]
            g = [cirq.CZ, cirq.CNOT, cirq.SWAP, cirq.ISWAP][int(rng.integers(4))]
            op = g(self.qubits[w[0]], self.qubits[w[1]])
            inf = (frozenset(w), frozenset(), frozenset())
        else:
            w = [int(x) for x in rng.choice(self.n, size=3, replace=False)]
            op = cirq.CCZ(*[self.qubits[x] for x in w])
            inf = (frozenset(w), frozenset(), frozenset())
        self.info[oid] = inf
        return op.with_tags(("id", oid)), oid

    def conflict(self, a, b):
        qa, ma, ca = self.info[a]
        qb, mb, cb = self.info[b]
        return bool(qa & qb) or bool(ma & mb) or bool(ma & cb) or bool(ca & mb)


def op_id(op):
    for t in op.tags:
        if isinstance(t, tuple) and len(t) == 2 and t[0] == "id":
            return t[1]
    return None


def positions(circuit):
    """-> list of (moment index, id) for every op (ids may repeat after * or +)."""
    out = []
    for mi, m in enumerate(circuit.moments):
        for op in m.operations:
            out.append((mi, op_id(op)))
    return out


def check_wellformed(ctx, h, circuit, what):
    cirq = h.cirq
    ok, why = True, ""
    for mi, m in enumerate(circuit.moments):
        seen = set()
        for op in m.operations:
            for q in op.qubits:
                if q in seen:
                    ok, why = False, "moment %d has two operations on %r" % (mi, q)
                seen.add(q)
        if frozenset(seen) != m.qubits:
            ok, why = False, "moment %d reports qubits %r, operations touch %r" % (mi, sorted(m.qubits), sorted(seen))
        for q in seen:
            o = m.operation_at(q)
            if o is None or q not in o.qubits:
                ok, why = False, "moment %d operation_at(%r) inconsistent" % (mi, q)
        mk = set()
        for op in m.operations:
            mk |= set(cirq.measurement_key_names(op))
        if set(cirq.measurement_key_names(m)) != mk:
            ok, why = False, "moment %d cached measurement keys %r != %r" % (mi, sorted(cirq.measurement_key_names(m)), sorted(mk))
        ck = set()
        for op in m.operations:
            ck |= {str(k) for k in cirq.control_keys(op)}
        if {str(k) for k in cirq.control_keys(m)} != ck:
            ok, why = False, "moment %d cached control keys wrong" % mi
    ctx.check(ok, "moments-well-formed", "C05:moment-malformed:" + what, why, history=h.log[-12:])
    return ok


def check_queries(ctx, h, circuit, what):
    """every query answers as a freshly rebuilt equal circuit would, and as the raw moment list says"""
    cirq, rng = h.cirq, h.rng
    fresh = cirq.Circuit(list(circuit.moments), tags=circuit.tags)
    raw = [(mi, op) for mi, m in enumerate(circuit.moments) for op in m.operations]
    wit = dict(history=h.log[-12:], query_after=what)
    qs_raw = frozenset(q for _, op in raw for q in op.qubits)
    ok = circuit.all_qubits() == fresh.all_qubits() == qs_raw
    ctx.check(ok, "fresh-rebuild-queries", "C05:stale-all_qubits", "all_qubits %r, moments hold %r" % (sorted(circuit.all_qubits()), sorted(qs_raw)), **wit)
    mk_raw = frozenset(k for _, op in raw for k in cirq.measurement_key_names(op))
    ok = frozenset(circuit.all_measurement_key_names()) == frozenset(fresh.all_measurement_key_names()) == mk_raw
    ctx.check(ok, "fresh-rebuild-queries", "C05:stale-measurement-keys", "%r vs %r" % (sorted(circuit.all_measurement_key_names()), sorted(mk_raw)), **wit)
    ctx.check(circuit == fresh and fresh == circuit, "fresh-rebuild-queries", "C05:eq-vs-fresh", "circuit != Circuit(its moments)", **wit)
    pn_raw = set()
    for _, op in raw:
        pn_raw |= set(cirq.parameter_names(op))
    ctx.check(set(cirq.parameter_names(circuit)) == pn_raw and cirq.is_parameterized(circuit) == bool(pn_raw), "fresh-rebuild-queries", "C05:stale-parameters",
              "parameter_names(circuit) = %r, its operations hold %r" % (sorted(cirq.parameter_names(circuit)), sorted(pn_raw)), **wit)
    fz = circuit.freeze()
    ctx.check(fz == fresh.freeze() and hash(fz) == hash(fresh.freeze()) and list(fz.moments) == list(circuit.moments), "fresh-rebuild-queries", "C05:stale-frozen", "freeze() is not the current circuit", **wit)
    ctx.check(len(circuit) == len(circuit.moments) and list(circuit) == list(circuit.moments), "fresh-rebuild-queries", "C05:len-iter", "", **wit)
    ops_iter = list(circuit.all_operations())
    ctx.check([op_id(o) for o in ops_iter] == [op_id(o) for _, o in raw], "fresh-rebuild-queries", "C05:all_operations-order", "", **wit)
    if circuit.moments:
        nq = int(rng.integers(1, h.n + 1))
        sel = [h.qubits[int(i)] for i in rng.choice(h.n, size=nq, replace=False)]
        start = int(rng.integers(0, len(circuit) + 1))
        got = circuit.next_moment_operating_on(sel, start)
        want = None
        for mi in range(start, len(circuit)):
            if any(set(sel) & set(op.qubits) for op in circuit.moments[mi].operations):
                want = mi
                break
        ctx.check(got == want, "fresh-rebuild-queries", "C05:next_moment_operating_on", "%r vs %r" % (got, want), sel=[repr(q) for q in sel], start=start, **wit)
        end = int(rng.integers(0, len(circuit) + 1))
        got = circuit.prev_moment_operating_on(sel, end)
        want = None
        for mi in range(end - 1, -1, -1):
            if any(set(sel) & set(op.qubits) for op in circuit.moments[mi].operations):
                want = mi
                break
        ctx.check(got == want, "fresh-rebuild-queries", "C05:prev_moment_operating_on", "%r vs %r" % (got, want), sel=[repr(q) for q in sel], end=end, **wit)
        # measurement terminality
        term = True
        for mi, op in raw:
            if cirq.is_measurement(op):
                for mj, op2 in raw:
                    if mj > mi and set(op.qubits) & set(op2.qubits):
                        term = False
        ctx.check(circuit.are_all_measurements_terminal() == term, "fresh-rebuild-queries", "C05:are_all_measurements_terminal", "", **wit)
        # earliest_available_moment for a fresh op vs brute force over the raw list
        op, oid = h.new_op()
        endi = int(rng.integers(0, len(circuit) + 1))
        got = circuit.earliest_available_moment(op, end_moment_index=endi)
        want = endi
        k = endi - 1
        while k >= 0:
            blocked = False
            for op2 in circuit.moments[k].operations:
                i2 = op_id(op2)
                if i2 is not None and h.conflict(oid, i2):
                    blocked = True
            if blocked:
                break
            want = k
            k -= 1
        ctx.check(got == want, "fresh-rebuild-queries", "C05:earliest_available_moment", "%r vs brute force %r" % (got, want), end=endi, op=repr(op)[:80], **wit)
        del h.info[oid]


def check_edit(ctx, h, what, before, after, inserted, removed, k, exempt_after, order_inserted=True, existing_fixed=False, qubit_conflicts_only=False):
    """offline checker over before/after position lists"""
    wit = dict(history=h.log[-12:], edit=what)
    pb = {}
    for mi, i in before:
        pb.setdefault(i, []).append(mi)
    pa = {}
    for mi, i in after:
        pa.setdefault(i, []).append(mi)
    # conservation
    want = {}
    for mi, i in before:
        want[i] = want.get(i, 0) + 1
    for i in removed:
        want[i] = want.get(i, 0) - 1
    for i in inserted:
        want[i] = want.get(i, 0) + 1
    want = {i: c for i, c in want.items() if c}
    got = {}
    for mi, i in after:
        got[i] = got.get(i, 0) + 1
    ctx.check(got == want, "conservation", "C05:op-lost-or-duplicated:" + what,
              lambda: "operations lost %r / unexpected %r" % (sorted(set(want) - set(got))[:5], sorted(set(got) - set(want))[:5]), **wit)
    if got != want:
        return False
    ins = set(inserted)
    existing = [i for i in pa if i in pb and i not in ins and len(pa[i]) == 1 and len(pb[i]) == 1]
    ok, why = True, ""
    for x in range(len(existing)):
        for y in range(x + 1, len(existing)):
            a, b = existing[x], existing[y]
            if h.conflict(a, b):
                s0 = np.sign(pb[a][0] - pb[b][0])
                s1 = np.sign(pa[a][0] - pa[b][0])
                if s0 != s1:
                    ok, why = False, "existing conflicting operations %d and %d changed order (%d,%d)->(%d,%d)" % (a, b, pb[a][0], pb[b][0], pa[a][0], pa[b][0])
    if existing_fixed:
        for a in existing:
            if pa[a][0] != pb[a][0]:
                ok, why = False, "operation %d moved from moment %d to %d although this edit does not move operations" % (a, pb[a][0], pa[a][0])
    ctx.check(ok, "order-existing", "C05:existing-order-changed:" + what, why, **wit)
    ok2, why2 = True, ""
    il = [i for i in inserted if len(pa.get(i, [])) == 1]
    if order_inserted:
        for x in range(len(il)):
            for y in range(x + 1, len(il)):
                a, b = il[x], il[y]
                cf = bool(h.info[a][0] & h.info[b][0]) if qubit_conflicts_only else h.conflict(a, b)
                if cf and not pa[a][0] < pa[b][0]:
                    ok2, why2 = False, "inserted conflicting operations %d then %d ended in moments %d, %d" % (a, b, pa[a][0], pa[b][0])
    if k is not None:
        for e in existing:
            for x in il:
                if not (bool(h.info[e][0] & h.info[x][0]) if qubit_conflicts_only else h.conflict(e, x)):
                    continue
                if pb[e][0] < k and not pa[e][0] < pa[x][0]:
                    ok2, why2 = False, "inserted %d (moment %d) is not after existing conflicting %d (moment %d) that preceded the insertion point %d" % (x, pa[x][0], e, pa[e][0], k)
                if pb[e][0] >= k and not exempt_after and not pa[x][0] < pa[e][0]:
                    ok2, why2 = False, "inserted %d (moment %d) is not before existing conflicting %d (moment %d) that followed the insertion point %d" % (x, pa[x][0], e, pa[e][0], k)
    if il:
        ctx.check(ok2, "order-inserted", "C05:inserted-order-wrong:" + what, why2, **wit)
    return ok and ok2


STRATS = ["EARLIEST", "NEW", "INLINE", "NEW_THEN_INLINE", "LATEST"]


def _norm_index(index, length):
    return max(min(index if index >= 0 else length + index, length), 0)


def sec_history(ctx, rng, case):
    import cirq

    h = Hist(rng, cirq)
    # start from every constructor path
    start = int(rng.integers(7))
    init_ops = [h.new_op()[0] for _ in range(int(rng.integers(0, 8)))]
    strat0 = getattr(cirq.InsertStrategy, STRATS[int(rng.integers(len(STRATS)))])
    if start == 0:
        c = cirq.Circuit(init_ops, strategy=strat0)
        h.log.append("Circuit(%d ops, strategy=%s)" % (len(init_ops), strat0))
    elif start == 1:
        c = cirq.Circuit(cirq.Circuit(init_ops).moments)
        h.log.append("Circuit(moments)")
    elif start == 2:
        c = cirq.Circuit.from_moments(*[[o] for o in init_ops])
        h.log.append("from_moments")
    elif start == 3:
        c = cirq.Circuit(init_ops).copy()
        h.log.append("Circuit(ops).copy()")
    elif start == 4:
        c = cirq.Circuit(init_ops).freeze().unfreeze(copy=bool(rng.integers(2)))
        h.log.append("freeze().unfreeze()")
    elif start == 5:
        c = cirq.Circuit(init_ops).with_tags("tagged")
        h.log.append("Circuit(ops).with_tags")
    else:
        # a mix of whole Moments and loose operations (keeps the append placement cache alive)
        tree = []
        for o in init_ops:
            tree.append(cirq.Moment([o]) if rng.random() < 0.4 else o)
        c = cirq.Circuit(tree)
        h.log.append("Circuit(mix of %d Moments/ops: %s)" % (len(tree), ["M" if isinstance(x, cirq.Moment) else "o" for x in tree]))
        # loose ops may slide left but never past a conflicting earlier item; a Moment always starts a new moment at the end
        check_edit(ctx, h, "constructor:mixed", [], positions(c), [op_id(o) for o in init_ops], [], 0, False)
    ins0 = [op_id(o) for o in init_ops]
    if start == 0:
        check_edit(ctx, h, "constructor:" + str(strat0), [], positions(c), ins0, [], 0, False)
    if start == 2:
        ctx.check([i for _, i in positions(c)] == ins0 and len(c) == len(init_ops), "placement-documented", "C05:from_moments", "", history=h.log)
    check_wellformed(ctx, h, c, "constructor")
    nconf = 0
    for _ in range(int(rng.integers(5, 30))):
        before = positions(c)
        before_moments = list(c.moments)
        L0 = len(c)
        kind = int(rng.integers(27))
        what = None
        try:
            if kind <= 5:  # append / insert with a strategy
                ops = [h.new_op() for _ in range(int(rng.integers(1, 5)))]
                sname = STRATS[int(rng.integers(len(STRATS)))] if rng.random() < 0.6 else "EARLIEST"
                strat = getattr(cirq.InsertStrategy, sname)
                tree = [o for o, _ in ops]
                if rng.random() < 0.3 and len(tree) > 1:
                    tree = [tree[0], [tree[1:]]]
                ids = [i for _, i in ops]
                if kind <= 1:
                    what = "append:" + sname
                    h.log.append("append(%s, %s)" % (ids, sname))
                    c.append(tree, strategy=strat)
                    k = L0
                    exempt = False
                else:
                    index = int(rng.integers(-L0 - 2, L0 + 3))
                    what = "insert:" + sname
                    h.log.append("insert(%d, %s, %s)" % (index, ids, sname))
                    k = _norm_index(index, L0)
                    ret = c.insert(index, tree, strategy=strat)
                    exempt = sname == "EARLIEST" and len(ids) > 1 and k < L0
                    ctx.check(isinstance(ret, int) and 0 <= ret <= len(c), "placement-documented", "C05:insert-return-value", "insert returned %r for a circuit of %d moments" % (ret, len(c)), history=h.log[-8:])
                after = positions(c)
                check_edit(ctx, h, what, before, after, ids, [], k, exempt)
                if sname == "NEW":
                    pa = dict((i, mi) for mi, i in after)
                    ok = len(c) == L0 + len(ids) and [pa[i] for i in ids] == list(range(k, k + len(ids)))
                    ctx.check(ok, "placement-documented", "C05:NEW-placement", "NEW must create one new moment per operation at the insertion point, got moments %r at k=%d" % ([pa[i] for i in ids], k), history=h.log[-8:])
                if len(ids) == 1 and sname == "EARLIEST" and what.startswith("append"):
                    pa = dict((i, mi) for mi, i in after)
                    pb = dict((i, mi) for mi, i in before)
                    last = max([pb[e] for e in pb if h.conflict(e, ids[0])], default=-1)
                    ctx.check(pa[ids[0]] == last + 1, "placement-documented", "C05:EARLIEST-append-placement",
                              "appended operation %d landed in moment %d, earliest allowed is %d" % (ids[0], pa[ids[0]], last + 1), history=h.log[-8:])
            elif kind == 6:  # insert a whole Moment
                ops, used = [], set()
                for _ in range(int(rng.integers(1, 4))):
                    o, i = h.new_op()
                    if h.info[i][0] & used or any(h.conflict(i, j) for _, j in ops):
                        del h.info[i]
                        continue
                    used |= h.info[i][0]
                    ops.append((o, i))
                index = int(rng.integers(0, L0 + 1))
                what = "insert-moment"
                h.log.append("insert(%d, Moment%s)" % (index, [i for _, i in ops]))
                c.insert(index, cirq.Moment([o for o, _ in ops]))
                after = positions(c)
                check_edit(ctx, h, what, before, after, [i for _, i in ops], [], index, False)
                pa = dict((i, mi) for mi, i in after)
                ctx.check(all(pa[i] == index for _, i in ops) and len(c) == L0 + 1, "placement-documented", "C05:moment-inserted-intact", "", history=h.log[-8:])
            elif kind == 7 and L0 > 0:  # insert_into_range
                ops = [h.new_op() for _ in range(int(rng.integers(1, 4)))]
                s_ = int(rng.integers(0, L0 + 1))
                e_ = int(rng.integers(s_, L0 + 1))
                what = "insert_into_range"
                h.log.append("insert_into_range(%s, %d, %d)" % ([i for _, i in ops], s_, e_))
                c.insert_into_range([o for o, _ in ops], s_, e_)
                check_edit(ctx, h, what, before, positions(c), [i for _, i in ops], [], s_, True, order_inserted=True, qubit_conflicts_only=True)
            elif kind == 8 and L0 > 0:  # batch_insert
                groups = []
                one_each = rng.random() < 0.5
                for _ in range(int(rng.integers(1, 5))):
                    groups.append((int(rng.integers(0, L0 + 1)), [h.new_op() for _ in range(1 if one_each else int(rng.integers(1, 3)))]))
                what = "batch_insert"
                h.log.append("batch_insert(%s)" % [(i, [x for _, x in g]) for i, g in groups])
                c.batch_insert([(i, [o for o, _ in g]) for i, g in groups])
                ids = [x for _, g in groups for _, x in g]
                check_edit(ctx, h, what, before, positions(c), ids, [], None, True, order_inserted=False)
                # documented: an op inserted at index i comes after everything that was before moment i
                after = positions(c)
                pa = dict((i, mi) for mi, i in after)
                pb = dict((i, mi) for mi, i in before)
                ok, why = True, ""
                # one operation per index, every index once: each is a plain single-operation EARLIEST insert at its
                # (shifted) index, so it also precedes what was at or after that index on its qubits.  (Several operations at
                # one index may overtake each other - the EARLIEST multi-operation placement recorded under C12.)
                single_ops = all(len(g) == 1 for _, g in groups) and len({gi for gi, _ in groups}) == len(groups)
                for gi, g in groups:
                    for _, x in g:
                        for e in pb:
                            if h.conflict(e, x) and pb[e] < gi and not pa[e] < pa[x]:
                                ok, why = False, "batch-inserted %d (at %d) is not after existing conflicting %d" % (x, gi, e)
                            if single_ops and bool(h.info[e][0] & h.info[x][0]) and pb[e] >= gi and not pa[x] < pa[e]:
                                # (indices refer to the circuit as it was: every group, in whatever order the batch lists them)
                                ok, why = False, "batch-inserted %d (at %d) is not before existing %d on the same qubit, which was in moment %d" % (x, gi, e, pb[e])
                ctx.check(ok, "order-inserted", "C05:batch_insert-order", why, history=h.log[-8:])
            elif kind == 9 and L0 > 0:  # batch_insert_into (all-or-nothing)
                mi = int(rng.integers(0, L0))
                o, i = h.new_op()
                what = "batch_insert_into"
                h.log.append("batch_insert_into(%d, %d)" % (mi, i))
                collide = bool(set(o.qubits) & set(c.moments[mi].qubits))
                try:
                    c.batch_insert_into([(mi, o)])
                    ctx.check(not collide, "all-or-nothing", "C05:batch_insert_into-accepted-collision", "", history=h.log[-8:])
                    check_edit(ctx, h, what, before, positions(c), [i], [], None, False, existing_fixed=True)
                    ctx.check(dict((x, m) for m, x in positions(c))[i] == mi, "placement-documented", "C05:batch_insert_into-placement", "", history=h.log[-8:])
                except ValueError:
                    ctx.reject("batch_insert_into-collision")
                    ctx.check(collide and list(c.moments) == before_moments, "all-or-nothing", "C05:failed-edit-changed-circuit", "batch_insert_into raised but the circuit changed (or raised without a collision)", history=h.log[-8:])
                    del h.info[i]
            elif kind == 10 and before:  # batch_remove
                sel = [before[int(x)] for x in rng.choice(len(before), size=min(len(before), int(rng.integers(1, 4))), replace=False)]
                ops_by = {(mi, op_id(op)): op for mi, m in enumerate(c.moments) for op in m.operations}
                bogus = rng.random() < 0.2
                rem = [(mi, ops_by[(mi, i)]) for mi, i in sel]
                if bogus:
                    o, i2 = h.new_op()
                    rem.append((0, o))
                what = "batch_remove"
                h.log.append("batch_remove(%s%s)" % (sel, "+bogus" if bogus else ""))
                try:
                    c.batch_remove(rem)
                    ctx.check(not bogus, "all-or-nothing", "C05:batch_remove-accepted-missing-op", "", history=h.log[-8:])
                    check_edit(ctx, h, what, before, positions(c), [], [i for _, i in sel], None, False, existing_fixed=True)
                except ValueError:
                    ctx.reject("batch_remove-missing")
                    ctx.check(bogus and list(c.moments) == before_moments, "all-or-nothing", "C05:failed-edit-changed-circuit", "batch_remove raised but the circuit changed", history=h.log[-8:])
            elif kind == 11 and before:  # batch_replace with ops on the same qubits (sometimes with a bad last entry)
                sel = [before[int(x)] for x in rng.choice(len(before), size=min(len(before), int(rng.integers(1, 4))), replace=False)]
                batch, newids = [], []
                for mi, i in sel:
                    old = [op for op in c.moments[mi].operations if op_id(op) == i][0]
                    newid = h.next_id
                    h.next_id += 1
                    h.info[newid] = h.info[i]
                    newids.append(newid)
                    batch.append((mi, old, old.untagged.with_tags(("id", newid))))
                bad = str(rng.choice(["missing-op", "moment-out-of-range"])) if rng.random() < 0.25 else None
                if bad == "missing-op":
                    o, _ = h.new_op()
                    batch.append((sel[0][0], o, o))
                elif bad:
                    batch.append((L0 + int(rng.integers(0, 3)), batch[0][1], batch[0][2]))
                what = "batch_replace"
                h.log.append("batch_replace(%s%s)" % (["%d@%d -> %d" % (i, mi, n_) for (mi, i), n_ in zip(sel, newids)], "+" + bad if bad else ""))
                if rng.random() < 0.5:
                    check_queries(ctx, h, c, "before-batch_replace")   # (fills the caches a failed edit must leave valid)
                try:
                    c.batch_replace(batch)
                except (ValueError, IndexError) as e:
                    ctx.reject("batch_replace-" + str(bad))
                    ctx.check(bad is not None and type(e) is (ValueError if bad == "missing-op" else IndexError), "all-or-nothing",
                              "C05:batch_replace-rejected-valid", "%s: %s" % (type(e).__name__, e), history=h.log[-8:])
                    ctx.check(list(c.moments) == before_moments, "all-or-nothing", "C05:failed-edit-changed-circuit",
                              "batch_replace raised but the circuit changed", history=h.log[-8:])
                    if list(c.moments) == before_moments:
                        for n_ in newids:
                            del h.info[n_]
                    what = "batch_replace-failed"
                else:
                    ctx.check(bad is None, "all-or-nothing", "C05:batch_replace-accepted-bad-entry", str(bad), history=h.log[-8:])
                    check_edit(ctx, h, what, before, positions(c), newids, [i for _, i in sel], None, False, order_inserted=False, existing_fixed=True)
                    at = dict((x, m) for m, x in positions(c))
                    ctx.check(all(at.get(n_) == mi for (mi, _), n_ in zip(sel, newids)), "placement-documented",
                              "C05:batch_replace-placement", "", history=h.log[-8:])
            elif kind == 12 and L0 > 0:  # clear_operations_touching
                qs = [h.qubits[int(x)] for x in rng.choice(h.n, size=int(rng.integers(1, h.n + 1)), replace=False)]
                mis = [int(x) for x in rng.choice(L0, size=int(rng.integers(1, L0 + 1)), replace=False)]
                what = "clear_operations_touching"
                h.log.append("clear_operations_touching(%s, %s)" % ([q.x for q in qs], mis))
                removed = [op_id(op) for mi in mis for op in c.moments[mi].operations if set(op.qubits) & set(qs)]
                c.clear_operations_touching(qs, mis)
                check_edit(ctx, h, what, before, positions(c), [], removed, None, False, existing_fixed=True)
            elif kind == 13 and L0 > 0:  # __setitem__ / __delitem__
                mi = int(rng.integers(-L0, L0))
                if rng.random() < 0.5:
                    o, i = h.new_op()
                    what = "setitem"
                    h.log.append("c[%d] = Moment([%d])" % (mi, i))
                    removed = [op_id(op) for op in c.moments[mi].operations]
                    c[mi] = cirq.Moment([o])
                    check_edit(ctx, h, what, before, positions(c), [i], removed, None, False, existing_fixed=True)
                else:
                    what = "delitem"
                    h.log.append("del c[%d]" % mi)
                    removed = [op_id(op) for op in c.moments[mi].operations]
                    del c[mi]
                    check_edit(ctx, h, what, before, positions(c), [], removed, None, False)
                    ctx.check(len(c) == L0 - 1, "placement-documented", "C05:delitem-length", "", history=h.log[-8:])
            elif kind == 14 and L0 > 1:  # slice assignment / deletion
                a = int(rng.integers(0, L0))
                b = int(rng.integers(a, L0 + 1))
                removed = [op_id(op) for m in c.moments[a:b] for op in m.operations]
                if rng.random() < 0.5:
                    news = [h.new_op() for _ in range(int(rng.integers(0, 3)))]
                    what = "setslice"
                    h.log.append("c[%d:%d] = %d moments" % (a, b, len(news)))
                    c[a:b] = [cirq.Moment([o]) for o, _ in news]
                    check_edit(ctx, h, what, before, positions(c), [i for _, i in news], removed, None, False)
                    ctx.check(len(c) == L0 - (b - a) + len(news), "placement-documented", "C05:setslice-length", "", history=h.log[-8:])
                else:
                    what = "delslice"
                    h.log.append("del c[%d:%d]" % (a, b))
                    del c[a:b]
                    check_edit(ctx, h, what, before, positions(c), [], removed, None, False)
            elif kind == 15:  # + and += with another circuit
                other_ops = [h.new_op() for _ in range(int(rng.integers(0, 4)))]
                other = cirq.Circuit([o for o, _ in other_ops])
                what = "add"
                if rng.random() < 0.5:
                    h.log.append("c += Circuit(%s)" % [i for _, i in other_ops])
                    c += other
                else:
                    h.log.append("c = c + Circuit(%s)" % [i for _, i in other_ops])
                    c = c + other
                after = positions(c)
                ctx.check(list(c.moments) == before_moments + list(other.moments), "placement-documented", "C05:add-concatenates-moments", "", history=h.log[-8:])
                check_edit(ctx, h, what, before, after, [i for _, i in other_ops], [], L0, False)
            elif kind == 16 and L0 > 0:  # * and *=
                rep = int(rng.integers(0, 3))
                what = "mul"
                h.log.append("c = c * %d" % rep)
                c2 = c * rep
                ctx.check(list(c2.moments) == before_moments * rep and list(c.moments) == before_moments, "placement-documented", "C05:mul-repeats-moments", "", history=h.log[-8:])
            elif kind == 17:  # zip with a circuit on fresh qubits
                extra = cirq.LineQubit.range(10, 12)
                z = cirq.Circuit(cirq.X(extra[0]).with_tags(("id", -1)), cirq.CZ(*extra).with_tags(("id", -2)))
                what = "zip"
                h.log.append("c.zip(other on fresh qubits)")
                c2 = c.zip(z)
                want = []
                for mi in range(max(L0, len(z))):
                    a = set(before_moments[mi].operations) if mi < L0 else set()
                    b = set(z.moments[mi].operations) if mi < len(z) else set()
                    want.append(a | b)
                ctx.check([set(m.operations) for m in c2.moments] == want and list(c.moments) == before_moments, "placement-documented", "C05:zip-moment-union", "", history=h.log[-8:])
                check_wellformed(ctx, h, c2, "zip")
            elif kind == 18:  # concat_ragged with a small circuit
                other_ops = [h.new_op() for _ in range(int(rng.integers(1, 4)))]
                other = cirq.Circuit([o for o, _ in other_ops])
                what = "concat_ragged"
                h.log.append("c.concat_ragged(Circuit(%s))" % [i for _, i in other_ops])
                c2 = c.concat_ragged(other)
                check_wellformed(ctx, h, c2, "concat_ragged")
                # all-first-before-second for conflicting pairs; both inputs keep their own order
                check_edit(ctx, h, what, before, positions(c2), [i for _, i in other_ops], [], L0, False, qubit_conflicts_only=True)
                ctx.check(list(c.moments) == before_moments, "placement-documented", "C05:concat_ragged-mutated-input", "", history=h.log[-8:])
                for _, i in other_ops:
                    del h.info[i]
            elif kind == 19:  # transform_qubits by a permutation, then back
                perm = [int(x) for x in rng.permutation(h.n)]
                m = {h.qubits[i]: h.qubits[perm[i]] for i in range(h.n)}
                inv = {v: k for k, v in m.items()}
                what = "transform_qubits"
                h.log.append("transform_qubits(%s) and back" % perm)
                c2 = c.transform_qubits(m)
                ctx.check([[op_id(o) for o in mo.operations] for mo in c2.moments] == [[op_id(o) for o in mo.operations] for mo in before_moments],
                          "placement-documented", "C05:transform_qubits-structure", "", history=h.log[-8:])
                check_wellformed(ctx, h, c2, "transform_qubits")
                c3 = c2.transform_qubits(inv)
                ctx.check(list(c3.moments) == before_moments and list(c.moments) == before_moments, "placement-documented", "C05:transform_qubits-roundtrip", "", history=h.log[-8:])
            elif kind == 20:  # copies and views, then keep editing one of them
                r = int(rng.integers(4))
                if r == 0:
                    c2 = c.copy()
                    h.log.append("c = c.copy()")
                elif r == 1:
                    f = c.freeze()
                    c2 = f.unfreeze(copy=True)
                    h.log.append("c = c.freeze().unfreeze()")
                elif r == 2:
                    c2 = c.with_tags("t%d" % int(rng.integers(3)))
                    h.log.append("c = c.with_tags(...)")
                else:
                    c2 = c[:]
                    h.log.append("c = c[:]")
                what = "copy-like"
                ctx.check(list(c2.moments) == before_moments, "placement-documented", "C05:copy-like-structure", "", history=h.log[-8:])
                old = c
                c = c2
                # mutating the copy must not affect the original
                o, i = h.new_op()
                c.append(o)
                ctx.check(list(old.moments) == before_moments, "placement-documented", "C05:copy-shares-state", "editing a copy changed the original", history=h.log[-8:])
                check_edit(ctx, h, "append-after-copy-like", before, positions(c), [i], [], L0, False)
            elif kind == 22:  # reflected add: operations (or a Moment) + circuit, right after the circuit answered its queries
                ops = [h.new_op() for _ in range(int(rng.integers(1, 4)))]
                check_queries(ctx, h, c, "before-radd")
                what = "radd"
                h.log.append("c = %s + c" % [i for _, i in ops])
                if rng.random() < 0.3:
                    left = cirq.Moment([ops[0][0]])
                    for _, i in ops[1:]:
                        del h.info[i]
                    ops = ops[:1]
                    head = [left]
                else:
                    left = [o for o, _ in ops]
                    head = list(cirq.Circuit(left).moments)
                c2 = left + c
                ctx.check(list(c2.moments) == head + before_moments and list(c.moments) == before_moments, "placement-documented", "C05:radd-structure",
                          "ops + circuit is not Circuit(ops) followed by the circuit's moments (or changed the circuit)", history=h.log[-8:])
                c = c2
                check_queries(ctx, h, c, "after-radd")
            elif kind == 21 and L0 > 0:  # insert_at_frontier
                ops = [h.new_op() for _ in range(int(rng.integers(1, 4)))]
                start = int(rng.integers(0, L0 + 1))
                what = "insert_at_frontier"
                h.log.append("insert_at_frontier(%s, %d)" % ([i for _, i in ops], start))
                c.insert_at_frontier([o for o, _ in ops], start)
                ids = [i for _, i in ops]
                after = positions(c)
                check_edit(ctx, h, what, before, after, ids, [], None, True, qubit_conflicts_only=True)
                pa = dict((i, mi) for mi, i in after)
                ctx.check(all(pa[i] >= start for i in ids), "placement-documented", "C05:insert_at_frontier-before-start", "an operation was placed before the start moment", history=h.log[-8:])
            elif kind in (24, 25, 26):  # append a whole Moment at the end, then keep appending loose ops (placement cache path)
                ops, used = [], set()
                for _ in range(int(rng.integers(1, 4))):
                    o, i = h.new_op()
                    if h.info[i][0] & used or any(h.conflict(i, j) for _, j in ops):
                        del h.info[i]
                        continue
                    used |= h.info[i][0]
                    ops.append((o, i))
                what = "append-moment"
                h.log.append("append(Moment%s)" % [i for _, i in ops])
                if kind == 24:
                    c.append(cirq.Moment([o for o, _ in ops]))
                elif kind == 25:
                    c += cirq.Moment([o for o, _ in ops])
                else:
                    c.append([cirq.Moment([o for o, _ in ops])])
                after = positions(c)
                check_edit(ctx, h, what, before, after, [i for _, i in ops], [], L0, False)
                pa = dict((i, mi) for mi, i in after)
                ctx.check(all(pa[i] == L0 for _, i in ops) and len(c) == L0 + 1, "placement-documented", "C05:appended-moment-not-at-end", "", history=h.log[-8:])
                # follow up immediately with a loose op appended with the default strategy
                o2, i2 = h.new_op()
                h.log.append("append([%d])" % i2)
                b2 = positions(c)
                L1 = len(c)
                c.append(o2)
                a2 = positions(c)
                check_edit(ctx, h, "append-after-moment", b2, a2, [i2], [], L1, False)
                pa2 = dict((i, mi) for mi, i in a2)
                pb2 = dict((i, mi) for mi, i in b2)
                last = max([pb2[e] for e in pb2 if h.conflict(e, i2)], default=-1)
                ctx.check(pa2[i2] == last + 1, "placement-documented", "C05:EARLIEST-append-placement",
                          "appended operation %d landed in moment %d, earliest allowed is %d" % (i2, pa2[i2], last + 1), history=h.log[-8:])
            else:  # a frozen view taken earlier must not change under later mutation
                f = c.freeze()
                snap = list(f.moments)
                o, i = h.new_op()
                h.log.append("freeze(); append(%d)" % i)
                what = "freeze-then-append"
                c.append(o)
                ctx.check(list(f.moments) == snap, "placement-documented", "C05:frozen-view-mutated", "", history=h.log[-8:])
                check_edit(ctx, h, what, before, positions(c), [i], [], L0, False)
        except (ValueError, IndexError) as e:
            from vf.worker import _blame
            who, where = _blame(e)
            if who != "repo":
                raise
            # an undocumented failure of an in-domain edit
            ctx.check(False, "no-undocumented-exception", "C05:edit-raised:%s:%s" % (what, type(e).__name__), "%s: %s" % (type(e).__name__, e), history=h.log[-12:])
            ctx.check(list(c.moments) == before_moments, "all-or-nothing", "C05:failed-edit-changed-circuit", "", history=h.log[-8:])
            continue
        if what is None:
            continue
        h.edits += 1
        check_wellformed(ctx, h, c, what)
        if rng.random() < 0.5:
            check_queries(ctx, h, c, what)
    ids = [i for _, i in positions(c) if i is not None and i in h.info]
    nconf = sum(1 for x in range(len(ids)) for y in range(x + 1, len(ids)) if h.conflict(ids[x], ids[y]))
    ctx.distinct(tuple(h.log), nontrivial=h.edits >= 3 and nconf >= 2)
    ctx.sample({"qubits": h.n, "history": h.log[:14], "moments": len(c)})


SECTIONS = [
    ("history", sec_history, 9000, 200000, 1.0),
]
