"""C08 - gate algebra and predicates are sound with respect to matrices.

pow / inverse / controlled / phase_by results are compared with matrices the
reference model builds from the catalogue; yes/no predicates are checked in
the sound direction the property states (True => the matrix fact holds)."""
from __future__ import annotations

import itertools
import math

import numpy as np

from vf.refmodel import gates as G
from vf.refmodel import linalg as L
from vf.workloads import gatepool as GP

LEVEL = "exploration"
RULE = ("gates from every catalogue family x special/random parameters; powers {0,+-1,+-0.5,1/3,pi/7,2,-3,random}; control "
        "specifications over <=3 controls of dimension 2-3 (values, products of sums, sums of products, nested); ordered pairs "
        "of operations on <=3 qubits for the binary predicates; non-trivial = matrices involved differ from identity; "
        "distinct by (family, parameters, power/control spec/pair)")
ASSUMPTIONS = ["catalogue matrices and eigen-components are ground truth", "predicates are only checked in the direction True => matrix fact",
               "approx_eq(atol) => max entry difference <= 100*atol"]
MIN_EVAL = {"pow==eigen-definition": 800, "controlled==block-matrix": 400, "commutes=>matrices-commute": 300,
            "eq=>same-matrix-and-hash": 200, "trace_distance_bound>=exact": 300, "phase_by==Z-conjugation": 200}
MUST_REACH = [
    "cirq/ops/eigen_gate.py:EigenGate.__pow__",
    "cirq/ops/eigen_gate.py:EigenGate._value_equality_values_",
    "cirq/ops/eigen_gate.py:EigenGate._equal_up_to_global_phase_",
    "cirq/ops/common_gates.py:XPowGate.controlled",
    "cirq/ops/common_gates.py:CZPowGate.controlled",
    "cirq/ops/controlled_gate.py:ControlledGate.__init__",
    "cirq/ops/control_values.py:SumOfProducts.expand",
    "cirq/ops/raw_types.py:_operations_commutes_impl",
    "cirq/ops/common_gates.py:ZPowGate._commutes_on_qids_",
    "cirq/ops/common_gates.py:XPowGate._phase_by_",
]

POWERS = [0.0, 1.0, -1.0, 0.5, -0.5, 1 / 3, math.pi / 7, 2.0, -3.0]
_S = {}


def setup(ctx):
    _S["u"] = GP.build_specs() + GP.build_vendor_specs()
    _S["core"] = GP.build_specs()


def _pk(p):
    return tuple(round(x, 9) if isinstance(x, float) else (round(float(np.abs(x).sum()), 6) if isinstance(x, np.ndarray) else x) for x in p)


def _pick_power(rng):
    return float(POWERS[int(rng.integers(len(POWERS)))]) if rng.random() < 0.7 else float(rng.uniform(-3, 3))


def sec_pow(ctx, rng, case):
    import cirq

    specs = _S["u"]
    spec = specs[case % len(specs)]
    p = spec.sample(rng)
    g = spec.make(p)
    U = np.asarray(spec.ref(p), dtype=complex)
    D = U.shape[0]
    t = _pick_power(rng)
    wit = dict(family=spec.name, params=p, power=t)
    name = spec.name
    if spec.eigen:
        d = spec.shape[0] if "qudit" in spec.tags else None
        want = G.eigen_gate(spec.eigen, p[0] * t, p[1], d)
        r = cirq.pow(g, t, None)
        ok = r is not None and L.allclose(cirq.unitary(r), want, 1e-7)
        ctx.check(ok, "pow==eigen-definition", "C08:pow:" + name,
                  lambda: "unitary(g**t) deviates from sum_k exp(i pi e t (theta_k+s)) P_k by %s" % (L.maxdiff(cirq.unitary(r), want) if r is not None else None), **wit)
        # powers compose: (g**a)**b == g**(a b)
        b = _pick_power(rng)
        r2 = cirq.pow(r, b, None) if r is not None else None
        want2 = G.eigen_gate(spec.eigen, p[0] * t * b, p[1], d)
        ctx.check(r2 is not None and L.allclose(cirq.unitary(r2), want2, 1e-7), "pow==eigen-definition", "C08:pow-compose:" + name, "(g**a)**b != g**(ab)", b=b, **wit)
        # operation form
        qs = [cirq.LineQid(i, dimension=x) for i, x in enumerate(spec.shape)]
        ro = g.on(*qs) ** t
        ctx.check(L.allclose(cirq.unitary(ro), want, 1e-7), "pow==eigen-definition", "C08:pow-op:" + name, "", **wit)
    else:
        closed = None
        if name == "FSim":
            # FSimGate canonicalises its angles into (-pi, pi] at construction and documents g**t as scaling
            # the *stored* angles; any choice of representative gives a valid t-th power, so use the stored ones.
            closed = G.fsim(float(g.theta) * t, float(g.phi) * t)
        elif name == "PhasedXPow":
            closed = G.phased_xpow(p[0], p[1] * t, p[2])
        elif name == "PhasedISwapPow":
            closed = G.phased_iswap(p[0], p[1] * t)
        elif name in ("rx", "Rx"):
            closed = G.rx(p[0] * t)
        elif name in ("ry", "Ry"):
            closed = G.ry(p[0] * t)
        elif name in ("rz", "Rz"):
            closed = G.rz(p[0] * t)
        elif name == "ms":
            closed = G.ms(p[0] * t)
        elif name == "cphase":
            closed = G.cphase(p[0] * t)
        elif name == "givens":
            closed = G.givens(p[0] * t)
        elif name.startswith("PhaseGradient"):
            closed = G.phase_gradient(len(spec.shape), p[0] * t)
        elif name.startswith("Identity"):
            closed = U
        elif name.startswith("Diagonal") or name in ("TwoQubitDiagonal", "ThreeQubitDiagonal"):
            closed = G.diagonal([a * t for a in p])
        r = cirq.pow(g, t, None)
        if r is None:
            ctx.event("pow-not-implemented:" + name)
            if t == -1.0:
                inv = cirq.inverse(g, None)
                if inv is not None:
                    ctx.check(L.allclose(cirq.unitary(inv), U.conj().T, 1e-7), "inverse==adjoint", "C08:inverse:" + name, "", **wit)
        else:
            ur = cirq.unitary(r, None)
            if closed is not None:
                ctx.check(ur is not None and L.allclose(ur, closed, 1e-7), "pow==eigen-definition", "C08:pow-closed-form:" + name,
                          lambda: "unitary(g**t) deviates from the family's documented form at the scaled parameter by %s" % L.maxdiff(ur, closed), **wit)
            elif float(t).is_integer():
                want = np.linalg.matrix_power(U, int(t)) if t >= 0 else np.linalg.matrix_power(U.conj().T, int(-t))
                ctx.check(ur is not None and L.allclose(ur, want, 1e-6), "pow==eigen-definition", "C08:pow-integer:" + name, "", **wit)
            else:
                # real power of a general unitary: must be a t-th power consistent with some eigen-decomposition of U
                ok = ur is not None and L.is_unitary(ur, 1e-6) and L.allclose(ur @ U, U @ ur, 1e-6)
                ev_u = np.linalg.eigvals(U)
                if ok and abs(t) > 1e-9 and abs(1 / t) <= 8 and float(1 / t).is_integer():
                    ok = L.allclose(np.linalg.matrix_power(ur, int(round(1 / t))) if t > 0 else np.linalg.matrix_power(ur.conj().T, int(round(-1 / t))), U, 1e-5)
                ctx.check(ok, "pow==eigen-definition", "C08:pow-real-general:" + name, "g**t is not a unitary commuting with g / not a root", **wit)
    # inverse undoes
    inv = cirq.inverse(g, None)
    if inv is not None:
        ctx.check(L.allclose(cirq.unitary(inv) @ U, np.eye(D), 1e-7), "inverse==adjoint", "C08:inverse:" + name, "inverse(g) g != I", **wit)
    ctx.distinct((name, _pk(p), round(t, 9)), nontrivial=not L.allclose(U, np.eye(D), 1e-6) and abs(t) > 1e-9)
    ctx.sample({"family": name, "params": _pk(p), "power": t})


def _control_spec(rng, k):
    import cirq

    cdims = [int(rng.choice([2, 2, 2, 3])) for _ in range(k)]
    if rng.random() < 0.25:
        cdims[0] = int(rng.choice([4, 5, 6]))  # room for value sets that are not evenly spaced
    mode = int(rng.integers(4))
    if mode == 0:
        return cdims, None, [tuple([1] * k)]
    if mode == 1:
        cv = [int(rng.integers(d)) for d in cdims]
        return cdims, cv, [tuple(cv)]
    if mode == 2:
        cvarg = []
        for d in cdims:
            cvarg.append(tuple(sorted({int(x) for x in rng.integers(0, d, size=int(rng.integers(1, d + 1)))})))
        return cdims, cvarg, list(itertools.product(*cvarg))
    allp = list(itertools.product(*[range(d) for d in cdims]))
    sel = sorted({allp[int(i)] for i in rng.choice(len(allp), size=int(rng.integers(1, min(3, len(allp)) + 1)), replace=False)})
    return cdims, cirq.SumOfProducts(sel), sel


def sec_control(ctx, rng, case):
    import cirq

    specs = [s for s in _S["core"] if L.dim_of(s.shape) <= 8 and (s.shape or s.name == "GlobalPhase")]  # (a bare phase can be controlled too)
    spec = specs[case % len(specs)]
    p = spec.sample(rng)
    if rng.random() < 0.5 and spec.eigen:
        p = (float(rng.choice([1.0, 0.5, -1.0, 0.25, 2.0, 3.0])), float(rng.choice([0.0, 0.0, 0.5, -0.5])))
    g = spec.make(p)
    U = np.asarray(spec.ref(p), dtype=complex)
    k = int(rng.integers(1, 3))
    cdims, cvarg, allowed = _control_spec(rng, k)
    wit = dict(family=spec.name, params=p, control_dims=cdims, allowed=allowed)
    name = spec.name
    kw = {}
    if cvarg is not None:
        kw["control_values"] = cvarg
    if any(d != 2 for d in cdims):
        kw["control_qid_shape"] = tuple(cdims)
    cg = g.controlled(k, **kw) if rng.random() < 0.7 or "control_values" not in kw else g.controlled(**kw)
    want = L.controlled(U, cdims, allowed)
    uc = cirq.unitary(cg, None)
    ctx.check(uc is not None and L.allclose(uc, want, 1e-7), "controlled==block-matrix", "C08:controlled:" + name,
              lambda: "unitary(g.controlled(%s)) of type %s deviates from the block matrix by %s" % (kw, type(cg).__name__, L.maxdiff(uc, want) if uc is not None else None),
              result=repr(cg)[:200], **wit)
    ctx.check(tuple(cirq.qid_shape(cg)) == tuple(cdims) + tuple(spec.shape), "controlled-shape", "C08:controlled-shape:" + name, "%r" % (cirq.qid_shape(cg),), **wit)
    # nested control == flattened control
    k2 = 1
    cd2, cv2, al2 = _control_spec(rng, k2)
    kw2 = {}
    if cv2 is not None:
        kw2["control_values"] = cv2
    if any(d != 2 for d in cd2):
        kw2["control_qid_shape"] = tuple(cd2)
    try:
        cg2 = cg.controlled(k2, **kw2)
    except ValueError as e:
        ctx.reject("nested-control:" + str(e)[:40])
        cg2 = None
    if cg2 is not None and L.dim_of(cd2) * want.shape[0] <= 64:
        want2 = L.controlled(want, cd2, al2)
        u2 = cirq.unitary(cg2, None)
        ctx.check(u2 is not None and L.allclose(u2, want2, 1e-7), "controlled==block-matrix", "C08:controlled-nested:" + name,
                  "nested control deviates", outer_dims=cd2, outer_allowed=al2, result=repr(cg2)[:200], **wit)
    # operation form: controlled_by puts controls first
    tq = [cirq.LineQid(i, dimension=d) for i, d in enumerate(spec.shape)]
    cq = [cirq.LineQid(10 + i, dimension=d) for i, d in enumerate(cdims)]
    cop = g.on(*tq).controlled_by(*cq, **({"control_values": cvarg} if cvarg is not None else {}))
    ok = list(cop.qubits) == cq + tq and L.allclose(cirq.unitary(cop), want, 1e-7)
    ctx.check(ok, "controlled==block-matrix", "C08:controlled_by:" + name, "", **wit)
    # the same block matrix through the operation's action on a state (a separate implementation from its matrix)
    if want.shape[0] <= 256:
        psi = L.random_state(rng, want.shape[0])
        for what, o in (("controlled_by", cop), ("ControlledGate", cg.on(*(cq + tq)) if cirq.num_qubits(cg) == len(cq) + len(tq) else None)):
            if o is None:
                continue
            got = cirq.Circuit(o).final_state_vector(initial_state=psi.astype(np.complex128), qubit_order=cq + tq, dtype=np.complex128)
            ctx.check(L.allclose(got, want @ psi, 1e-7), "controlled-action==block-matrix", "C08:controlled-action:" + name,
                      lambda: "%s applied to a state deviates from the block matrix by %.3g" % (what, L.maxdiff(got, want @ psi)), via=what, **wit)
    # equality between controlled forms of one sub-operation on the same controls: equal only if they fire on the same
    # control states (a second value set is drawn with the same per-control value multisets, differently paired)
    if k == 2:
        allp = list(itertools.product(*[range(d) for d in cdims]))
        nt = int(rng.integers(1, min(3, len(allp)) + 1))
        A_ = sorted({allp[int(i)] for i in rng.choice(len(allp), size=nt, replace=False)})
        col = [t[1] for t in A_]
        B_ = sorted({(t[0], col[int(j)]) for t, j in zip(A_, rng.permutation(len(A_)))}) if rng.random() < 0.7 else \
            sorted({allp[int(i)] for i in rng.choice(len(allp), size=nt, replace=False)})
        sub = g.on(*tq)
        for form in ("ControlledOperation", "controlled_by", "controls-reversed"):
            if form == "ControlledOperation":
                o1 = cirq.ControlledOperation(cq, sub, control_values=cirq.SumOfProducts(A_))
                o2 = cirq.ControlledOperation(cq, sub, control_values=cirq.SumOfProducts(B_))
            elif form == "controlled_by":
                o1 = sub.controlled_by(*cq, control_values=cirq.SumOfProducts(A_))
                o2 = sub.controlled_by(*cq, control_values=cirq.SumOfProducts(B_))
            else:
                o1 = cirq.ControlledOperation(cq, sub, control_values=cirq.SumOfProducts(A_))
                o2 = cirq.ControlledOperation(cq[::-1], sub, control_values=cirq.SumOfProducts([t[::-1] for t in B_]))
            same_m = L.allclose(L.controlled(U, cdims, A_), L.controlled(U, cdims, B_), 1e-9)
            w3 = dict(wit, form=form, values_a=A_, values_b=B_)
            if o1 == o2:
                ctx.check(same_m and hash(o1) == hash(o2), "eq=>same-matrix-and-hash", "C08:eq-unsound:controlled-values",
                          "controlled operations compare equal although they fire on different control states (or hash differently)", **w3)
            else:
                ctx.event("controlled-eq-false" + (":same-matrix" if same_m else ""))
            if cirq.approx_eq(o1, o2, atol=1e-8) or cirq.equal_up_to_global_phase(o1, o2, atol=1e-8):
                ctx.check(L.phase_diff(L.controlled(U, cdims, A_), L.controlled(U, cdims, B_)) <= 1e-6 + _ISCLOSE_RTOL, "approx_eq=>close-matrices",
                          "C08:approx-eq-unsound:controlled-values", "approximately equal controlled operations with different matrices", **w3)
    # control-values algebra: expand() enumerates exactly the allowed tuples; validate accepts matching shapes
    cvobj = cg.control_values if isinstance(cg, cirq.ControlledGate) and cg.num_controls() == k else None
    if cvobj is not None:
        ctx.check(sorted(cvobj.expand()) == sorted(set(allowed)), "control-values-expand", "C08:control-values-expand", "%r vs %r" % (sorted(cvobj.expand()), sorted(allowed)), **wit)
    ctx.distinct((name, _pk(p), tuple(cdims), tuple(sorted(allowed))), nontrivial=not L.allclose(U, np.eye(U.shape[0]), 1e-6))
    ctx.sample({"family": name, "params": _pk(p), "control_dims": cdims, "allowed": allowed[:4], "type": type(cg).__name__})


def sec_phase_by(ctx, rng, case):
    import cirq

    specs = [s for s in _S["core"] if s.shape and all(d == 2 for d in s.shape) and len(s.shape) <= 3]
    spec = specs[case % len(specs)]
    p = spec.sample(rng)
    g = spec.make(p)
    U = np.asarray(spec.ref(p), dtype=complex)
    n = len(spec.shape)
    i = int(rng.integers(n))
    t = float(rng.choice([0.25, 0.5, -0.25, 0.125, 1.0, 0.0])) if rng.random() < 0.6 else float(rng.uniform(-1, 1))
    r = cirq.phase_by(g, t, i, None)
    wit = dict(family=spec.name, params=p, turns=t, qubit=i)
    if r is None:
        ctx.event("phase_by-unsupported:" + spec.name)
        return
    Zt = np.diag([1, np.exp(2j * math.pi * t)])
    Zf = L.embed(Zt, [i], spec.shape)
    want = Zf @ U @ Zf.conj().T
    ur = cirq.unitary(r, None)
    ctx.check(ur is not None and L.phase_equal(ur, want, 1e-7), "phase_by==Z-conjugation", "C08:phase-by:" + spec.name,
              lambda: "phase_by deviates from Z^(2t) U Z^(-2t) (up to global phase) by %s" % (L.phase_diff(ur, want) if ur is not None else None), **wit)
    ctx.distinct((spec.name, _pk(p), round(t, 9), i), nontrivial=not L.allclose(want, U, 1e-6))
    ctx.sample(wit)


# equal_up_to_global_phase documents its atol as "the minimum absolute tolerance, see np.isclose()": the comparison of
# matrices is np.isclose-style with numpy's default rtol=1e-5 on top, so entries of magnitude <= 1 may differ by atol + 1e-5.
_ISCLOSE_RTOL = 1.5e-5


def _op_pool(rng, cirq, nq=3):
    """random operation on a subset of nq qubits, with its catalogue matrix on those qubits"""
    specs = [s for s in _S["core"] if s.shape and all(d == 2 for d in s.shape) and len(s.shape) <= 2 and "matrix" not in s.tags]
    spec = specs[int(rng.integers(len(specs)))]
    p = spec.sample(rng)
    if spec.eigen and rng.random() < 0.6:
        p = (float(rng.choice([1.0, 0.5, -0.5, 2.0, 0.25, 1.5, 0.0, 3.0, -1.0])), float(rng.choice([0.0, 0.0, -0.5, 0.5])))
    wires = [int(x) for x in rng.choice(nq, size=len(spec.shape), replace=False)]
    return spec, p, wires


def sec_predicates(ctx, rng, case):
    import cirq

    nq = 3
    qs = cirq.LineQubit.range(nq)
    s1, p1, w1 = _op_pool(rng, cirq)
    s2, p2, w2 = _op_pool(rng, cirq)
    if rng.random() < 0.25:
        s2, w2 = s1, list(w1)
        p2 = tuple(p1)
        if len(w1) >= 2 and rng.random() < 0.5:
            # the same gate on exchanged qubits: equal only if the gate really is symmetric under that exchange
            w2 = [w1[i] for i in rng.permutation(len(w1))]
        elif s1.eigen and rng.random() < 0.7:
            r = rng.random()
            if r < 0.4:
                p2 = (p1[0] + 2 * int(rng.integers(-2, 3)), p1[1])
            elif r < 0.7:
                p2 = (p1[0] + float(rng.choice([1e-9, 1e-4, 1e-2])), p1[1])
            else:
                p2 = (p1[0], p1[1] + float(rng.choice([0.5, 1.0, 2.0, 1e-9])))
    if rng.random() < 0.2:
        # nearly commuting pairs: one float parameter made tiny, so that the commutator lands near the tolerances asked for
        which = int(rng.integers(2))
        pp = list(p1 if which == 0 else p2)
        idx = [i for i, v in enumerate(pp) if isinstance(v, float)]
        if idx:
            i = idx[int(rng.integers(len(idx)))]
            pp[i] = float(rng.choice([-1, 1])) * float(10 ** rng.uniform(-8.5, -1.5))
            if which == 0:
                p1 = tuple(pp)
            else:
                p2 = tuple(pp)
    a = s1.make(p1).on(*[qs[w] for w in w1])
    b = s2.make(p2).on(*[qs[w] for w in w2])
    A = L.embed(s1.ref(p1), w1, (2,) * nq)
    B = L.embed(s2.ref(p2), w2, (2,) * nq)
    wit = dict(a=(s1.name, p1, w1), b=(s2.name, p2, w2))
    # "all tolerances": atol is documented as the bound on every entry of AB - BA
    t = float(rng.choice([1e-8, 1e-8, 1e-7, 1e-6, 1e-5, 1e-4, 1e-3]))
    ct = cirq.commutes(a, b, atol=t, default=None)
    dcomm = L.maxdiff(A @ B, B @ A)
    if ct is True:
        ctx.check(dcomm <= 1.05 * t + 1e-10, "commutes(atol)=>commutator<=atol", "C08:commutes-atol",
                  "cirq.commutes(atol=%g) says True but max|AB-BA| = %.3g" % (t, dcomm), **wit)
    ctx.event("commutes-atol:" + ("near" if t / 30 < dcomm < t * 3000 else "far") + (":true" if ct is True else ":nottrue"))
    comm_exact = L.allclose(A @ B, B @ A, 1e-6)
    c = cirq.commutes(a, b, default=None)
    if c is True:
        ctx.check(comm_exact, "commutes=>matrices-commute", "C08:commutes-unsound", "cirq.commutes says True but ||AB-BA|| = %.3g" % L.maxdiff(A @ B, B @ A), **wit)
    elif c is False:
        ctx.check(not L.allclose(A @ B, B @ A, 1e-9), "commutes-false=>do-not-commute", "C08:commutes-false-unsound", "cirq.commutes says False but the matrices commute exactly", **wit)
    else:
        ctx.event("commutes-indeterminate")
    if cirq.definitely_commutes(a, b):
        ctx.check(comm_exact, "commutes=>matrices-commute", "C08:definitely-commutes-unsound", "", **wit)
    ctx.event("commutes-conservative" if (comm_exact and c is not True) else "commutes-decided")
    # equality / hash (the matrices are embedded by wire, so any two operations on the same wire set are comparable)
    if sorted(w1) == sorted(w2):
        same = L.allclose(A, B, 1e-8)
        if a == b:
            ctx.check(same and hash(a) == hash(b), "eq=>same-matrix-and-hash", "C08:eq-unsound",
                      "a == b but matrices differ by %.3g or hashes differ" % L.maxdiff(A, B), **wit)
            ctx.check(a.gate == b.gate and hash(a.gate) == hash(b.gate), "eq=>same-matrix-and-hash", "C08:eq-gate-vs-op", "", **wit)
        else:
            ctx.event("eq-false")
        for atol in (1e-8, 1e-3, 0.1):
            if cirq.approx_eq(a, b, atol=atol):
                ctx.check(L.maxdiff(A, B) <= 100 * atol + 1e-9, "approx_eq=>close-matrices", "C08:approx-eq-unsound",
                          "approx_eq(atol=%g) but matrices differ by %.3g" % (atol, L.maxdiff(A, B)), atol=atol, **wit)
        for atol in (1e-8, 1e-3):
            if cirq.equal_up_to_global_phase(a, b, atol=atol):
                ctx.check(L.phase_diff(A, B) <= 100 * atol + _ISCLOSE_RTOL, "equal_up_to_global_phase=>phase-equal", "C08:eq-up-to-phase-unsound",
                          "equal_up_to_global_phase(atol=%g) but matrices differ up to phase by %.3g" % (atol, L.phase_diff(A, B)), atol=atol, **wit)
            if w1 == w2 and cirq.equal_up_to_global_phase(a.gate, b.gate, atol=atol):
                ctx.check(L.phase_diff(A, B) <= 100 * atol + _ISCLOSE_RTOL, "equal_up_to_global_phase=>phase-equal", "C08:eq-up-to-phase-unsound-gate", "", atol=atol, **wit)
    # the predicates are questions, not edits: both operations still have their catalogue matrices afterwards
    for nm, o, sp, pp in (("a", a, s1, p1), ("b", b, s2, p2)):
        uo = cirq.unitary(o.gate, None)
        ctx.check(uo is not None and L.allclose(uo, sp.ref(pp), 1e-7), "predicates-read-only", "C08:operand-changed-by-predicate:" + sp.name,
                  "after the predicate calls operand %s reports another matrix than before" % nm, **wit)
    ctx.distinct((s1.name, _pk(p1), tuple(w1), s2.name, _pk(p2), tuple(w2)), nontrivial=not (L.allclose(A, np.eye(8), 1e-6) or L.allclose(B, np.eye(8), 1e-6)))
    ctx.sample({"a": (s1.name, _pk(p1), w1), "b": (s2.name, _pk(p2), w2), "commutes": str(c)})


def _is_clifford(U, n):
    paulis = [G.I2, G.X, G.Y, G.Z]
    for q in range(n):
        for Pm in (G.X, G.Z):
            P = L.embed(Pm, [q], (2,) * n)
            C = U @ P @ U.conj().T
            # C must be +-(pauli string) or +-i... for a unitary conjugation of a Hermitian Pauli it is +- a Pauli string
            found = False
            for idx in itertools.product(range(4), repeat=n):
                S = L.kron(*[paulis[i] for i in idx])
                tr = np.trace(S.conj().T @ C) / (2 ** n)
                if abs(abs(tr) - 1) < 1e-6:
                    found = abs(tr.imag) < 1e-6
                    break
            if not found:
                return False
    return True


def sec_unary(ctx, rng, case):
    import cirq

    specs = [s for s in _S["u"] if s.shape and all(d == 2 for d in s.shape) and len(s.shape) <= 3]
    spec = specs[case % len(specs)]
    p = spec.sample(rng)
    if spec.eigen and rng.random() < 0.6:
        p = (float(rng.choice([1.0, 0.5, -0.5, 2.0, 0.25, 1.5, 0.0, 3.0, -1.0, 1 / 3])), float(rng.choice([0.0, 0.0, -0.5, 0.5, 0.25])))
    g = spec.make(p)
    U = np.asarray(spec.ref(p), dtype=complex)
    n = len(spec.shape)
    wit = dict(family=spec.name, params=p)
    name = spec.name
    if cirq.has_stabilizer_effect(g):
        ctx.check(_is_clifford(U, n), "stabilizer_effect=>clifford", "C08:stabilizer-effect-unsound:" + name, "has_stabilizer_effect True but U does not map Paulis to Paulis", **wit)
    else:
        ctx.event("stabilizer-effect-false" + ("-conservative" if _is_clifford(U, n) else ""))
    ev = np.linalg.eigvals(U)
    ang = np.sort(np.angle(ev))
    gaps = np.diff(np.concatenate([ang, [ang[0] + 2 * math.pi]]))
    arc = 2 * math.pi - gaps.max()
    exact = 1.0 if arc >= math.pi - 1e-12 else math.sin(arc / 2)
    tb = cirq.trace_distance_bound(g)
    ctx.check(tb >= exact - 1e-7, "trace_distance_bound>=exact", "C08:trace-distance-bound:" + name,
              "trace_distance_bound = %.6g < exact maximum trace distance %.6g" % (tb, exact), **wit)
    qs = cirq.LineQubit.range(n)
    tbo = cirq.trace_distance_bound(g.on(*qs))
    ctx.check(tbo >= exact - 1e-7, "trace_distance_bound>=exact", "C08:trace-distance-bound-op:" + name, "", **wit)
    # the same through wrappers: a controlled gate / operation also has the eigenvalue 1 of the inactive control subspace, so a
    # global phase of the target becomes a relative one
    if n <= 2:
        cv = int(rng.integers(2))
        Uc = L.controlled(U, (2,), [(cv,)])
        ang_c = np.sort(np.angle(np.linalg.eigvals(Uc)))
        gaps_c = np.diff(np.concatenate([ang_c, [ang_c[0] + 2 * math.pi]]))
        arc_c = 2 * math.pi - gaps_c.max()
        exact_c = 1.0 if arc_c >= math.pi - 1e-12 else math.sin(arc_c / 2)
        qc = cirq.LineQubit(n)
        forms = [("controlled-gate", lambda: cirq.ControlledGate(g, control_values=[cv])),
                 ("controlled-gate.on", lambda: cirq.ControlledGate(g, control_values=[cv]).on(qc, *qs)),
                 ("op.controlled_by", lambda: g.on(*qs).controlled_by(qc, control_values=[cv])),
                 ("tagged(op.controlled_by)", lambda: g.on(*qs).controlled_by(qc, control_values=[cv]).with_tags("t"))]
        fname, mk = forms[int(rng.integers(len(forms)))]
        tbc = cirq.trace_distance_bound(mk())
        ctx.check(tbc >= exact_c - 1e-7, "trace_distance_bound>=exact", "C08:trace-distance-bound:%s" % fname,
                  "trace_distance_bound(%s of %s) = %.6g < exact maximum trace distance %.6g" % (fname, name, tbc, exact_c), control_value=cv, **wit)
    pe = cirq.pauli_expansion(g, default=None)
    if pe is not None:
        M = np.zeros_like(U)
        for k, c in pe.items():
            M = M + complex(c) * L.kron(*[G.PAULI[ch] for ch in k])
        ctx.check(L.allclose(M, U, 1e-7), "pauli_expansion==matrix", "C08:pauli-expansion:" + name, "pauli expansion re-sums to a matrix %.3g away" % L.maxdiff(M, U), **wit)
    ctx.distinct((name, _pk(p)), nontrivial=not L.allclose(U, np.eye(U.shape[0]), 1e-6))
    ctx.sample({"family": name, "params": _pk(p), "trace_distance_bound": float(tb), "exact": exact})


def sec_linalg_predicates(ctx, rng, case):
    """cirq.linalg predicates never say True for a matrix that lacks the property (margin 10x)"""
    import cirq

    d = int(rng.choice([2, 3, 4, 8]))
    kind = int(rng.integers(6))
    U = L.haar_unitary(rng, d)
    eps = float(rng.choice([0.0, 1e-12, 1e-3, 0.05]))
    pert = eps * (rng.standard_normal((d, d)) + 1j * rng.standard_normal((d, d)))
    atol = 1e-8
    M = U + pert
    far = eps >= 1e-3
    near = eps <= 1e-12
    name = ["is_unitary", "is_hermitian", "is_diagonal", "is_special_unitary", "is_orthogonal", "is_normal"][kind]
    if kind == 0:
        r, truth = cirq.is_unitary(M, atol=atol), None
        dev = L.maxdiff(M @ M.conj().T, np.eye(d))
    elif kind == 1:
        H = U + U.conj().T
        M = H + pert
        r = cirq.is_hermitian(M, atol=atol)
        dev = L.maxdiff(M, M.conj().T)
    elif kind == 2:
        M = np.diag(np.diag(U)) + pert * (1 - np.eye(d))
        r = cirq.is_diagonal(M, atol=atol)
        dev = np.abs(M - np.diag(np.diag(M))).max()
    elif kind == 3:
        S = U / np.linalg.det(U) ** (1 / d)
        M = S + pert
        r = cirq.is_special_unitary(M, atol=atol)
        dev = max(L.maxdiff(M @ M.conj().T, np.eye(d)), abs(np.linalg.det(M) - 1))
    elif kind == 4:
        Q, _ = np.linalg.qr(rng.standard_normal((d, d)))
        M = Q + pert.real
        r = cirq.is_orthogonal(M, atol=atol)
        dev = L.maxdiff(M @ M.T, np.eye(d))
    else:
        r = cirq.is_normal(M, atol=atol)
        dev = L.maxdiff(M @ M.conj().T, M.conj().T @ M)
    if r:
        ctx.check(dev <= 1e-5, "linalg-predicate-sound", "C08:linalg-predicate:" + name, "%s True but deviation %.3g" % (name, dev), eps=eps)
    else:
        ctx.check(dev > 1e-10, "linalg-predicate-complete-on-exact", "C08:linalg-predicate-false:" + name, "%s False on an exact instance (deviation %.3g)" % (name, dev), eps=eps)
    ctx.distinct((name, d, eps, round(float(abs(U[0, 0])), 6)))


def sec_interchange(ctx, rng, case):
    """the same multi-qubit gate on exchanged qubits: every equality-type predicate that says 'same' must be backed by the
    matrices (qubit interchangeability is decided per gate from its parameters - exactly at special parameter values)"""
    import cirq

    specs = [s for s in _S["core"] if len(s.shape) >= 2 and all(d == 2 for d in s.shape) and len(s.shape) <= 3 and "matrix" not in s.tags]
    spec = specs[case % len(specs)]
    p = spec.sample(rng)
    # push parameters onto the lattice points where symmetry conditions switch on
    mode = int(rng.integers(4))
    if mode:
        unit = (math.pi / 2) if mode in (1, 2) else 0.5
        p = tuple((round(x / unit) * unit if isinstance(x, float) and rng.random() < 0.6 else x) for x in p)
    n = len(spec.shape)
    qs = cirq.LineQubit.range(n)
    perm = [int(i) for i in rng.permutation(n)]
    if perm == list(range(n)):
        perm = perm[1:] + perm[:1]
    try:
        gate = spec.make(p)
    except ValueError:
        ctx.reject("constructor")
        return
    a = gate.on(*qs)
    b = gate.on(*[qs[i] for i in perm])
    U = np.asarray(spec.ref(p))
    A = L.embed(U, list(range(n)), (2,) * n)
    B = L.embed(U, perm, (2,) * n)
    wit = dict(spec=spec.name, params=p, perm=perm)
    same = L.allclose(A, B, 1e-8)
    if a == b:
        ctx.check(same, "eq=>same-matrix-and-hash", "C08:eq-unsound:exchanged-qubits",
                  "gate.on(q...) == gate.on(permuted q...) but the matrices differ by %.3g" % L.maxdiff(A, B), **wit)
        ctx.check(hash(a) == hash(b), "eq=>same-matrix-and-hash", "C08:eq-hash:exchanged-qubits", "equal operations with different hashes", **wit)
    else:
        ctx.event("exchange-not-equal")
    for atol in (1e-8, 1e-3):
        if cirq.approx_eq(a, b, atol=atol):
            ctx.check(L.maxdiff(A, B) <= 100 * atol + 1e-9, "approx_eq=>close-matrices", "C08:approx-eq-unsound:exchanged-qubits",
                      "approx_eq(atol=%g) but matrices differ by %.3g" % (atol, L.maxdiff(A, B)), atol=atol, **wit)
        if cirq.equal_up_to_global_phase(a, b, atol=atol):
            ctx.check(L.phase_diff(A, B) <= 100 * atol + _ISCLOSE_RTOL, "equal_up_to_global_phase=>phase-equal", "C08:eq-up-to-phase-unsound:exchanged-qubits",
                      "equal_up_to_global_phase(atol=%g) but matrices differ up to phase by %.3g" % (atol, L.phase_diff(A, B)), atol=atol, **wit)
    # a circuit-level consequence: two circuits that compare equal have the same matrix
    ca, cb = cirq.Circuit(a), cirq.Circuit(b)
    if ca == cb:
        ctx.check(same, "eq=>same-matrix-and-hash", "C08:eq-unsound:exchanged-qubits", "circuits equal, matrices differ", **wit)
    ctx.distinct((spec.name, _pk(p), tuple(perm)), nontrivial=not same)
    ctx.sample({"spec": spec.name, "params": _pk(p), "perm": perm, "eq": bool(a == b), "matrices_same": bool(same)})


def sec_clifford_pow(ctx, rng, case):
    """cirq.SingleQubitCliffordGate / cirq.CliffordGate: integer powers are matrix powers (up to phase: tableaus carry none),
    inverse undoes, powers add"""
    import cirq
    from vf.refmodel import pauli as RP

    if "c1" not in _S:
        _S["c1"] = RP.single_qubit_cliffords()
    if case % 3 and "c2" not in _S:
        _S["c2"] = RP.two_qubit_cliffords()
    if case % 3 == 0:
        word, U = _S["c1"][int(rng.integers(24))]
        g = cirq.SingleQubitCliffordGate.from_unitary(U)
        kind = "single"
    else:
        word, U = _S["c2"][int(rng.integers(len(_S["c2"])))]
        q = cirq.LineQubit.range(2)
        ops_ = [cirq.H(q[w[1]]) if w[0] == "H" else (cirq.S(q[w[1]]) if w[0] == "S" else cirq.CZ(q[0], q[1])) for w in word]
        g = cirq.CliffordGate.from_op_list(ops_, q)
        kind = "two-qubit"
    if g is None:
        ctx.reject("from_unitary-none")
        return
    wit = dict(kind=kind, word=[list(w) for w in word][:30])
    es = [int(x) for x in rng.choice(np.arange(-30, 31), size=6, replace=False)]
    mp = lambda e: np.linalg.matrix_power(U if e >= 0 else U.conj().T, abs(e))  # noqa
    for e in es:
        ge = g ** e
        ctx.check(L.phase_equal(cirq.unitary(ge), mp(e), 1e-7), "pow==eigen-definition", "C08:clifford-gate-integer-power",
                  "unitary(g**%d) is not the %d-th matrix power of unitary(g) (up to phase)" % (e, e), exponent=e, **wit)
        ctx.check(L.phase_equal(cirq.unitary(ge) @ cirq.unitary(g ** -e), np.eye(U.shape[0]), 1e-7), "pow==eigen-definition", "C08:clifford-gate-inverse-undoes",
                  "g**%d followed by g**%d is not the identity" % (e, -e), exponent=e, **wit)
    a, b = es[0], es[1]
    ctx.check(L.phase_equal(cirq.unitary(g ** a) @ cirq.unitary(g ** b), cirq.unitary(g ** (a + b)), 1e-7), "pow==eigen-definition",
              "C08:clifford-gate-powers-add", "g**%d g**%d != g**%d" % (a, b, a + b), a=a, b=b, **wit)
    ctx.distinct(("clifford-pow", kind, tuple(map(tuple, word))[:40], tuple(es)), nontrivial=not L.phase_equal(U, np.eye(U.shape[0]), 1e-7))


SECTIONS = [
    ("pow", sec_pow, 4000, 90000, 2.0),
    ("control", sec_control, 1500, 40000, 2.0),
    ("phase_by", sec_phase_by, 1200, 30000, 1.0),
    ("predicates", sec_predicates, 3000, 80000, 2.0),
    ("unary", sec_unary, 2500, 60000, 2.0),
    ("interchange", sec_interchange, 2500, 60000, 1.0),
    ("clifford_pow", sec_clifford_pow, 600, 12000, 1.0),
    ("linalg_predicates", sec_linalg_predicates, 600, 10000, 0.3),
]
