"""Parent process of every check: environment, deps, shards, merge, verdict.

Never imports cirq itself.  Workers (vf.worker) are started with
subprocess + timeout (never multiprocessing.Pool, which hangs when a child
dies) and each writes one JSON file that is merged here.

Exit codes: 0 held on what was observed, 1 violation (prints
`VIOLATION property=<id> replay=<path>`), 2 inconclusive (prints
`INCONCLUSIVE property=<id> reason=...`).
"""
from __future__ import annotations

import fcntl
import hashlib
import json
import os
import shutil
import subprocess
import sys
import time

VERIF = os.path.dirname(os.path.dirname(os.path.abspath(__file__)))
REPO = os.path.abspath(os.environ.get("VERIF_REPO", "/repo"))
PKGS = ["cirq-core", "cirq-google", "cirq-ionq", "cirq-aqt", "cirq-pasqal"]
DEPS = os.path.join(VERIF, ".deps")
WHEELS = "/opt/veriftools/wheels"
PY = os.environ.get("VERIF_PYTHON", "/venv/bin/python")
ALL_IDS = ["C%02d" % i for i in range(1, 21)]

# default per-shard workload budgets (seconds); import time comes on top
BUDGET = {"quick": 55.0, "thorough": 600.0}
NSHARDS = {"quick": 14, "thorough": 16}


def ensure_deps(verbose=False):
    """Install icontract + deal from the offline wheelhouse into .deps (idempotent)."""
    os.makedirs(DEPS, exist_ok=True)
    marker = os.path.join(DEPS, ".ok")
    if os.path.exists(marker):
        return True
    lock = open(os.path.join(DEPS, ".lock"), "w")
    fcntl.flock(lock, fcntl.LOCK_EX)
    try:
        if os.path.exists(marker):
            return True
        cmd = [PY, "-m", "pip", "install", "--quiet", "--no-index", "--find-links", WHEELS,
               "--target", DEPS, "icontract", "deal"]
        r = subprocess.run(cmd, capture_output=True, text=True, timeout=600)
        if r.returncode != 0:
            if verbose:
                sys.stderr.write(r.stdout + r.stderr)
            return False
        open(marker, "w").write("ok\n")
        if verbose:
            print("deps installed into", DEPS)
        return True
    finally:
        fcntl.flock(lock, fcntl.LOCK_UN)
        lock.close()


def worker_env(scratch, hashseed):
    env = dict(os.environ)
    paths = [VERIF, DEPS] + [os.path.join(REPO, p) for p in PKGS]
    env["PYTHONPATH"] = os.pathsep.join(paths)
    env["PYTHONDONTWRITEBYTECODE"] = "1"
    env["PYTHONPYCACHEPREFIX"] = os.path.join(scratch, "pyc")
    env["PYTHONHASHSEED"] = str(hashseed)
    env["VERIF_REPO"] = REPO
    env["CIRQ_VERIF"] = "1"  # reserved guard (no hooks in the repository use it)
    env["OMP_NUM_THREADS"] = "1"
    env["OPENBLAS_NUM_THREADS"] = "1"
    env["MKL_NUM_THREADS"] = "1"
    env["TF_CPP_MIN_LOG_LEVEL"] = "3"
    env["PYTHONWARNINGS"] = "ignore"
    return env


def load_known():
    path = os.path.join(VERIF, "known_findings.json")
    try:
        doc = json.load(open(path))
    except FileNotFoundError:
        return {}
    return {e["key"]: e for e in doc.get("known", [])}


def _validate_evidence(ev):
    try:
        import jsonschema  # present in /venv? optional
    except Exception:
        return
    try:
        schema = json.load(open("/root/.vp/EVIDENCE.schema.json"))
        jsonschema.validate(ev, schema)
    except FileNotFoundError:
        pass


def main(argv=None):
    argv = list(sys.argv[1:] if argv is None else argv)
    if not argv:
        print("usage: check <ID> [quick|thorough] [--replay path]")
        return 2
    pid = argv.pop(0).upper()
    tier = os.environ.get("VERIF_TIER", "quick")
    replay = None
    while argv:
        a = argv.pop(0)
        if a in ("quick", "thorough"):
            tier = a
        elif a == "--replay":
            replay = argv.pop(0)
        else:
            print("unknown argument", a)
            return 2
    if pid not in ALL_IDS:
        print("unknown property", pid)
        return 2
    seed = int(os.environ.get("VERIF_SEED", "0") or 0)
    t0 = time.time()
    scratch = os.path.join(VERIF, ".scratch", "run-%s-%d" % (pid, os.getpid()))
    os.makedirs(scratch, exist_ok=True)
    try:
        return _run(pid, tier, seed, replay, scratch, t0)
    finally:
        shutil.rmtree(scratch, ignore_errors=True)


def _run(pid, tier, seed, replay, scratch, t0):
    if not ensure_deps():
        print("INCONCLUSIVE property=%s reason=deps-install-failed" % pid)
        return 2
    budget = float(os.environ.get("VERIF_BUDGET_S", BUDGET[tier]))
    nshards = int(os.environ.get("VERIF_SHARDS", NSHARDS[tier]))
    replay_hashseed = None
    if replay:
        nshards = 1
        try:
            rec = json.load(open(replay))
            tier = rec.get("tier", tier)  # a recorded case is re-run in the tier and hash seed it was found in
            if str(rec.get("hashseed", "")).isdigit():
                replay_hashseed = int(rec["hashseed"])
        except (OSError, ValueError):
            pass
    procs = []
    for s in range(nshards):
        out = os.path.join(scratch, "shard%d.json" % s)
        hashseed = 0 if tier == "quick" else (s % 4)
        if replay_hashseed is not None:
            hashseed = replay_hashseed
        cmd = [PY, "-B", "-X", "faulthandler", "-m", "vf.worker", pid, "--tier", tier, "--seed", str(seed),
               "--shard", str(s), "--nshards", str(nshards), "--budget", str(budget), "--out", out]
        if replay:
            cmd += ["--replay", os.path.abspath(replay)]
        log = open(os.path.join(scratch, "shard%d.log" % s), "w")
        p = subprocess.Popen(cmd, cwd=VERIF, env=worker_env(scratch, hashseed), stdout=log,
                             stderr=subprocess.STDOUT)
        procs.append((s, p, out, log))
    watchdog = budget * 3 + 240
    results, reasons = [], []
    for s, p, out, log in procs:
        left = max(1.0, t0 + watchdog - time.time())
        try:
            p.wait(timeout=left)
        except subprocess.TimeoutExpired:
            p.kill()
            p.wait()
            reasons.append("watchdog-shard-%d" % s)
        log.close()
        try:
            results.append(json.load(open(out)))
            if any(r.startswith("harness-error") for r in results[-1].get("inconclusive", [])) and s < 2:
                sys.stderr.write("---- shard %d harness errors ----\n%s\n" % (s, open(log.name).read()[-3000:]))
        except Exception:
            tail = open(log.name).read()[-1500:]
            reasons.append("shard-%d-no-result(rc=%s)" % (s, p.returncode))
            sys.stderr.write("---- shard %d log tail ----\n%s\n" % (s, tail))
    return _merge(pid, tier, seed, results, reasons, t0, replay)


def _merge(pid, tier, seed, results, reasons, t0, replay):
    known = load_known()
    evals, events, rejections, sections = {}, {}, {}, {}
    fps, samples, violations, reached = set(), [], [], set()
    trivial = 0
    level, rule, assumptions, min_eval, must_reach = "exploration", "", [], {}, []
    extra = {}
    for r in results:
        if not r.get("import_root_ok", False):
            reasons.append("wrong-import-root:%s" % r.get("cirq_file"))
        for k, v in r.get("evaluations", {}).items():
            evals[k] = evals.get(k, 0) + v
        for k, v in r.get("events", {}).items():
            events[k] = events.get(k, 0) + v
        for k, v in r.get("rejections", {}).items():
            rejections[k] = rejections.get(k, 0) + v
        for k, v in r.get("sections", {}).items():
            d = sections.setdefault(k, {"cases": 0, "planned": 0, "truncated": 0})
            d["cases"] += v["cases"]
            d["planned"] += v["planned"]
            d["truncated"] += int(v["truncated"])
        fps.update(r.get("fingerprints", []))
        trivial += r.get("trivial", 0)
        for s in r.get("samples", []):
            if len(samples) < 12:
                samples.append(s)
        violations.extend(r.get("violations", []))
        reached.update(r.get("reached", []))
        reasons.extend(r.get("inconclusive", []))
        meta = r.get("meta", {})
        level = meta.get("level", level)
        rule = meta.get("rule", rule)
        assumptions = meta.get("assumptions", assumptions)
        min_eval = meta.get("min_eval", min_eval)
        must_reach = meta.get("must_reach", must_reach)
        for k, v in r.get("extra", {}).items():
            if isinstance(v, bool):
                extra[k] = extra.get(k, True) and v
            elif isinstance(v, (int, float)):
                extra[k] = extra.get(k, 0) + v
            else:
                extra.setdefault(k, v)
    total_eval = sum(evals.values())
    if os.environ.get("VERIF_DUMP_REACHED"):
        open(os.environ["VERIF_DUMP_REACHED"], "w").write("\n".join(sorted(reached)))
    if not replay:
        for mon, need in min_eval.items():
            if evals.get(mon, 0) < need:
                reasons.append("monitor-%s-evaluated-%d<%d" % (mon, evals.get(mon, 0), need))
        missing = [m for m in must_reach if m not in reached]
        if missing:
            reasons.append("must-reach-not-reached:" + ",".join(missing[:6]))
        if total_eval == 0:
            reasons.append("no-oracle-evaluations")
        if len(fps) < 2 and total_eval > 0:
            reasons.append("fewer-than-2-distinct-nontrivial-cases")

    # classify violations
    unknown, known_hit = [], {}
    for v in violations:
        k = v.get("mech", "")
        if k in known and known[k].get("property") == pid:
            known_hit.setdefault(k, []).append(v)
        else:
            unknown.append(v)
    rdir = os.path.join(VERIF, "evidence", "replays" if REPO == "/repo" else "scratch-runs/replays", pid)
    printed = []
    seen_mech = {}
    for v in unknown:
        m = v.get("mech", "?")
        seen_mech[m] = seen_mech.get(m, 0) + 1
        if seen_mech[m] > 2 or len(printed) >= 12:
            continue
        os.makedirs(rdir, exist_ok=True)
        fp = hashlib.sha1(json.dumps(v, sort_keys=True, default=str).encode()).hexdigest()[:12]
        path = os.path.join(rdir, fp + ".json")
        json.dump(v, open(path, "w"), indent=1, default=str)
        printed.append((m, path, v.get("msg", "")))
    wall = time.time() - t0
    ev = {
        "property_id": pid,
        "tier": tier,
        "seed": seed,
        "level": level,
        "coverage": {
            "evaluations": int(total_eval),
            "distinct_nontrivial": int(len(fps)),
            "rule": rule,
            "samples": samples if samples else ["<none>"],
            "monitors": evals,
            "events": events,
            "sections": sections,
            "expected_rejections": rejections,
            "trivial_or_duplicate_cases": trivial,
            "repo_functions_reached": len(reached),
            "must_reach": {m: (m in reached) for m in must_reach},
            "known_findings_hit": {k: len(v) for k, v in known_hit.items()},
            "inconclusive_reasons": sorted(set(reasons)),
            "shards": len(results),
            "repo_root": REPO,
        },
        "assumptions": assumptions,
        "wall_s": round(wall, 2),
        "violations": len(unknown),
    }
    ev["coverage"].update(extra)
    if not replay:
        # runs against a scratch tree (seeded faults) must not overwrite the evidence of the real tree
        edir = os.path.join(VERIF, "evidence") if REPO == "/repo" else os.path.join(VERIF, "evidence", "scratch-runs")
        os.makedirs(edir, exist_ok=True)
        tmp = os.path.join(edir, ".%s.json.tmp" % pid)
        json.dump(ev, open(tmp, "w"), indent=1, default=str)
        os.replace(tmp, os.path.join(edir, "%s.json" % pid))
    print("%s %s seed=%d: %d oracle evaluations, %d distinct non-trivial cases, %d repo functions reached, %.1fs"
          % (pid, tier, seed, total_eval, len(fps), len(reached), wall))
    for k in sorted(evals):
        print("  monitor %-42s %d" % (k, evals[k]))
    for k, hits in sorted(known_hit.items()):
        print("KNOWN-FINDING: property=%s %s [%s; %d witnesses this run]" % (pid, known[k]["what"], k, len(hits)))
    for m, path, msg in printed:
        print("VIOLATION property=%s replay=%s mechanism=%s :: %s" % (pid, path, m, msg[:300]))
    if unknown:
        print("  (%d violating observations, %d distinct mechanisms)" % (len(unknown), len(seen_mech)))
        if reasons:
            print("  also inconclusive: %s" % ";".join(sorted(set(reasons)))[:600])
        return 1
    if reasons:
        print("INCONCLUSIVE property=%s reason=%s" % (pid, ";".join(sorted(set(reasons)))[:600]))
        return 2
    print("HELD property=%s on everything observed" % pid)
    return 0


if __name__ == "__main__":
    sys.exit(main())
