"""One shard of one check.  Imports Cirq from the working tree, attaches the
coverage observer, runs the property driver's sections over its share of the
cases and writes a JSON result for the launcher to merge."""
from __future__ import annotations

import argparse
import hashlib
import importlib
import json
import os
import sys
import time
import traceback

import numpy as np

REPO = os.path.abspath(os.environ.get("VERIF_REPO", "/repo"))
VERIF = os.path.dirname(os.path.dirname(os.path.abspath(__file__)))


from vf.errors import Reject  # noqa: E402  (re-exported; drivers may import it from either module)


class Ctx:
    def __init__(self, pid, tier, seed, shard, nshards):
        self.pid, self.tier, self.seed, self.shard, self.nshards = pid, tier, seed, shard, nshards
        self.evaluations, self.events, self.rejections = {}, {}, {}
        self.fingerprints, self.trivial = set(), 0
        self.samples, self.violations, self.inconclusive_reasons = [], [], []
        self.sections = {}
        self.extra = {}
        self.section, self.case = None, None
        self._nsamples = {}
        self.deadline = None
        self.replaying = False

    # ---- oracle bookkeeping
    def ok(self, monitor, n=1):
        self.evaluations[monitor] = self.evaluations.get(monitor, 0) + n

    def event(self, kind, n=1):
        self.events[kind] = self.events.get(kind, 0) + n

    def reject(self, kind):
        self.rejections[kind] = self.rejections.get(kind, 0) + 1

    def fail(self, mech, msg, **witness):
        v = {"property": self.pid, "mech": mech, "msg": str(msg)[:2000], "section": self.section,
             "case": self.case, "seed": self.seed, "tier": self.tier, "hashseed": os.environ.get("PYTHONHASHSEED", ""),
             "witness": _jsonable(witness)}
        if len(self.violations) < 40:
            self.violations.append(v)
        else:
            self.events["violations_not_stored"] = self.events.get("violations_not_stored", 0) + 1
        if self.replaying:
            print("REPRODUCED", mech, msg)

    def check(self, cond, monitor, mech, msg="", **witness):
        """Count one oracle evaluation on `monitor`; record a violation when cond is false."""
        self.ok(monitor)
        if not cond:
            self.fail(mech, msg() if callable(msg) else msg, **witness)
        return bool(cond)

    def distinct(self, key, nontrivial=True):
        if not nontrivial:
            self.trivial += 1
            return
        h = hashlib.blake2b(repr(key).encode(), digest_size=8).hexdigest()
        if h in self.fingerprints:
            self.trivial += 1
        elif len(self.fingerprints) < 400000:
            self.fingerprints.add(h)

    def sample(self, obj, per_section=2):
        n = self._nsamples.get(self.section, 0)
        if n < per_section:
            self._nsamples[self.section] = n + 1
            self.samples.append({"section": self.section, "case": self.case, "value": _jsonable(obj)})

    def inconclusive(self, reason):
        if reason not in self.inconclusive_reasons:
            self.inconclusive_reasons.append(reason)

    def out_of_time(self):
        return self.deadline is not None and time.time() > self.deadline


def _jsonable(o, depth=0):
    if depth > 6:
        return repr(o)[:200]
    if isinstance(o, (str, int, float, bool)) or o is None:
        return o
    if isinstance(o, complex):
        return [o.real, o.imag]
    if isinstance(o, np.ndarray):
        if o.size > 64:
            return {"ndarray_shape": list(o.shape), "head": _jsonable(o.ravel()[:16].tolist(), depth + 1)}
        return _jsonable(o.tolist(), depth + 1)
    if isinstance(o, (np.integer,)):
        return int(o)
    if isinstance(o, (np.floating,)):
        return float(o)
    if isinstance(o, (np.complexfloating,)):
        return [float(o.real), float(o.imag)]
    if isinstance(o, dict):
        return {str(k): _jsonable(v, depth + 1) for k, v in list(o.items())[:200]}
    if isinstance(o, (list, tuple, set, frozenset)):
        return [_jsonable(v, depth + 1) for v in list(o)[:200]]
    return repr(o)[:600]


# ---------------------------------------------------------------- coverage observer
_reached = set()


def _install_coverage():
    mon = getattr(sys, "monitoring", None)
    if mon is None:
        return False
    tool = mon.COVERAGE_ID
    try:
        mon.use_tool_id(tool, "vf-coverage")
    except ValueError:
        return False
    prefix = REPO + os.sep

    def on_start(code, offset):
        fn = code.co_filename
        if fn.startswith(prefix):
            rel = fn[len(prefix):]
            i = rel.find("/")
            _reached.add(rel[i + 1:] + ":" + code.co_qualname)
        return mon.DISABLE

    mon.register_callback(tool, mon.events.PY_START, on_start)
    mon.set_events(tool, mon.events.PY_START)
    return True


def _blame(exc):
    """Is the innermost repo-or-harness frame of this traceback in the repository?"""
    tb = traceback.extract_tb(exc.__traceback__)
    for fr in reversed(tb):
        if fr.filename.startswith(REPO + os.sep):
            return "repo", "%s:%s" % (os.path.relpath(fr.filename, REPO), fr.name)
        if fr.filename.startswith(VERIF + os.sep):
            return "harness", "%s:%s:%d" % (os.path.relpath(fr.filename, VERIF), fr.name, fr.lineno)
    return "harness", "?"


def run_case(ctx, func, name, case, args=()):
    ctx.section, ctx.case = name, case
    pnum = int(ctx.pid[1:])
    rng = np.random.default_rng([ctx.seed, pnum, _stable(name), case])
    try:
        func(ctx, rng, case, *args)
    except Reject as r:
        ctx.reject(str(r) or "out-of-domain")
    except (KeyboardInterrupt, SystemExit):
        raise
    except BaseException as e:  # noqa
        who, where = _blame(e)
        tbtxt = "".join(traceback.format_exception(type(e), e, e.__traceback__))[-6000:]
        if who == "repo":
            ctx.ok("no-undocumented-exception")
            ctx.fail("exception:%s@%s" % (type(e).__name__, where),
                     "%s: %s" % (type(e).__name__, e), traceback=tbtxt)
        else:
            ctx.inconclusive("harness-error:%s:%s@%s" % (name, type(e).__name__, where))
            sys.stderr.write("HARNESS ERROR in %s case %s\n%s\n" % (name, case, tbtxt))


def _stable(s):
    return int(hashlib.blake2b(s.encode(), digest_size=4).hexdigest(), 16)


def main():
    ap = argparse.ArgumentParser()
    ap.add_argument("pid")
    ap.add_argument("--tier", default="quick")
    ap.add_argument("--seed", type=int, default=0)
    ap.add_argument("--shard", type=int, default=0)
    ap.add_argument("--nshards", type=int, default=1)
    ap.add_argument("--budget", type=float, default=55.0)
    ap.add_argument("--out", required=True)
    ap.add_argument("--replay")
    a = ap.parse_args()
    t0 = time.time()
    _install_coverage()
    import cirq  # noqa: the working tree, asserted below
    roots = {"cirq": cirq.__file__}
    mod = importlib.import_module("vf.props.%s" % a.pid.lower())
    for pkg in getattr(mod, "PACKAGES", []):
        roots[pkg] = importlib.import_module(pkg).__file__
    root_ok = all(os.path.abspath(f).startswith(REPO + os.sep) for f in roots.values())
    ctx = Ctx(a.pid, a.tier, a.seed, a.shard, a.nshards)
    res = {"shard": a.shard, "import_root_ok": root_ok, "cirq_file": cirq.__file__}
    if root_ok:
        if hasattr(mod, "setup"):
            mod.setup(ctx)
        secs = mod.SECTIONS  # list of (name, func, quick_n, thorough_n[, weight])
        tstart = time.time()
        if a.replay:
            ctx.replaying = True
            w = json.load(open(a.replay))
            ctx.seed = w.get("seed", a.seed)
            for sec in secs:
                if sec[0] == w["section"]:
                    run_case(ctx, sec[1], sec[0], w["case"])
        else:
            weights = [(s[4] if len(s) > 4 else 1.0) for s in secs]
            for i, sec in enumerate(secs):
                name, func = sec[0], sec[1]
                planned = sec[2] if a.tier == "quick" else sec[3]
                scale = float(os.environ.get("VERIF_SCALE", "1"))
                planned = int(planned * scale)
                remaining = a.budget - (time.time() - tstart)
                share = remaining * weights[i] / sum(weights[i:])
                ctx.deadline = time.time() + max(share, 1.0)
                mine = range(a.shard, planned, a.nshards)
                done, truncated = 0, False
                for case in mine:
                    if ctx.out_of_time():
                        truncated = True
                        break
                    run_case(ctx, func, name, case)
                    done += 1
                ctx.sections[name] = {"cases": done, "planned": len(mine), "truncated": truncated}
        if hasattr(mod, "teardown"):
            mod.teardown(ctx)
    res.update({
        "sections": ctx.sections, "evaluations": ctx.evaluations, "events": ctx.events,
        "rejections": ctx.rejections, "fingerprints": sorted(ctx.fingerprints), "trivial": ctx.trivial,
        "samples": ctx.samples, "violations": ctx.violations, "inconclusive": ctx.inconclusive_reasons,
        "reached": sorted(_reached), "extra": ctx.extra, "wall_s": time.time() - t0,
        "meta": {"level": getattr(mod, "LEVEL", "exploration"), "rule": getattr(mod, "RULE", ""),
                 "assumptions": getattr(mod, "ASSUMPTIONS", []), "min_eval": getattr(mod, "MIN_EVAL", {}),
                 "must_reach": getattr(mod, "MUST_REACH", [])},
    })
    tmp = a.out + ".tmp"
    json.dump(res, open(tmp, "w"), default=str)
    os.replace(tmp, a.out)


if __name__ == "__main__":
    main()
