#!/bin/bash
# Offline setup: put icontract + deal beside the repository's interpreter
# (git-ignored .deps).  Idempotent; every check calls the same routine.
cd "$(dirname "$0")" || exit 1
PY=${VERIF_PYTHON:-/venv/bin/python}
mkdir -p evidence .scratch
exec "$PY" -B -c "from vf import launcher; launcher.ensure_deps(verbose=True)"
